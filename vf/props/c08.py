"""C08 — Syntax trees stay structurally consistent under any sequence of edits (DESIGN.md §4 C08).

translate : structural facts of Expression.set/append/replace/__eq__ (ast) + the `_hash_raw_args` classes (live)
            -> lean/SqlglotModel/Generated/C08.lean (discharged by `generated_structure_ok`)
prove     : Properties/C08.lean over the pointer-heap model Model/Tree.lean: invariant `Inv` (links / cache / dict keys)
            preserved by new/set(all index branches)/append/replace/pop/hash/==/copy (the iterative __deepcopy__) and by every
            admissible history; by transform / replace_children for any admissible user function; restored by the
            simplifier's pointer repair loop; `==` iff equal explicit normal forms (A-hash); witnesses for negative indexes
            and for the replace-by-own-child idiom
correspond: op histories (exhaustive over a 35-op alphabet on a 10-node base tree up to length 2 (quick) / 3 (thorough),
            random to length 30/45; ops incl. copy, transform(copy=False/True) and replace_children with six mirrored user
            functions, the repair loop, set(k, None, -j)) executed on real Expression objects and on the Lean model; after
            EVERY op both sides dump (class, parent, arg_key, index, `_hash is None`, args) of EVERY allocated node — node
            ids included, i.e. the allocation order of __deepcopy__ — and must agree exactly
search    : the property's own oracle on the REAL code
            * `inv_violations(root)`: a re-implementation of the invariant that walks `node.args` itself
              (links / shared / stale-hash / closure), with `fresh_hash` recomputing hashes ignoring every cache
            * `eq_oracle(a, b)`: `a == b` iff same class and same normalised `structure`
            * random replayable histories of public operations (set/append/replace/pop/hash/==/copy/transform/
              replace_children/builders/unnest/flatten) over parsed and hand-built trees, checked after EVERY op
            * sweeps: parse_one over dialects, every optimizer rule (cumulative, the way optimize() does, and isolated)

Replay format of a history (all JSON, deterministic):
  {"start": [{"kind": "sql", "sql": ..., "dialect": null} | {"kind": "build", "spec": SPEC}, ...],
   "ops":   [{"id": n, "op": kind, "t": NODE, ...}, ...]}
NODE names are "<origin>.<j>": the j-th node (pre-order over live roots) first seen after the op with id <origin>
("s<i>" = start tree i).  SPEC is a small constructor language, see `build`.
Normalised structure note: `Expression.__hash__` folds a list argument into a sequence of (key, element) items, so
`Foo(this=x)` and `Foo(this=[x])` and a missing / None / False / [] argument are by construction the same structure;
`structure()` mirrors exactly that documented normalisation (lower-cased strings, raw args for Literal/Identifier).
"""

from __future__ import annotations

import inspect
import json
import sys
import time

from vf.core import Check, REPO, HarnessError

if REPO not in sys.path:
    sys.path.insert(0, REPO)

import sqlglot  # noqa: E402
from sqlglot import exp  # noqa: E402
from sqlglot.errors import SqlglotError  # noqa: E402

import ast as _ast
import itertools as _it
import json as _json
import os as _os

from vf.core import REPO as _REPO, HarnessError as _HarnessError, lean_str as _lean_str, lean_list as _lean_list

MODULES = ["Model.Tree", "Proofs.Tree", "Proofs.TreeFrame", "Proofs.TreeCopy", "Proofs.TreeRun", "Proofs.TreeNorm",
           "Proofs.TreeWalk", "Proofs.TreeRepair", "Proofs.TreeOrder", "Proofs.TreeIter", "Generated.C08", "Properties.C08"]
_P = "SqlglotModel.Properties.C08."
THEOREMS = [_P + n for n in (
    "inv_init", "inv_new", "inv_set", "inv_append", "inv_replace", "inv_pop", "inv_hash", "inv_eq", "inv_copy",
    "inv_transform", "inv_replace_children", "inv_simplify_repair",
    "inv_reachable", "inv_reachable_from_empty", "no_node_stored_twice", "child_records_its_slot",
    "uncached_child_uncached_parent", "cached_hash_is_recomputed", "eq_iff_recomputed", "eq_iff_structure",
    "eq_different_class", "freeHash_collision_free", "freeHash_eval", "closure_needed",
    "negative_index_breaks_links", "negative_index_normalised_witness", "negative_index_normalised_ok",
    "replace_by_own_child_leaves_husk", "replaceRec_extends_replace", "replace_list_in_scalar_slot_leaves_husk",
    "hash_insertion_order_independent", "unsorted_hash_depends_on_insertion_order",
    "walk_enumerates_reachable", "find_all_exact", "find_ancestor_nearest", "root_and_depth", "parent_chain_is_storage_chain",
    "unnest_strips_parens", "optimizer_moves_reviewed",
    "generated_structure_ok", "primitive_classes_scalar_only",
)]



Expr = exp.Expr


# ------------------------------------------------------------------------------------------ independent arg walk
def children(node):
    """(arg_key, expected index, child) for every Expression stored in node.args — own walk, no iter_expressions."""
    out = []
    for k, v in node.args.items():
        if isinstance(v, Expr):
            out.append((k, None, v))
        elif isinstance(v, list):
            for i, x in enumerate(v):
                if isinstance(x, Expr):
                    out.append((k, i, x))
    return out


def nodes(root):
    """pre-order list of the nodes reachable from root (each object once)."""
    out, seen, stack = [], set(), [root]
    while stack:
        n = stack.pop()
        if id(n) in seen:
            continue
        seen.add(id(n))
        out.append(n)
        for _, _, c in reversed(children(n)):
            stack.append(c)
    return out


class _H:
    """stands for a child expression inside a hashed tuple: hash(_H(h)) goes through the same int reduction"""
    __slots__ = ("h",)

    def __init__(self, h):
        self.h = h

    def __hash__(self):
        return self.h

    def __eq__(self, other):
        return isinstance(other, _H) and other.h == self.h


def _node_hash(node, memo):
    def w(v):
        return _H(memo[id(v)]) if isinstance(v, Expr) else v

    h = hash(node.key)
    if node._hash_raw_args:
        for k in sorted(node.args):
            v = node.args[k]
            if v:
                h = hash((h, k, w(v)))
    else:
        for k in sorted(node.args):
            v = node.args[k]
            vt = type(v)
            if vt is list:
                for x in v:
                    if x is not None and x is not False:
                        h = hash((h, k, x.lower() if type(x) is str else w(x)))
                    else:
                        h = hash((h, k))
            elif v is not None and v is not False:
                h = hash((h, k, v.lower() if vt is str else w(v)))
    return h


def fresh_hashes(root):
    """id -> hash recomputed from scratch (every `_hash` cache ignored); None if the graph is not a tree / unhashable"""
    order = nodes(root)
    memo: dict = {}
    try:
        for n in reversed(order):
            memo[id(n)] = _node_hash(n, memo)
    except (KeyError, TypeError):
        return None
    return memo


def fresh_hash(root):
    m = fresh_hashes(root)
    return None if m is None else m[id(root)]


def inv_violations(root) -> list:
    """The C08 invariant relative to `root` (the root's own link fields are not examined). Entries: '<class>: text'."""
    out = []
    seen = {id(root)}
    stack = [root]
    order = []
    tree = True
    while stack:
        p = stack.pop()
        order.append(p)
        for k, i, c in reversed(children(p)):
            where = f"{type(p).__name__}.{k}" + ("" if i is None else f"[{i}]")
            if id(c) in seen:
                out.append(f"shared: {type(c).__name__} reached a second time at {where}")
                tree = False
                continue
            seen.add(id(c))
            if c.parent is not p:
                out.append(f"links: {type(c).__name__} stored at {where} records parent "
                           f"{type(c.parent).__name__ if c.parent is not None else None}"
                           f"{'' if c.parent is None or type(c.parent) is not type(p) else ' (another object)'}")
            if c.arg_key != k:
                out.append(f"links: {type(c).__name__} stored at {where} records arg_key {c.arg_key!r}")
            if c.index != i or (type(c.index) is bool):
                out.append(f"links: {type(c).__name__} stored at {where} records index {c.index!r}")
            if c._hash is None and p._hash is not None:
                out.append(f"closure: {type(c).__name__} at {where} has no cached hash but its parent has one")
            stack.append(c)
    if tree:
        memo: dict = {}
        try:
            for n in reversed(order):
                memo[id(n)] = _node_hash(n, memo)
        except (KeyError, TypeError):
            memo = {}
        if memo:
            for n in order:
                if n._hash is not None and n._hash != memo[id(n)]:
                    out.append(f"stale-hash: {type(n).__name__} caches {n._hash} but a from-scratch recomputation gives {memo[id(n)]}")
    return out


def vclass(v: str) -> str:
    return v.split(":", 1)[0]


_PRIO = {"shared": 0, "links": 1, "stale-hash": 2, "closure": 3}


def first_violation(vs):
    """(class, text) of the most fundamental entry (a shared node also shows up as a links entry), None if empty"""
    if not vs:
        return None
    v = min(vs, key=lambda x: _PRIO.get(vclass(x), 9))
    return vclass(v), v.split(": ", 1)[1]


_HOLE = ("<none>",)


def structure(root):
    """canonical cache- and pointer-independent key of the normalised structure `==` is meant to compare"""
    memo: dict = {}

    def w(v):
        if isinstance(v, Expr):
            return memo.get(id(v), ("<cycle>",))
        return v

    for n in reversed(nodes(root)):
        items = []
        if n._hash_raw_args:
            for k in sorted(n.args):
                v = n.args[k]
                if v:
                    items.append((k, (w(v),)))
        else:
            for k in sorted(n.args):
                v = n.args[k]
                if type(v) is list:
                    seq = tuple(_HOLE if (x is None or x is False) else (x.lower() if type(x) is str else w(x)) for x in v)
                    if seq:
                        items.append((k, seq))
                elif v is not None and v is not False:
                    items.append((k, (v.lower() if type(v) is str else w(v),)))
        memo[id(n)] = (type(n).__module__ + "." + type(n).__qualname__, tuple(items))
    return memo[id(root)]


def eq_oracle(a, b):
    """None if `a == b` agrees with structural equality, else a description"""
    real = a == b
    want = type(a) is type(b) and structure(a) == structure(b)
    if (a != b) == real:
        return f"eq: {type(a).__name__}: == gives {real} but != gives {a != b}"
    if real != want:
        return f"eq: {type(a).__name__} == {type(b).__name__} gives {real}; same normalised structure: {want}"
    return None


def dump(roots, with_hash=True):
    """pointer-level snapshot used to assert that read-only calls change nothing"""
    out = []
    for r in roots:
        for n in nodes(r):
            args = tuple((k, id(v) if isinstance(v, Expr) else
                          tuple(id(x) if isinstance(x, Expr) else repr(x) for x in v) if isinstance(v, list) else repr(v))
                         for k, v in n.args.items())
            out.append((id(n), type(n).__name__, id(n.parent) if n.parent is not None else None, n.arg_key, n.index,
                        n._hash if with_hash else None, args))
    return out


# ------------------------------------------------------------------------------------------ SQL generator
TABLES = {"x": ["a", "b", "c"], "y": ["a", "b", "c"], "z": ["a", "b", "c"]}
SCHEMA = {t: {c: "INT" for c in cols} for t, cols in TABLES.items()}
SCHEMA_MIXED = {"x": {"a": "INT", "b": "TEXT", "c": "DOUBLE"}, "y": {"a": "INT", "b": "TEXT", "c": "DATE"},
                "z": {"a": "BIGINT", "b": "BOOLEAN", "c": "DECIMAL(10, 2)"}}


class SqlGen:
    """compact random generator of base-dialect queries over TABLES (mostly resolvable, so that optimize() runs)"""

    def __init__(self, rng, comments=False, quoting=True):
        self.rng, self.comments, self.quoting = rng, comments, quoting
        self.n = 0

    def ident(self, name):
        r = self.rng.random()
        if self.quoting and r < 0.08:
            return f'"{name}"'
        if self.quoting and r < 0.18:
            return name.upper()
        return name

    def col(self, sc):
        alias, c = self.rng.choice(sc)
        if len({a for a, _ in sc}) == 1 and self.rng.random() < 0.3:
            return self.ident(c)
        return f"{self.ident(alias)}.{self.ident(c)}"

    def lit(self):
        r = self.rng.random()
        if r < 0.5:
            return str(self.rng.choice([0, 1, 2, 3, 10, 42, 100]))
        if r < 0.65:
            return self.rng.choice(["1.5", "0.25", "2e3"])
        if r < 0.9:
            return "'" + self.rng.choice(["a", "b", "Foo", "x y", "it''s", "", "2020-01-01"]) + "'"
        return self.rng.choice(["NULL", "TRUE", "FALSE"])

    def atom(self, sc):
        s = self.col(sc) if self.rng.random() < 0.65 else self.lit()
        if self.comments and self.rng.random() < 0.1:
            s += f" /* c{self.rng.randrange(9)} */"
        return s

    def expr(self, sc, d=2):
        rng = self.rng
        if d <= 0 or rng.random() < 0.35:
            return self.atom(sc)
        k = rng.randrange(10)
        e = lambda: self.expr(sc, d - 1)  # noqa: E731
        if k == 0 or k == 1:
            return f"{e()} {rng.choice(['+', '-', '*', '/', '%'])} {e()}"
        if k == 2:
            return f"({e()})"
        if k == 3:
            f = rng.choice(["ABS", "LOWER", "UPPER", "ROUND", "GREATEST", "LEAST", "SUBSTRING", "IF", "CONCAT", "LENGTH", "MY_UDF"])
            n = {"ABS": 1, "LOWER": 1, "UPPER": 1, "LENGTH": 1, "ROUND": 2, "SUBSTRING": 3, "IF": 3}.get(f, rng.randint(2, 4))
            args = [self.cond(sc, d - 1)] + [e() for _ in range(2)] if f == "IF" else [e() for _ in range(n)]
            return f"{f}({', '.join(args)})"
        if k == 4:
            whens = " ".join(f"WHEN {self.cond(sc, d - 1)} THEN {e()}" for _ in range(rng.randint(1, 2)))
            return f"CASE {whens}{' ELSE ' + e() if rng.random() < 0.7 else ''} END"
        if k == 5:
            return f"CAST({e()} AS {rng.choice(['INT', 'TEXT', 'DOUBLE', 'DECIMAL(10, 2)', 'DATE', 'BIGINT'])})"
        if k == 6:
            return f"-{self.atom(sc)}"
        if k == 7:
            return f"COALESCE({', '.join(e() for _ in range(rng.randint(2, 4)))})"
        if k == 8 and d >= 2:
            t = rng.choice(list(TABLES))
            return f"(SELECT {rng.choice(['MAX', 'MIN', 'SUM', 'COUNT'])}({self.ident(rng.choice(TABLES[t]))}) FROM {self.ident(t)})"
        return f"{e()} || {e()}"

    def cond(self, sc, d=2):
        rng = self.rng
        e = lambda: self.expr(sc, min(d, 1))  # noqa: E731
        if d > 0 and rng.random() < 0.4:
            k = rng.randrange(4)
            if k == 0:
                return f"{self.cond(sc, d - 1)} AND {self.cond(sc, d - 1)}"
            if k == 1:
                return f"{self.cond(sc, d - 1)} OR {self.cond(sc, d - 1)}"
            if k == 2:
                return f"NOT {self.cond(sc, d - 1)}"
            return f"({self.cond(sc, d - 1)})"
        k = rng.randrange(9)
        if k <= 2:
            return f"{e()} {rng.choice(['=', '<>', '<', '<=', '>', '>='])} {e()}"
        if k == 3:
            return f"{e()} {'NOT ' if rng.random() < 0.3 else ''}IN ({', '.join(self.lit() for _ in range(rng.randint(1, 4)))})"
        if k == 4:
            return f"{e()} BETWEEN {e()} AND {e()}"
        if k == 5:
            return f"{self.col(sc)} IS {'NOT ' if rng.random() < 0.5 else ''}NULL"
        if k == 6:
            return f"{self.col(sc)} LIKE '{rng.choice(['a%', '%b', '_'])}'"
        if k == 7 and d >= 1:
            t = rng.choice(list(TABLES))
            return f"{self.col(sc)} IN (SELECT {self.ident(rng.choice(TABLES[t]))} FROM {self.ident(t)})"
        if k == 8 and d >= 1:
            t = rng.choice(list(TABLES))
            c = rng.choice(TABLES[t])
            return f"EXISTS (SELECT 1 FROM {t} WHERE {t}.{c} = {self.col(sc)})"
        return f"{e()} = {e()}"

    def select(self, d=2, nproj=None, ctes=(), top=True):
        rng = self.rng
        sc, srcs = [], []
        for _ in range(rng.choice([1, 1, 1, 2, 2, 3])):
            self.n += 1
            r = rng.random()
            if ctes and r < 0.4:
                name, cols = rng.choice(ctes)
                alias = f"t{self.n}" if rng.random() < 0.5 else name
                if any(a == alias for a, _ in srcs):
                    alias = f"t{self.n}"
                srcs.append((alias, self.ident(name) + (f" AS {alias}" if alias != name else "")))
            elif d > 0 and r < 0.6:
                alias = f"s{self.n}"
                sub, cols = self.select(d - 1, top=False)
                srcs.append((alias, f"({sub}) AS {alias}"))
            else:
                name = rng.choice(list(TABLES))
                cols = TABLES[name]
                alias = name if (rng.random() < 0.5 and not any(a == name for a, _ in srcs)) else f"t{self.n}"
                srcs.append((alias, self.ident(name) + (f" AS {alias}" if alias != name else "")))
            sc += [(alias, c) for c in cols]
        frm = srcs[0][1]
        seen = [srcs[0][0]]
        for alias, s in srcs[1:]:
            seen.append(alias)
            jsc = [p for p in sc if p[0] in seen]
            r = rng.random()
            if r < 0.15:
                frm += f" CROSS JOIN {s}"
            elif r < 0.25:
                frm += f", {s}"
            else:
                frm += f" {rng.choice(['JOIN', 'LEFT JOIN', 'INNER JOIN', 'RIGHT JOIN', 'FULL JOIN'])} {s} ON {self.cond(jsc, 1)}"
        agg = rng.random() < 0.25
        n = nproj or rng.randint(1, 4)
        projs, names, group = [], [], []
        if agg:
            group = [self.col(sc) for _ in range(rng.randint(1, 2))]
        for i in range(n):
            if agg:
                e = group[i] if i < len(group) else f"{rng.choice(['SUM', 'COUNT', 'MAX', 'MIN', 'AVG'])}({self.expr(sc, 1)})"
            elif top and rng.random() < 0.06:
                e = f"SUM({self.col(sc)}) OVER (PARTITION BY {self.col(sc)} ORDER BY {self.col(sc)})"
            else:
                e = self.expr(sc, d)
            if not top or rng.random() < 0.6:
                nm = f"c{i}"
                e += f" AS {self.ident(nm)}" if top else f" AS {nm}"
            else:
                nm = None
            projs.append(e)
            names.append(nm or f"_c{i}")
        if top and nproj is None and not agg and rng.random() < 0.08:
            projs = [rng.choice(["*", srcs[0][0] + ".*"])]
        sql = f"SELECT {'DISTINCT ' if rng.random() < 0.08 else ''}{', '.join(projs)} FROM {frm}"
        if rng.random() < 0.6:
            sql += f" WHERE {self.cond(sc, d)}"
        if agg:
            sql += f" GROUP BY {', '.join(group)}"
            if rng.random() < 0.4:
                sql += f" HAVING {rng.choice(['SUM', 'COUNT', 'MAX'])}({self.col(sc)}) {rng.choice(['>', '<', '='])} {self.lit()}"
        if rng.random() < 0.3:
            keys = group if agg else [self.expr(sc, 1) for _ in range(rng.randint(1, 2))]
            sql += " ORDER BY " + ", ".join(k + rng.choice(["", "", " DESC", " ASC", " DESC NULLS LAST", " NULLS FIRST"]) for k in keys)
        if rng.random() < 0.2:
            sql += f" LIMIT {rng.choice([1, 5, 10])}" + (f" OFFSET {rng.choice([1, 2])}" if rng.random() < 0.3 else "")
        return sql, [c for c in names]

    def query(self, d=2):
        rng = self.rng
        r = rng.random()
        if self.comments and rng.random() < 0.3:
            pre = f"/* q{rng.randrange(9)} */ "
        else:
            pre = ""
        if r < 0.15:
            ctes, parts = [], []
            for i in range(rng.randint(1, 2)):
                sub, cols = self.select(max(d - 1, 0), ctes=tuple(ctes), top=False)
                ctes.append((f"cte{i}", cols))
                parts.append(f"cte{i} AS ({sub})")
            return pre + f"WITH {', '.join(parts)} " + self.select(d, ctes=tuple(ctes))[0]
        if r < 0.27:
            n = rng.randint(1, 3)
            op = rng.choice(["UNION", "UNION ALL", "UNION ALL", "EXCEPT", "INTERSECT"])
            return pre + f"{self.select(max(d - 1, 0), nproj=n)[0]} {op} {self.select(max(d - 1, 0), nproj=n)[0]}"
        return pre + self.select(d)[0]


def parse_quiet(sql, dialect=None):
    try:
        return sqlglot.parse_one(sql, dialect=dialect)
    except (SqlglotError, RecursionError, ValueError, TypeError, AttributeError, KeyError, IndexError):
        return None


# ------------------------------------------------------------------------------------------ SPEC language (fresh trees)
def build(spec):
    tag = spec[0]
    if tag == "col":
        return exp.column(spec[1], spec[2] if len(spec) > 2 else None)
    if tag == "num":
        return exp.Literal.number(spec[1])
    if tag == "str":
        return exp.Literal.string(spec[1])
    if tag == "id":
        return exp.to_identifier(spec[1], quoted=bool(spec[2]) if len(spec) > 2 else None)
    if tag == "sql":
        return sqlglot.parse_one(spec[1], dialect=spec[2] if len(spec) > 2 else None)
    if tag == "E":
        return getattr(exp, spec[1])(**{k: _bval(v) for k, v in spec[2].items()})
    if tag == "sel":
        q = exp.Select().select(*[build(p) for p in spec[1]]).from_(spec[2])
        return q.where(build(spec[3])) if len(spec) > 3 and spec[3] else q
    raise UnknownOp(f"spec tag {tag!r}")


def _bval(v):
    if isinstance(v, list):
        return build(v)
    if isinstance(v, dict):
        return [_bval(x) for x in v["l"]]
    return v


def rand_spec(rng, d=2):
    if d <= 0 or rng.random() < 0.35:
        k = rng.randrange(4)
        if k == 0:
            return ["col", rng.choice(["a", "b", "c", "A"])] + ([rng.choice(["x", "y"])] if rng.random() < 0.5 else [])
        if k == 1:
            return ["num", rng.choice([0, 1, 2, 7, -3])]
        if k == 2:
            return ["str", rng.choice(["a", "A", "foo", ""])]
        return ["E", rng.choice(["Null", "Star"]), {}] if rng.random() < 0.3 else ["E", "Boolean", {"this": rng.random() < 0.5}]
    s = lambda: rand_spec(rng, d - 1)  # noqa: E731
    k = rng.randrange(9)
    if k <= 2:
        return ["E", rng.choice(["And", "Or", "Add", "EQ", "Mul", "LT"]), {"this": s(), "expression": s()}]
    if k == 3:
        return ["E", rng.choice(["Paren", "Not", "Neg"]), {"this": s()}]
    if k == 4:
        return ["E", "Tuple", {"expressions": {"l": [s() for _ in range(rng.randint(0, 3))]}}]
    if k == 5:
        return ["E", "In", {"this": s(), "expressions": {"l": [s() for _ in range(rng.randint(1, 3))]}}]
    if k == 6:
        return ["E", "Coalesce", {"this": s(), "expressions": {"l": [s() for _ in range(rng.randint(1, 2))]}}]
    if k == 7:
        return ["E", "Alias", {"this": s(), "alias": ["id", rng.choice(["k", "K"]), rng.random() < 0.3]}]
    return ["sel", [s() for _ in range(rng.randint(1, 2))], rng.choice(["x", "y"]), s() if rng.random() < 0.5 else None]


def build_start(s):
    if s["kind"] == "sql":
        return sqlglot.parse_one(s["sql"], dialect=s.get("dialect"))
    if s["kind"] == "build":
        return build(s["spec"])
    raise UnknownOp(f"start kind {s['kind']!r}")


# ------------------------------------------------------------------------------------------ histories on the real code
class UnknownOp(Exception):
    pass


TRANSFORMS = {
    "id": lambda n, a: n,
    "col2lit": lambda n, a: exp.Literal.number(7) if isinstance(n, exp.Column) and str(n.name).lower() == a else n,
    "lit2paren": lambda n, a: (exp.Paren(this=exp.Literal(this=n.this, is_string=bool(n.args.get("is_string"))))
                               if isinstance(n, exp.Literal) and isinstance(n.this, str) else n),
    "copycols": lambda n, a: n.copy() if isinstance(n, exp.Column) else n,
    "copyall": lambda n, a: n.copy(),
    "droplist": lambda n, a: None if (n.parent is not None and type(n.index) is int and n.index % 2 == 1
                                      and isinstance(n, (exp.Literal, exp.Column, exp.Alias, exp.Paren))) else n,
    "dropcols": lambda n, a: None if (n.parent is not None and type(n.index) is int and isinstance(n, exp.Column) and str(n.name).lower() == a) else n,
}
CHILD_FUNS = {
    "id": lambda c: c,
    "copy": lambda c: c.copy(),
    "fresh": lambda c: exp.Literal.number(0) if isinstance(c, (exp.Literal, exp.Column)) else c,
    "dup": lambda c: [c, c.copy()],
    "drop": lambda c: [] if isinstance(c, (exp.Literal, exp.Paren)) else c,
    "wrap": lambda c: exp.Paren(this=c.copy()),
}
SELECT_BUILDERS = ("select", "where", "from_", "join", "group_by", "order_by", "limit", "having")
WRAP_BUILDERS = ("and_", "or_", "not_", "alias_", "as_", "paren", "subquery")
MAX_ROOTS = 10
DEBUG_EXC = None  # set to a list to collect (op, traceback) of ops that raised


class World:
    """live roots + names for every node ever seen (strong refs keep id()s unique)"""

    def __init__(self, start, trees=None):
        """start: list of start specs; `trees` (optional) are already built start trees used instead (C09 edits copies)"""
        self.reg: dict = {}
        self.names: dict = {}
        self.roots: list = []
        for i, s in enumerate(start if trees is None else trees):
            self.roots.append(build_start(s) if trees is None else s)
            self.register(f"s{i}")

    def live(self):
        out = {}
        for r in self.roots:
            for n in nodes(r):
                out.setdefault(id(n), n)
        return out

    def register(self, origin):
        j = 0
        for n in self.live().values():
            if id(n) not in self.names:
                name = f"{origin}.{j}"
                j += 1
                self.names[id(n)] = name
                self.reg[name] = n

    def root_of(self, node):
        for r in self.roots:
            if any(n is node for n in nodes(r)):
                return r
        return None

    def reroot(self, live_before, new, dead):
        cands, seen = [], set()
        dead_ids = {id(d) for d in dead}
        for c in list(self.roots) + [n for n in new if isinstance(n, Expr)]:
            if id(c) not in seen and id(c) not in dead_ids:
                seen.add(id(c))
                cands.append(c)
        reach = {}
        for c in cands:
            for n in nodes(c):
                reach[id(n)] = True
        # nodes that dropped out of every live tree (popped, overwritten, replaced-out) become live roots of their own,
        # top-most first -- unless part of their subtree was re-used by the operation (`node.replace(node.this)`,
        # builders that move the children of the clause they rebuild): such a husk is garbage, not a tree
        covered = set()
        for i, n in live_before.items():
            if i in reach or i in covered or i in dead_ids:
                continue
            sub = [id(m) for m in nodes(n)]
            if any(j in reach for j in sub):
                continue
            cands.append(n)
            covered.update(sub)
        inner = [{id(m) for m in nodes(c)[1:]} for c in cands]
        roots = []
        for ci, c in enumerate(cands):
            drop = False
            for di, _ in enumerate(cands):
                if di != ci and id(c) in inner[di] and not (id(cands[di]) in inner[ci] and ci < di):
                    drop = True
                    break
            if not drop:
                roots.append(c)
        if len(roots) > MAX_ROOTS:
            roots = roots[:2] + roots[-(MAX_ROOTS - 2):]
        self.roots = roots

    def check(self):
        seen: dict = {}
        for ri, r in enumerate(self.roots):
            v = first_violation(inv_violations(r))
            if v:
                return v[0], f"root {ri} ({type(r).__name__}): " + v[1]
            for n in nodes(r):
                if id(n) in seen and seen[id(n)] != ri:
                    return "shared", f"{type(n).__name__} is stored in live trees {seen[id(n)]} and {ri}"
                seen[id(n)] = ri
        return None


def _akind(node, k):
    v = node.args.get(k)
    return "list" if isinstance(v, list) else "absent" if v is None else "child" if isinstance(v, Expr) else "scalar"


def _mkval(w, val, target, live):
    """materialise an op value; returns (admissible, python value, kind-for-key, dead nodes)"""
    v = val["v"]
    if v == "none":
        return True, None, "None", []
    if v == "fresh":
        return True, build(val["spec"]), "fresh", []
    if v == "list":
        return True, [build(s) for s in val["items"]], f"list{len(val['items'])}", []
    if v == "scalar":
        return True, val["x"], type(val["x"]).__name__, []
    if v == "copy":
        n = w.reg.get(val["of"])
        if n is None or id(n) not in live:
            return False, None, "", []
        return True, n.copy(), "copy", []
    if v == "popped":
        n = w.reg.get(val["ref"])
        if n is None or not any(n is r for r in w.roots) or w.root_of(target) is n:
            return False, None, "", []
        return True, n, "popped", []
    if v == "desc":
        sub = nodes(target)
        if not 1 <= val["j"] < len(sub):
            return False, None, "", []
        return True, sub[val["j"]], "child" if sub[val["j"]].parent is target else "desc", [target] if target.parent is not None else []
    if v == "self":
        return True, target, "self", []
    raise UnknownOp(f"value kind {v!r}")


def step(w: World, op: dict):
    """execute one op on the real code. returns (status, violation | None, signature); status ok / skip / exc:<Type>"""
    kind = op["op"]
    live = w.live()

    def ref(name):
        n = w.reg.get(name)
        return n if n is not None and id(n) in live else None

    new: list = []
    dead: list = []
    viol = None
    sig = kind
    try:
        if kind == "hashroots":
            before = dump(w.roots, False)
            for ri, r in enumerate(w.roots):
                h, fh = hash(r), fresh_hash(r)
                if fh is not None and h != fh:
                    viol = ("stale-hash", f"hash(root {ri}: {type(r).__name__}) = {h}, from-scratch recomputation gives {fh}")
                    break
            if viol is None and dump(w.roots, False) != before:
                viol = ("readonly", "hash() changed something other than hash caches")
        elif kind in ("hash", "unnest", "flatten", "walk", "copy", "pop", "transform", "replace_children", "builder",
                      "set", "append", "replace"):
            t = ref(op["t"])
            if t is None:
                return "skip", None, sig
            if kind in ("replace", "pop") and t.parent is not None and any(t is r for r in w.roots):
                # an overwritten child keeps a stale parent pointer; calling replace()/pop() through such a handle would
                # edit a tree the node is no longer part of -- caller misuse, not generated
                return "skip", None, sig
            if kind == "hash":
                before = dump(w.roots, False)
                h, fh = hash(t), fresh_hash(t)
                if fh is not None and h != fh:
                    viol = ("stale-hash", f"hash({type(t).__name__}) = {h}, from-scratch recomputation gives {fh}")
                elif dump(w.roots, False) != before:
                    viol = ("readonly", "hash() changed something other than hash caches")
            elif kind in ("unnest", "flatten", "walk"):
                before = dump(w.roots)
                if kind == "unnest":
                    t.unnest()
                elif kind == "flatten":
                    list(t.flatten())
                else:
                    list(t.walk(bfs=bool(op.get("bfs", True))))
                    list(t.find_all(exp.Column))
                if dump(w.roots) != before:
                    viol = ("readonly", f"{kind}() changed the tree")
            elif kind == "copy":
                before = dump(w.roots)
                c = t.copy()
                new.append(c)
                if dump(w.roots) != before:
                    viol = ("readonly", "copy() changed the original")
                elif {id(n) for n in nodes(c)} & set(live):
                    viol = ("copy", "copy() shares a node with a live tree")
                elif structure(c) != structure(t) or not (c == t):
                    viol = ("copy", f"copy of {type(t).__name__} is not equal to the original")
            elif kind == "pop":
                sig = "pop(" + ("root" if t.parent is None else "elem" if t.index is not None else "arg") + ")"
                had_parent = t.parent is not None
                new.append(t.pop())
                if had_parent and not (t.parent is None and t.arg_key is None and t.index is None):
                    viol = ("links", f"popped {type(t).__name__} still records parent/arg_key/index "
                                     f"({type(t.parent).__name__ if t.parent is not None else None}, {t.arg_key!r}, {t.index!r})")
            elif kind == "transform":
                f, a = TRANSFORMS.get(op["fun"]), op.get("arg")
                if f is None:
                    raise UnknownOp(op["fun"])
                sig = f"transform({op['fun']},{'copy' if op['copy'] else 'inplace'})"
                new.append(t.transform(lambda n: f(n, a), copy=bool(op["copy"])))
            elif kind == "replace_children":
                f = CHILD_FUNS.get(op["fun"])
                if f is None:
                    raise UnknownOp(op["fun"])
                sig = f"replace_children({op['fun']})"
                exp.replace_children(t, f)
            elif kind == "builder":
                name, cp = op["name"], bool(op["copy"])
                args = [build(a) if isinstance(a, list) else a for a in op.get("args", [])]
                sig = f"{name}({'copy' if cp else 'inplace'})"
                if name in SELECT_BUILDERS:
                    if not isinstance(t, exp.Select):
                        return "skip", None, sig
                    kw = dict(op.get("kw", {}))
                    if name == "join" and "on" in kw and isinstance(kw["on"], list):
                        kw["on"] = build(kw["on"])
                    new.append(getattr(t, name)(*args, copy=cp, **kw))
                elif name in WRAP_BUILDERS:
                    # copy=False wraps the node itself into a new parent: only admissible on a detached root
                    if not cp and not any(t is r for r in w.roots):
                        return "skip", None, sig
                    if name in ("and_", "or_"):
                        new.append(getattr(t, name)(*args, copy=cp))
                    elif name == "not_":
                        new.append(t.not_(copy=cp))
                    elif name == "alias_":
                        new.append(exp.alias_(t, "k", copy=cp))
                    elif name == "as_":
                        new.append(t.as_("k", copy=cp))
                    elif name == "paren":
                        new.append(exp.paren(t, copy=cp))
                    else:
                        if not isinstance(t, exp.Query):
                            return "skip", None, sig
                        new.append(exp.subquery(t, "q", copy=cp))
                else:
                    raise UnknownOp(name)
            else:  # set / append / replace
                ok, val, vk, dead = _mkval(w, op["val"], t, live)
                if not ok:
                    return "skip", None, sig
                if kind == "set":
                    k = op["k"]
                    ak = _akind(t, k)
                    if "index" in op:
                        cur = t.args.get(k)
                        i = op["index"]
                        if not isinstance(cur, list) or not -len(cur) - 1 <= i <= len(cur):
                            return "skip", None, sig
                        # negative positions are ordinary Python list positions (seq_get / list.pop accept them)
                        pos = "oob" if (i == len(cur) or i < -len(cur)) else "neg" if i < 0 else "idx"
                        ow = bool(op.get("overwrite", True))
                        sig = f"set({ak},{pos}{'' if ow else ',ins'},{vk})"
                        t.set(k, val, index=i, overwrite=ow)
                    else:
                        if isinstance(val, list) and ak != "list":
                            return "skip", None, sig
                        sig = f"set({ak},{vk})"
                        t.set(k, val)
                elif kind == "append":
                    if t._hash_raw_args:  # a list inside a Literal/Identifier arg is unhashable by construction: not generated
                        return "skip", None, sig
                    sig = f"append({_akind(t, op['k'])},{vk})"
                    t.append(op["k"], val)
                else:
                    pos = "root" if t.parent is None else "elem" if t.index is not None else "arg"
                    if isinstance(val, list) and pos != "elem":
                        return "skip", None, sig
                    sig = f"replace({pos},{vk})"
                    t.replace(val)
                    if pos != "root" and val is not t and not (t.parent is None and t.arg_key is None and t.index is None):
                        viol = ("links", f"replaced-out {type(t).__name__} still records parent/arg_key/index "
                                         f"({type(t.parent).__name__ if t.parent is not None else None}, {t.arg_key!r}, {t.index!r})")
                new += val if isinstance(val, list) else [val]
                new.append(t)
        elif kind == "diff":
            # diff() on two nodes (often SUB-trees of trees whose hashes are cached): it may cache hashes while it runs but must
            # leave every tree, and every hash cache, as it found them
            a, b = ref(op["a"]), ref(op["b"])
            if a is None or b is None:
                return "skip", None, sig
            from sqlglot.diff import diff as _diff
            before = dump(w.roots, False)
            _diff(a, b, delta_only=bool(op.get("delta_only")))
            if dump(w.roots, False) != before:
                viol = ("readonly", "diff() changed its argument trees")
            # (which caches it leaves filled is C09's business; here only the invariant counts: w.check() below)
        elif kind == "eq":
            a, b = ref(op["a"]), ref(op["b"])
            if a is None or b is None:
                return "skip", None, sig
            before = dump(w.roots, False)
            msg = eq_oracle(a, b)
            if msg:
                viol = ("eq", msg.split(": ", 1)[1])
            elif dump(w.roots, False) != before:
                viol = ("readonly", "== changed something other than hash caches")
        else:
            raise UnknownOp(kind)
    except (UnknownOp, HarnessError):
        raise
    except Exception as e:  # noqa: BLE001 - any exception of the op ends the history
        if DEBUG_EXC is not None:
            import traceback
            DEBUG_EXC.append((op, traceback.format_exc()))
        return "exc:" + type(e).__name__, None, sig
    w.reroot(live, new, dead)
    w.register(str(op.get("id", "h")))
    return "ok", viol or w.check(), sig


def run_history(start, ops):
    """replay a history from scratch. returns None (holds / ended by an exception) or dict(at, cls, what, sigs)"""
    try:
        w = World(start)
    except UnknownOp:
        raise
    except Exception:  # noqa: BLE001
        return None
    v = w.check()
    if v:
        return {"at": -1, "cls": v[0], "what": v[1], "sigs": []}
    sigs = []
    for i, op in enumerate(ops):
        status, v, sig = step(w, op)
        if status.startswith("exc"):
            return None
        if status == "ok":
            sigs.append(sig)
        if v:
            return {"at": i, "cls": v[0], "what": v[1], "sigs": sigs}
    return None


def shrink_history(start, ops, cls, deadline):
    """delta-debug: drop ops (and unused start trees) while a violation of the same class still occurs"""
    def fails(s, o):
        r = run_history(s, o)
        return r if r and r["cls"] == cls else None

    r = fails(start, ops)
    if not r:
        return start, ops
    ops = ops[: r["at"] + 1]
    changed = True
    while changed and time.time() < deadline:
        changed = False
        for i in range(len(ops) - 1, -1, -1):
            cand = ops[:i] + ops[i + 1:]
            r2 = fails(start, cand)
            if r2:
                ops = cand[: r2["at"] + 1]
                changed = True
                break
    used = json.dumps(ops)
    for i in range(len(start) - 1, 0, -1):
        if f'"s{i}.' not in used and i == len(start) - 1 and fails(start[:i], ops):
            start = start[:i]
    return start, ops


def history_key(sigs, cls):
    return "hist:" + ";".join(sigs) + "|" + cls


# ---- random generation of ops (needs the current world)
def _pick_val(w, rng, target, live_nodes, allow_list, allow_scalar=True):
    r = rng.random()
    if r < 0.12:
        return {"v": "none"}
    if r < 0.42:
        return {"v": "fresh", "spec": rand_spec(rng, rng.choice([0, 1, 1, 2]))}
    if r < 0.62:
        return {"v": "copy", "of": w.names[id(rng.choice(live_nodes))]}
    if r < 0.80:
        troot = w.root_of(target)
        cands = [x for x in w.roots[1:] if x is not troot]
        if cands:
            return {"v": "popped", "ref": w.names[id(rng.choice(cands))]}
        return {"v": "fresh", "spec": rand_spec(rng, 1)}
    if r < 0.92 and allow_list:
        return {"v": "list", "items": [rand_spec(rng, rng.choice([0, 1])) for _ in range(rng.randint(0, 3))]}
    if allow_scalar:
        return {"v": "scalar", "x": rng.choice(["abc", "ABC", True, False, 3, ""])}
    return {"v": "fresh", "spec": rand_spec(rng, 0)}


def _pick_key(rng, t):
    keys = list(t.args)
    extra = [k for k in t.arg_types if k not in t.args]
    if keys and (not extra or rng.random() < 0.8):
        lists = [k for k in keys if isinstance(t.args[k], list)]
        if lists and rng.random() < 0.5:
            return rng.choice(lists)
        return rng.choice(keys)
    return rng.choice(extra) if extra else "this"


SQL_FRAGS = ["x.a", "y.b + 1", "COALESCE(x.c, 0)", "a", "LOWER(b) AS lb", "1 AS one", "'s'"]
COND_FRAGS = ["x.a = 1", "y.b > x.a", "a IS NULL", "x.a IN (1, 2)", "NOT b < 3", "TRUE"]


def gen_op(w: World, rng, opid: int) -> dict:
    live_nodes = list(w.live().values())
    nm = lambda n: w.names[id(n)]  # noqa: E731
    t = rng.choice(live_nodes)
    # prefer deeper / list-bearing targets a little: uniform choice is dominated by leaves anyway
    r = rng.random()
    op: dict = {"id": opid}
    if r < 0.13:
        op.update(op="hashroots")
    elif r < 0.22:
        op.update(op="hash", t=nm(t))
    elif r < 0.30:
        a = rng.choice(live_nodes)
        same = [n for n in live_nodes if type(n) is type(a)]
        b = rng.choice(same) if rng.random() < 0.8 else rng.choice(live_nodes)
        if rng.random() < 0.4 and len(same) <= 40:  # prefer a structurally equal partner (equal trees must compare equal)
            sa = structure(a)
            twins = [n for n in same if n is not a and structure(n) == sa]
            b = rng.choice(twins) if twins else b
        op.update(op="eq", a=nm(a), b=nm(b))
    elif r < 0.47:
        k = _pick_key(rng, t)
        cur = t.args.get(k)
        if isinstance(cur, list) and rng.random() < 0.6:
            val = _pick_val(w, rng, t, live_nodes, allow_list=True, allow_scalar=False)
            index = rng.randint(-len(cur) - 1, -1) if rng.random() < 0.15 else rng.randint(0, len(cur))
            op.update(op="set", t=nm(t), k=k, val=val, index=index, overwrite=rng.random() < 0.6)
        else:
            op.update(op="set", t=nm(t), k=k, val=_pick_val(w, rng, t, live_nodes, allow_list=isinstance(cur, list)))
    elif r < 0.54:
        lists = [n for n in live_nodes if any(isinstance(v, list) for v in n.args.values())]
        if t._hash_raw_args:
            t = rng.choice([n for n in live_nodes if not n._hash_raw_args] or live_nodes)
        if lists and rng.random() < 0.8:
            t = rng.choice(lists)
            k = rng.choice([k for k, v in t.args.items() if isinstance(v, list)])
        else:
            k = _pick_key(rng, t)
        val = _pick_val(w, rng, t, live_nodes, allow_list=False, allow_scalar=rng.random() < 0.3)
        if val["v"] == "none" and rng.random() < 0.7:
            val = {"v": "fresh", "spec": rand_spec(rng, 1)}
        op.update(op="append", t=nm(t), k=k, val=val)
    elif r < 0.68:
        sub = nodes(t)
        q = rng.random()
        if len(sub) > 1 and q < 0.35:
            kids = [j for j, n in enumerate(sub) if j and n.parent is t]
            j = rng.choice(kids) if kids and rng.random() < 0.8 else rng.randrange(1, len(sub))
            val = {"v": "desc", "j": j}
        elif q < 0.40:
            val = {"v": "self"}
        else:
            val = _pick_val(w, rng, t, live_nodes, allow_list=t.index is not None, allow_scalar=False)
        op.update(op="replace", t=nm(t), val=val)
    elif r < 0.74:
        op.update(op="pop", t=nm(t))
    elif r < 0.79:
        op.update(op="copy", t=nm(t))
    elif r < 0.85:
        big = [x for x in w.roots if len(nodes(x)) > 2] or w.roots
        t = rng.choice(big) if rng.random() < 0.7 else t
        op.update(op="transform", t=nm(t), fun=rng.choice(sorted(TRANSFORMS)), arg=rng.choice(["a", "b", "c"]), copy=rng.random() < 0.4)
    elif r < 0.89:
        inner = [n for n in live_nodes if children(n)] or live_nodes
        op.update(op="replace_children", t=nm(rng.choice(inner)), fun=rng.choice(sorted(CHILD_FUNS)))
    elif r < 0.97:
        sels = [n for n in live_nodes if isinstance(n, exp.Select)]
        cp = rng.random() < 0.4
        if sels and rng.random() < 0.6:
            name = rng.choice(SELECT_BUILDERS)
            arg = lambda frags: rng.choice(frags) if rng.random() < 0.6 else rand_spec(rng, 1)  # noqa: E731
            args, kw = [], {}
            if name in ("select", "group_by", "order_by"):
                args = [arg(SQL_FRAGS if name == "select" else SQL_FRAGS[:4]) for _ in range(rng.randint(1, 2))]
            elif name in ("where", "having"):
                args = [arg(COND_FRAGS)]
            elif name == "from_":
                args = [rng.choice(["x", "y", "z AS zz"])]
            elif name == "join":
                args = [rng.choice(["y", "z", "x AS x2"])]
                if rng.random() < 0.7:
                    kw = {"on": arg(COND_FRAGS)}
            else:
                args = [rng.choice([1, 5])]
            if name in ("select", "where", "group_by", "order_by", "having") and rng.random() < 0.3:
                kw["append"] = False
            op.update(op="builder", t=nm(rng.choice(sels)), name=name, args=args, kw=kw, copy=cp)
        else:
            name = rng.choice(WRAP_BUILDERS)
            if not cp:
                t = rng.choice(w.roots)
            if name == "subquery":
                qs = [n for n in (w.roots if not cp else live_nodes) if isinstance(n, exp.Query)]
                t = rng.choice(qs) if qs else t
            args = [rng.choice(COND_FRAGS) if rng.random() < 0.5 else rand_spec(rng, 1)] if name in ("and_", "or_") else []
            op.update(op="builder", t=nm(t), name=name, args=args, copy=cp)
    elif rng.random() < 0.1:
        op.update(op="diff", a=nm(t), b=nm(rng.choice(live_nodes)), delta_only=rng.random() < 0.3)
    else:
        op.update(op=rng.choice(["unnest", "flatten", "walk"]), t=nm(t))
    return op


def rand_start(rng, gen: SqlGen):
    start = []
    for _ in range(rng.choice([1, 1, 2])):
        r = rng.random()
        if r < 0.45:
            start.append({"kind": "sql", "sql": gen.query(rng.choice([0, 1, 1, 2])), "dialect": None})
        elif r < 0.6:
            sc = [("x", c) for c in "abc"] + [("y", c) for c in "abc"]
            start.append({"kind": "sql", "sql": gen.cond(sc, 2) if rng.random() < 0.6 else gen.expr(sc, 2), "dialect": None})
        else:
            start.append({"kind": "build", "spec": rand_spec(rng, rng.choice([1, 2, 2, 3]))})
    return start


def explore_history(chk: Check, start, max_ops, hash_every_op):
    """generate + execute one random history; returns (ops, violation dict | None)"""
    rng = chk.rng
    try:
        w = World(start)
    except Exception as e:  # noqa: BLE001
        chk.count("start-exc:" + type(e).__name__)
        return [], None
    v = w.check()
    if v:
        return [], {"at": -1, "cls": v[0], "what": v[1], "sigs": []}
    ops, sigs = [], []
    opid = 0
    for _ in range(max_ops):
        batch = [gen_op(w, rng, opid)]
        opid += 1
        if hash_every_op and batch[0]["op"] != "hashroots":
            batch.append({"id": opid, "op": "hashroots"})
            opid += 1
        for op in batch:
            status, v, sig = step(w, op)
            ops.append(op)
            if status == "ok":
                sigs.append(sig)
                chk.count("op:" + sig.split("(")[0])
            else:
                chk.count("op-" + status)
            if v:
                return ops, {"at": len(ops) - 1, "cls": v[0], "what": v[1], "sigs": sigs}
            if status.startswith("exc"):
                return ops, None
    return ops, None


def report_history(chk: Check, start, ops, cls, t_shrink=8.0):
    start2, ops2 = shrink_history(start, ops, cls, time.time() + t_shrink)
    r = run_history(start2, ops2)
    if not r:  # not reproducible from scratch: report unshrunk
        r = {"cls": cls, "what": "violation not reproduced on replay (order dependent?)", "sigs": [o["op"] for o in ops]}
        start2, ops2 = start, ops
    chk.report_violation(history_key(r["sigs"], r["cls"]), f"after {len(ops2)} public tree operations: {r['what']}",
                         {"start": start2, "ops": ops2})


# ------------------------------------------------------------------------------------------ sweeps
def all_dialects():
    """the `Dialects` enum has no entry for every dialect module (e.g. singlestore): enum ∪ DIALECT_MODULE_NAMES"""
    from sqlglot.dialects.dialect import Dialects
    import sqlglot.dialects as _d
    names = [d.value or None for d in Dialects]
    for m in sorted(getattr(_d, "DIALECT_MODULE_NAMES", ())):
        if m not in names and m != "dialect":
            names.append(m)
    return names


def tree_check(tree, with_real_hash=True):
    """inv + (real hash == fresh hash). returns (class, text) or None"""
    v = first_violation(inv_violations(tree))
    if v is None and with_real_hash:
        fh = fresh_hash(tree)
        if fh is not None and hash(tree) != fh:
            return "stale-hash", f"hash({type(tree).__name__}) differs from the from-scratch recomputation"
        v = first_violation(inv_violations(tree))
    return v


def sql_reductions(sql, dialect=None):
    """candidate smaller SQL texts (drop list elements / optional args, hoist children, lift sub-queries)"""
    tree = parse_quiet(sql, dialect)
    if tree is None:
        return
    n = len(nodes(tree))
    seen = {sql}
    for i in range(n):
        base = nodes(tree)[i]
        variants = ["lift"] if (i and isinstance(base, exp.Query)) else []
        if base.parent is not None:
            variants.append("pop")
            variants += [("hoist", j) for j in range(len(children(base)))]
        for var in variants:
            try:
                t = tree.copy()
                node = nodes(t)[i]
                if var == "lift":
                    out = node.copy().sql(dialect=dialect)
                elif var == "pop":
                    p, k = node.parent, node.arg_key
                    if node.index is None and p.arg_types.get(k, False):
                        continue
                    if node.index is not None and len(p.args[k]) == 1:
                        continue
                    node.pop()
                    out = t.sql(dialect=dialect)
                else:
                    c = children(node)[var[1]][2]
                    node.replace(c)
                    out = t.sql(dialect=dialect)
            except Exception:  # noqa: BLE001
                continue
            if out not in seen and len(out) < len(sql):
                seen.add(out)
                yield out


def shrink_sql(sql, fails, deadline, dialect=None):
    """greedy: take the first reduction that still fails, restart"""
    progress = True
    while progress and time.time() < deadline:
        progress = False
        for cand in sql_reductions(sql, dialect):
            if time.time() > deadline:
                break
            try:
                bad = fails(cand)
            except Exception:  # noqa: BLE001
                bad = False
            if bad:
                sql, progress = cand, True
                break
    return sql


def sweep_parse(chk: Check, gen: SqlGen, dialects, deadline):
    rng = chk.rng
    n = 0
    while time.time() < deadline and len(chk.violations) < 3:
        sql = gen.query(rng.choice([1, 2, 2, 3]))
        base = parse_quiet(sql)
        if base is None:
            chk.count("parse:base-error")
            continue
        for d in [None] + rng.sample(dialects, min(len(dialects), chk.pick(3, 6))):
            if time.time() > deadline:
                break
            try:
                text = sql if d is None else base.sql(dialect=d)
                tree = sqlglot.parse_one(text, dialect=d)
            except Exception as e:  # noqa: BLE001
                chk.count("parse:err:" + type(e).__name__)
                continue
            n += 1
            chk.count("parse:" + (d or "base"))
            v = tree_check(tree)
            chk.case(("parse", d, text), nontrivial=True, sample={"parse": text, "dialect": d} if n % 211 == 1 else None)
            if v:
                def fails(s, d=d, cls=v[0]):
                    t = parse_quiet(s, d)
                    r = t is not None and tree_check(t)
                    return bool(r) and r[0] == cls
                small = shrink_sql(text, fails, time.time() + 4, d)
                chk.report_violation(f"parse:{d or 'base'}|{v[0]}", f"parse_one output: {v[1]}",
                                     {"kind": "parse", "sql": small, "dialect": d}, context={"dialect": d or ""})
    return n


def rule_kwargs(rule, schema, dialect=None):
    """mirror of optimize(): rule-specific kwargs picked by inspecting the signature"""
    from sqlglot.schema import ensure_schema
    possible = {"db": None, "catalog": None, "schema": ensure_schema(schema, dialect=dialect), "dialect": dialect, "sql": None,
                "isolate_tables": True, "quote_identifiers": False}
    return {p: possible[p] for p in inspect.getfullargspec(rule).args if p in possible}


def run_rules(sql, schema, mode, pre_hash, only=None):
    """cumulative: every rule in RULES order, checking after EACH rule. isolated: qualify, then `only` on a copy.
    returns (rule name, class, text) | None ; raises sqlglot errors of the rules (caller ignores those)"""
    from sqlglot.optimizer.optimizer import RULES
    from sqlglot.optimizer.qualify import qualify
    tree = sqlglot.parse_one(sql)
    if mode == "cumulative":
        for rule in RULES:
            name = rule.__name__
            # seeded coin: populate the caches (through the real hash path) before some rules only, so that both
            # fully cached and partially cached trees reach the rule
            tree = rule(tree, **rule_kwargs(rule, schema))
            v = tree_check(tree, with_real_hash=name in pre_hash)
            if v:
                return name, v[0], v[1]
        v = tree_check(tree)
        return (RULES[-1].__name__, v[0], v[1]) if v else None
    tree = qualify(tree, **rule_kwargs(qualify, schema))
    for rule in RULES:
        name = rule.__name__
        if only is not None and name != only:
            continue
        t = tree.copy()
        if name in pre_hash:
            hash(t)
        try:
            out = rule(t, **rule_kwargs(rule, schema))
        except SqlglotError:
            continue
        v = tree_check(out)
        if v:
            return name, v[0], v[1]
    return None


def sweep_rules(chk: Check, gen: SqlGen, deadline):
    from sqlglot.optimizer.optimizer import RULES
    rng = chk.rng
    names = [r.__name__ for r in RULES]
    n = 0
    while time.time() < deadline and len(chk.violations) < 3:
        sql = gen.query(rng.choice([1, 2, 2, 3]))
        schema_name = "int" if rng.random() < 0.6 else "mixed"
        schema = SCHEMA if schema_name == "int" else SCHEMA_MIXED
        mode = "cumulative" if rng.random() < 0.65 else "isolated"
        pre_hash = [nm for nm in names if rng.random() < 0.5]
        try:
            v = run_rules(sql, schema, mode, pre_hash)
            chk.count("rules:" + mode)
        except (SqlglotError, RecursionError) as e:
            chk.count("rules:err:" + type(e).__name__)
            continue
        except Exception as e:  # noqa: BLE001 - crashes of rules are not this property's business
            chk.count("rules:exc:" + type(e).__name__)
            continue
        n += 1
        for nm in names:
            chk.count("rule:" + nm)
        chk.case(("rules", mode, schema_name, sql, tuple(pre_hash)), nontrivial=True,
                 sample={"rules": sql, "mode": mode} if n % 97 == 1 else None)
        if v:
            rule, cls, text = v

            def fails(s):
                try:
                    r = run_rules(s, schema, mode, pre_hash, only=rule if mode == "isolated" else None)
                except Exception:  # noqa: BLE001
                    return False
                return bool(r) and r[0] == rule and r[1] == cls
            small = shrink_sql(sql, fails, time.time() + 6)
            chk.report_violation(f"rule:{rule}|{cls}", f"after optimizer rule {rule} ({mode}): {text}",
                                 {"kind": "rules", "sql": small, "schema": schema_name, "mode": mode, "pre_hash": pre_hash, "rule": rule},
                                 context={"rule": rule})
    return n


# ------------------------------------------------------------------------------------------ search
CORPUS = [
    # "hash first, then mutate a grandchild, then compare"
    {"start": [{"kind": "sql", "sql": "SELECT a + 1 AS c, COALESCE(b, 2, 3) FROM x WHERE a IN (1, 2, 3)", "dialect": None}],
     "ops": [{"id": 0, "op": "hashroots"}, {"id": 1, "op": "set", "t": "s0.4", "k": "this", "val": {"v": "fresh", "spec": ["num", 5]}},
             {"id": 2, "op": "hashroots"}, {"id": 3, "op": "eq", "a": "s0.0", "b": "s0.0"}]},
]


# exhaustive part: every sequence over a fixed alphabet on one small tree (all five `set(..., index=)` branches, list
# vs scalar positions, first / middle / last / out-of-range, cache-filling ops in between)
EXH_START = [{"kind": "build", "spec": ["E", "Paren", {"this": ["E", "Tuple", {"expressions": {"l": [
    ["col", "a"], ["E", "Paren", {"this": ["num", 1]}], ["str", "s"]]}}]}]}]
# pre-order names: s0.0 Paren, s0.1 Tuple, s0.2 Column, s0.3 Identifier, s0.4 Paren, s0.5 Literal 1, s0.6 Literal 's'
_F = {"v": "fresh", "spec": ["num", 9]}
_L2 = {"v": "list", "items": [["num", 8], ["col", "b"]]}


def exh_alphabet():
    ops = [{"op": "hashroots"}, {"op": "hash", "t": "s0.1"}, {"op": "hash", "t": "s0.4"}, {"op": "eq", "a": "s0.5", "b": "s0.6"}]
    ops += [{"op": "pop", "t": t} for t in ("s0.1", "s0.2", "s0.4", "s0.5", "s0.6")]
    ops += [{"op": "replace", "t": "s0.2", "val": _F}, {"op": "replace", "t": "s0.4", "val": _F},
            {"op": "replace", "t": "s0.4", "val": {"v": "desc", "j": 1}}, {"op": "replace", "t": "s0.6", "val": {"v": "none"}},
            {"op": "replace", "t": "s0.2", "val": _L2}, {"op": "replace", "t": "s0.5", "val": _F}, {"op": "replace", "t": "s0.1", "val": _F}]
    for i in range(4):
        ops.append({"op": "set", "t": "s0.1", "k": "expressions", "val": {"v": "none"}, "index": i})
        ops.append({"op": "set", "t": "s0.1", "k": "expressions", "val": _F, "index": i})
    ops += [{"op": "set", "t": "s0.1", "k": "expressions", "val": {"v": "none"}, "index": -1},
            {"op": "set", "t": "s0.1", "k": "expressions", "val": {"v": "none"}, "index": -2},
            {"op": "set", "t": "s0.1", "k": "expressions", "val": _F, "index": -1},
            {"op": "set", "t": "s0.1", "k": "expressions", "val": _F, "index": -2, "overwrite": False},
            {"op": "set", "t": "s0.1", "k": "expressions", "val": _L2, "index": -3}]
    ops += [{"op": "set", "t": "s0.1", "k": "expressions", "val": _F, "index": 0, "overwrite": False},
            {"op": "set", "t": "s0.1", "k": "expressions", "val": _F, "index": 2, "overwrite": False},
            {"op": "set", "t": "s0.1", "k": "expressions", "val": _L2, "index": 1},
            {"op": "set", "t": "s0.1", "k": "expressions", "val": _L2},
            {"op": "set", "t": "s0.4", "k": "this", "val": _F}, {"op": "set", "t": "s0.4", "k": "this", "val": {"v": "none"}},
            {"op": "set", "t": "s0.3", "k": "this", "val": {"v": "scalar", "x": "B"}},
            {"op": "append", "t": "s0.1", "k": "expressions", "val": _F},
            {"op": "copy", "t": "s0.1"}, {"op": "diff", "a": "s0.1", "b": "s0.4"}, {"op": "diff", "a": "s0.0", "b": "s0.0"},
            {"op": "transform", "t": "s0.0", "fun": "lit2paren", "arg": "a", "copy": False},
            {"op": "replace_children", "t": "s0.1", "fun": "dup"}]
    return ops


def exhaustive(chk: Check, length, deadline):
    import itertools
    alpha = exh_alphabet()
    n = 0
    complete = True
    for L in range(1, length + 1):
        for seq in itertools.product(alpha, repeat=L):
            if time.time() > deadline or len(chk.violations) >= 3:
                complete = False
                break
            ops = [dict(o, id=i) for i, o in enumerate(seq)]
            r = run_history(EXH_START, ops)
            n += 1
            if r:
                report_history(chk, EXH_START, ops, r["cls"], t_shrink=2.0)
    chk.case(("exhaustive", length, n), nontrivial=True)
    return {"alphabet": len(alpha), "max_length": length, "histories": n, "complete": complete}


def try_history(chk: Check, h, tag):
    """run a given history (hint / corpus) through the oracle; unknown op kinds -> skipped"""
    try:
        r = run_history(h["start"], h["ops"])
    except (UnknownOp, KeyError, TypeError, IndexError):
        chk.count(tag + ":skipped")
        return
    chk.count(tag + ":run")
    chk.case((tag, json.dumps(h, sort_keys=True, default=repr)), nontrivial=True)
    if r:
        report_history(chk, h["start"], h["ops"], r["cls"])


# ------------------------------------------------------------------------------------------ class coverage / rare constructs
def all_expression_classes():
    out, stack = set(), [exp.Expression]
    while stack:
        x = stack.pop()
        for c in x.__subclasses__():
            if c not in out:
                out.add(c)
                stack.append(c)
    return sorted(out, key=lambda c: (c.__module__, c.__name__))


# `Expr.__init__` skips `_set_parent` for classes with `is_primitive = True`: sound only while every arg of such a class
# is a scalar. These are the scalar args of the primitive classes (pinned in Properties/C08 `primitive_classes_scalar_only`).
PRIMITIVE_SCALAR_ARGS = ("this", "quoted", "global_", "temporary", "is_string", "is_bytes", "is_integer")


def build_instance(cls, variant):
    """an instance built through the constructor with EVERY arg of arg_types filled: 'one' = a child node per arg,
    'many' = a list of two children per arg, 'mixed' = lists for list-like keys, children otherwise"""
    def child(i):
        return [exp.Literal.number(i), exp.column("c%d" % i), exp.to_identifier("i%d" % i), exp.Literal.string("s%d" % i)][i % 4]
    kw = {}
    for i, k in enumerate(cls.arg_types):
        if getattr(cls, "is_primitive", False) and k in PRIMITIVE_SCALAR_ARGS:
            kw[k] = "x%d" % i if k == "this" else True   # the documented scalar payload of a primitive (leaf) class
            continue
        listy = k in ("expressions", "joins", "laterals", "pivots", "ifs", "order", "partition_by", "actions", "options",
                      "properties", "hints", "with_", "windows", "settings", "params", "keys", "values", "fields") or k == cls.var_len_arg_key
        if variant == "many" or (variant == "mixed" and listy):
            kw[k] = [child(2 * i), child(2 * i + 1)]
        else:
            kw[k] = child(i)
    return cls(**kw)


def edit_probe(tree, limit=12):
    """hash the tree, edit a leaf, the root's hash must follow (a child whose parent link is missing cannot invalidate upwards)"""
    n_done = 0
    for n in nodes(tree):
        if n is tree or n_done >= limit:
            continue
        v = n.args.get("this")
        if isinstance(v, str) and not any(isinstance(x, (Expr, list)) for x in n.args.values()):
            hash(tree)
            n.set("this", v + "q")
            n_done += 1
            fh = fresh_hash(tree)
            if fh is not None and hash(tree) != fh:
                return "stale-hash", (f"after hash(root), {type(n).__name__}.set('this', …) on a node stored under "
                                      f"{type(n.parent).__name__ if n.parent is not None else None}: the root's cached hash is stale")
    return None


def class_case(name, variant):
    """returns (stage, class, text) or None"""
    cls = next((c for c in all_expression_classes() if c.__name__ == name), None)
    if cls is None:
        raise UnknownOp(name)
    try:
        node = build_instance(cls, variant)
    except Exception:  # noqa: BLE001
        return None
    stages = [("constructed", lambda: node)]
    stages.append(("copied", lambda: node.copy()))

    def edited():
        k = next(iter(cls.arg_types), None)
        if k is None:
            return node
        node.set(k, exp.Literal.number(7))
        if not node._hash_raw_args:
            node.append(cls.var_len_arg_key if variant != "one" else k, exp.Literal.number(8))
        return node
    for stage, mk in stages + [("edited", edited)]:
        try:
            t = mk()
            v = tree_check(t)
            if v is None and stage != "copied":
                v = edit_probe(t, 4)
        except Exception:  # noqa: BLE001 — odd classes may refuse odd children; C05's business
            continue
        if v:
            return stage, v[0], v[1]
    return None


def sweep_classes(chk: Check, deadline) -> int:
    n = 0
    for cls in all_expression_classes():
        for variant in ("mixed", "one", "many"):
            if time.time() > deadline or len(chk.violations) >= 3:
                return n
            n += 1
            r = class_case(cls.__name__, variant)
            chk.count("class-variant:" + variant)
            if r:
                stage, vc, what = r
                chk.report_violation(f"class:{cls.__name__}|{stage}|{vc}", f"{cls.__name__}({variant} children) {stage}: {what}",
                                     {"kind": "class", "cls": cls.__name__, "variant": variant}, context={"class": cls.__name__})
    chk.case(("classes", n), nontrivial=True)
    return n


# a repo-independent corpus of rarely used constructs per dialect (parse errors are skipped)
RARE_SQL = [
    ("postgres", "SELECT U&'d!0061t' UESCAPE '!'"), ("presto", "SELECT U&'d!0061t' UESCAPE '!'"), ("trino", "SELECT U&'\\0061'"),
    ("postgres", "SELECT E'a\\nb', B'101', X'1F'"), ("mysql", "SELECT N'x', _utf8'x', b'01', x'AF', 0xAF"),
    ("bigquery", "SELECT r'a\\b', b'abc', rb'x'"), ("spark", "SELECT X'1C', r'raw'"), ("snowflake", "SELECT $$dollar$$"),
    ("oracle", "SELECT /*+ INDEX(t idx) LEADING(t u) */ a FROM t JOIN u ON t.a = u.a"),
    ("spark", "SELECT /*+ BROADCAST(t), REPARTITION(3) */ a FROM t"), ("mysql", "SELECT /*+ MAX_EXECUTION_TIME(10) */ a FROM t USE INDEX (i)"),
    ("snowflake", "SELECT * FROM t PIVOT(SUM(a) FOR b IN ('x', 'y')) AS p"), ("spark", "SELECT * FROM t UNPIVOT (v FOR k IN (a, b))"),
    ("bigquery", "SELECT * FROM t PIVOT(SUM(a) AS s, COUNT(*) AS c FOR b IN ('x' AS x1, 'y'))"),
    ("snowflake", "SELECT * FROM t MATCH_RECOGNIZE (PARTITION BY a ORDER BY b MEASURES FIRST(c) AS fc ONE ROW PER MATCH "
                  "AFTER MATCH SKIP PAST LAST ROW PATTERN (x y+) DEFINE y AS c > 1)"),
    ("oracle", "SELECT * FROM JSON_TABLE(j, '$.a[*]' COLUMNS (x NUMBER PATH '$.x', NESTED PATH '$.b[*]' COLUMNS (y VARCHAR2(10) PATH '$.y')))"),
    ("mysql", "SELECT * FROM JSON_TABLE(j, '$[*]' COLUMNS (x INT PATH '$.x' DEFAULT '0' ON EMPTY)) AS jt"),
    ("hive", "SELECT a, e FROM t LATERAL VIEW OUTER EXPLODE(arr) tbl AS e"), ("bigquery", "SELECT x, off FROM UNNEST([1, 2]) AS x WITH OFFSET AS off"),
    ("bigquery", "SELECT * FROM UNNEST(arr) WITH OFFSET"), ("duckdb", "SELECT {'a': 1, 'b': x} AS s, [1, 2][1], MAP {'k': 1}"),
    ("duckdb", "SELECT * FROM t ASOF JOIN u ON t.ts >= u.ts"), ("duckdb", "PIVOT t ON a USING SUM(b)"),
    ("tsql", "SELECT a INTO #tmp FROM t"), ("postgres", "SELECT a INTO TEMPORARY tmp FROM t"), ("tsql", "SELECT TOP 3 WITH TIES a FROM t ORDER BY a"),
    ("tsql", "SELECT a FROM t FOR XML PATH('x'), ROOT('r')"), ("oracle", "SELECT a FROM t START WITH p IS NULL CONNECT BY NOCYCLE PRIOR id = p"),
    ("snowflake", "SELECT a FROM t QUALIFY ROW_NUMBER() OVER (PARTITION BY b ORDER BY c) = 1"),
    ("postgres", "SELECT SUM(a) FILTER (WHERE b > 1), PERCENTILE_CONT(0.5) WITHIN GROUP (ORDER BY a) FROM t"),
    ("bigquery", "SELECT FIRST_VALUE(a IGNORE NULLS) OVER (ORDER BY b ROWS BETWEEN 1 PRECEDING AND UNBOUNDED FOLLOWING) FROM t"),
    ("postgres", "SELECT a FROM t TABLESAMPLE BERNOULLI (10) REPEATABLE (1)"), ("hive", "SELECT a FROM t TABLESAMPLE (BUCKET 1 OUT OF 4 ON a)"),
    ("postgres", "SELECT a FROM t GROUP BY GROUPING SETS ((a), (a, b), ()), ROLLUP (c), CUBE (d)"),
    ("postgres", "INSERT INTO t (a) VALUES (1) ON CONFLICT (a) DO UPDATE SET a = EXCLUDED.a RETURNING a"),
    ("snowflake", "MERGE INTO t USING s ON t.a = s.a WHEN MATCHED AND s.b > 1 THEN UPDATE SET t.b = s.b WHEN NOT MATCHED THEN INSERT (a) VALUES (s.a)"),
    ("hive", "INSERT OVERWRITE TABLE t PARTITION (ds = '1') SELECT a FROM s"), ("spark", "SELECT TRANSFORM(arr, x -> x + 1), AGGREGATE(arr, 0, (acc, x) -> acc + x)"),
    ("postgres", "SELECT a AT TIME ZONE 'UTC', INTERVAL '1 day 2 hours', CAST(a AS NUMERIC(10, 2)), a::INT[] FROM t"),
    ("postgres", "CREATE TABLE t (a INT PRIMARY KEY, b TEXT NOT NULL DEFAULT 'x' CHECK (b <> ''), c INT REFERENCES u (c) ON DELETE CASCADE, "
                 "d INT GENERATED ALWAYS AS IDENTITY, UNIQUE (a, b)) PARTITION BY RANGE (a)"),
    ("mysql", "CREATE TABLE t (a INT AUTO_INCREMENT, b VARCHAR(10) CHARACTER SET utf8 COLLATE utf8_bin COMMENT 'c', KEY k (b)) ENGINE=InnoDB"),
    ("bigquery", "CREATE OR REPLACE TABLE d.t PARTITION BY DATE(ts) CLUSTER BY a OPTIONS (description='x') AS SELECT 1 AS a"),
    ("snowflake", "CREATE TABLE t CLONE s AT (TIMESTAMP => '2020-01-01'::TIMESTAMP)"), ("postgres", "ALTER TABLE t ADD COLUMN a INT, DROP COLUMN b, ALTER COLUMN c SET DEFAULT 1"),
    ("clickhouse", "SELECT a FROM t FINAL SAMPLE 0.1 ARRAY JOIN arr AS x PREWHERE b > 1 LIMIT 1 BY a SETTINGS max_threads = 1"),
    ("clickhouse", "SELECT quantile(0.5)(a), {p: UInt8}, a ? b : c FROM t"), ("redshift", "SELECT a FROM t WHERE b SIMILAR TO 'x%' AND c ILIKE ANY ('a', 'b')"),
    ("oracle", "SELECT XMLTABLE('/a' PASSING x COLUMNS b VARCHAR2(5) PATH 'b') FROM t"), ("postgres", "SELECT a FROM t FOR UPDATE OF t SKIP LOCKED"),
    ("postgres", "WITH RECURSIVE c (n) AS (SELECT 1 UNION ALL SELECT n + 1 FROM c WHERE n < 3) SEARCH DEPTH FIRST BY n SET o SELECT * FROM c"),
    ("snowflake", "SELECT a:b.c[0]::STRING, GET_PATH(v, 'x') FROM t, LATERAL FLATTEN(input => v) f"), ("tsql", "SELECT a FROM t WITH (NOLOCK) OPTION (RECOMPILE)"),
    ("bigquery", "SELECT STRUCT(1 AS a, 'x' AS b), ARRAY<INT64>[1], SAFE_CAST(a AS INT64 FORMAT 'x'), EXTRACT(WEEK(MONDAY) FROM d) FROM t"),
    ("postgres", "SELECT JSON_OBJECT('a': 1 ABSENT ON NULL), JSON_ARRAYAGG(a ORDER BY a), a -> 'b' ->> 'c', a @> b FROM t"),
    ("duckdb", "SELECT * EXCLUDE (a) REPLACE (b + 1 AS b), COLUMNS('x.*') FROM t"), ("presto", "SELECT TRY(a), a IS DISTINCT FROM b, ROW(1, 2), CAST(ROW(1) AS ROW(x INT)) FROM t"),
    ("spark", "SELECT a FROM t DISTRIBUTE BY a SORT BY b CLUSTER BY c"), ("snowflake", "COPY INTO t FROM @s FILE_FORMAT = (TYPE = CSV) PATTERN = '.*'"),
    ("", "SELECT CASE a WHEN 1 THEN 'x' ELSE 'y' END, a BETWEEN 1 AND 2, EXISTS (SELECT 1), a IN (SELECT b FROM u), NOT a, -a, a || b FROM t"),
]


def parse_rare():
    out = []
    for d, sql in RARE_SQL:
        try:
            for t in sqlglot.parse(sql, dialect=d or None):
                if t is not None:
                    out.append((d or None, sql, t))
        except Exception:  # noqa: BLE001
            continue
    return out


def sweep_rare(chk: Check, deadline) -> int:
    import logging
    logging.getLogger("sqlglot").setLevel(logging.ERROR)  # "falling back to Command" warnings are not findings
    n = 0
    for i, (d, sql) in enumerate(RARE_SQL):
        if time.time() > deadline or len(chk.violations) >= 3:
            break
        try:
            trees = [t for t in sqlglot.parse(sql, dialect=d or None) if t is not None]
        except Exception:  # noqa: BLE001
            chk.count("rare:parse-error")
            continue
        for t in trees:
            n += 1
            chk.count("rare:parsed")
            v = tree_check(t) or edit_probe(t)
            if v is None:
                c = t.copy()
                v = tree_check(c)
            if v:
                chk.report_violation(f"parse:{d or 'base'}|{v[0]}", f"parse_one({sql!r}, dialect={d!r}): {v[1]}",
                                     {"kind": "rare", "i": i, "sql": sql, "dialect": d or None}, context={"dialect": d or "base"})
                break
    return n


def search(chk: Check, hints: list, budget_s: float) -> None:
    t0 = time.time()
    rng = chk.rng
    gen = SqlGen(rng)
    n_rare = sweep_rare(chk, t0 + budget_s * 0.1)
    n_cls = sweep_classes(chk, t0 + budget_s * chk.pick(0.25, 0.15))
    for h in CORPUS + list(hints or []):
        try_history(chk, h, "hint")
    t1 = time.time()
    exh = exhaustive(chk, chk.pick(2, 3), t1 + budget_s * chk.pick(0.2, 0.3))
    n_hist = n_ops = found = 0
    t_hist = t0 + budget_s * 0.6
    max_ops = chk.pick(40, 60)
    while time.time() < t_hist and len(chk.violations) < 3:
        start = rand_start(rng, gen)
        every = rng.random() < 0.5
        ops, v = explore_history(chk, start, rng.randint(3, max_ops), every)
        n_hist += 1
        n_ops += len(ops)
        chk.case(("hist", json.dumps(start), json.dumps(ops)), nontrivial=len(ops) > 1,
                 sample={"start": start, "ops": ops[:5]} if n_hist % 401 == 1 else None)
        if v:
            found += 1
            report_history(chk, start, ops, v["cls"])
    dialects = [d for d in all_dialects() if d]
    if chk.quick:
        dialects = rng.sample(dialects, 10)
    n_parse = sweep_parse(chk, gen, dialects, t0 + budget_s * 0.75)
    n_rules = sweep_rules(chk, gen, t0 + budget_s)
    chk.search_info = {"ran": True, "budget_s": budget_s, "histories": n_hist, "ops": n_ops, "violating_histories": found, "exhaustive": exh,
                       "parse_trees": n_parse, "dialects": len(dialects) + 1, "rule_pipelines": n_rules,
                       "class_instances": n_cls, "rare_statements": n_rare,
                       "elapsed_s": round(time.time() - t0, 1),
                       "oracle": "after every public op: links/shared/stale-hash/closure over every live tree (own arg walk, hashes recomputed "
                                 "from scratch), == iff same normalised structure; same checker on parse_one output and after every optimizer rule"}



# ================================================================================================ LEAN STAGES
# ---- translate: structural facts of the anchored methods (ast) + the raw-hash classes (live) ------------------
def _method(tree, cls, name):
    for c in tree.body:
        if isinstance(c, _ast.ClassDef) and c.name == cls:
            for f in c.body:
                if isinstance(f, _ast.FunctionDef) and f.name == name:
                    return f
    return None


def _is_attr(n, obj, attr):
    return isinstance(n, _ast.Attribute) and n.attr == attr and isinstance(n.value, _ast.Name) and n.value.id == obj


def _has_inval_loop(fn) -> bool:
    """`node = self; while node and node._hash is not None: node._hash = None; node = node.parent` (first statements)"""
    if fn is None:
        return False
    for st in fn.body:
        if isinstance(st, _ast.While):
            t = st.test
            ok_test = (isinstance(t, _ast.BoolOp) and isinstance(t.op, _ast.And) and len(t.values) == 2
                       and isinstance(t.values[0], _ast.Name)
                       and isinstance(t.values[1], _ast.Compare) and _is_attr(t.values[1].left, t.values[0].id, "_hash")
                       and len(t.values[1].ops) == 1 and isinstance(t.values[1].ops[0], _ast.IsNot)
                       and isinstance(t.values[1].comparators[0], _ast.Constant) and t.values[1].comparators[0].value is None)
            if not ok_test:
                return False
            v = t.values[0].id
            clears = any(isinstance(b, _ast.Assign) and _is_attr(b.targets[0], v, "_hash")
                         and isinstance(b.value, _ast.Constant) and b.value.value is None for b in st.body)
            climbs = any(isinstance(b, _ast.Assign) and isinstance(b.targets[0], _ast.Name) and b.targets[0].id == v
                         and _is_attr(b.value, v, "parent") for b in st.body)
            return clears and climbs and len(st.body) == 2
    return False


def _replace_clears(fn) -> bool:
    if fn is None:
        return False
    got = set()
    for n in _ast.walk(fn):
        if isinstance(n, _ast.Assign) and isinstance(n.value, _ast.Constant) and n.value.value is None:
            for tg in n.targets:
                if isinstance(tg, _ast.Attribute) and isinstance(tg.value, _ast.Name) and tg.value.id == "self":
                    got.add(tg.attr)
    return {"parent", "arg_key", "index"} <= got


def _eq_is_hash(fn) -> bool:
    if fn is None:
        return False
    src = _ast.unparse(fn)
    return "hash(self) == hash(other)" in src and "type(self) is type(other)" in src


_DEEPCOPY_LOOP = """for k, vs in node.args.items():
    if isinstance(vs, Expr):
        stack.append((vs, vs.__class__()))
        copy.set(k, stack[-1][-1])
    elif type(vs) is list:
        copy.args[k] = []
        for v in vs:
            if isinstance(v, Expr):
                stack.append((v, v.__class__()))
                copy.append(k, stack[-1][-1])
            else:
                copy.append(k, v)
    else:
        copy.args[k] = vs"""
_TRANSFORM_LOOP = """for node in (self.copy() if copy else self).dfs(prune=lambda n: n is not new_node):
    parent, arg_key, index = (node.parent, node.arg_key, node.index)
    new_node = fun(node, *args, **kwargs)
    if not root:
        root = new_node
    elif parent and arg_key and (new_node is not node):
        parent.set(arg_key, new_node, index)"""
_DFS_BODY = """stack = [self]
while stack:
    node = stack.pop()
    yield node
    if prune and prune(node):
        continue
    for v in node.iter_expressions(reverse=True):
        stack.append(v)"""
_RC_LOOP = """for k, v in tuple(expression.args.items()):
    is_list_arg = type(v) is list
    child_nodes = v if is_list_arg else [v]
    new_child_nodes = []
    for cn in child_nodes:
        if isinstance(cn, Expr):
            for child_node in ensure_collection(fun(cn, *args, **kwargs)):
                new_child_nodes.append(child_node)
        else:
            new_child_nodes.append(cn)
    if is_list_arg:
        expression.set(k, new_child_nodes)
    else:
        expression.set(k, seq_get(new_child_nodes, 0))"""
_REPAIR_LOOP = """for k, v in tuple(original.args.items()):
    if v is None:
        original.args.pop(k)
    else:
        original._set_parent(k, v)"""


def _stmts(fn, kind):
    return [_ast.unparse(st) for st in _ast.walk(fn) if isinstance(st, kind)] if fn is not None else []


def _loop_shapes(core_tree) -> dict:
    """the loops the model mirrors statement by statement must read exactly as they did when the model was written"""
    dc = _method(core_tree, "Expression", "__deepcopy__")
    tr = _method(core_tree, "Expression", "transform")
    dfs = _method(core_tree, "Expression", "dfs")
    dsrc = _ast.unparse(dc) if dc else ""
    out = {
        "transformWalkShape": _TRANSFORM_LOOP in _stmts(tr, _ast.For) and dfs is not None
                              and "\n".join(_ast.unparse(st) for st in dfs.body) == _DFS_BODY,
        "deepcopyLoopShape": _DEEPCOPY_LOOP in _stmts(dc, _ast.For) and "node, copy = stack.pop()" in dsrc
                             and "stack: list[tuple[Expr, Expr]] = [(self, root)]" in dsrc
                             and 0 <= dsrc.find("copy._hash = node._hash") < dsrc.find("for k, vs in node.args.items()"),
    }
    b = _ast.parse(open(_os.path.join(_REPO, "sqlglot", "expressions", "builders.py"), encoding="utf-8").read())
    rc = next((f for f in b.body if isinstance(f, _ast.FunctionDef) and f.name == "replace_children"), None)
    out["replaceChildrenShape"] = _RC_LOOP in _stmts(rc, _ast.For)
    sm = _ast.parse(open(_os.path.join(_REPO, "sqlglot", "optimizer", "simplify.py"), encoding="utf-8").read())
    out["simplifyRepairShape"] = _REPAIR_LOOP in [_ast.unparse(st) for st in _ast.walk(sm) if isinstance(st, _ast.For)]
    return out


import glob as _glob


def scan_moves(REPO):
    rows=[]
    for f in sorted(_glob.glob(_os.path.join(REPO,'sqlglot','optimizer','*.py'))):
        t=_ast.parse(open(f).read())
        for fn in _ast.walk(t):
            if not isinstance(fn, _ast.FunctionDef): continue
            loops=[n for n in _ast.walk(fn) if isinstance(n,(_ast.For,_ast.While))]
            def loop_of(node):
                return [id(l) for l in loops if any(x is node for x in _ast.walk(l))]
            placed=[]; moved=[]
            for n in _ast.walk(fn):
                if not isinstance(n, _ast.Call): continue
                name = n.func.attr if isinstance(n.func, _ast.Attribute) else n.func.id if isinstance(n.func, _ast.Name) else None
                if isinstance(n.func, _ast.Attribute) and (name == "replace" or (name in ("set", "append") and len(n.args) >= 2)):
                    for a in (n.args if name == "replace" else n.args[1:]):
                        for x in _ast.walk(a):
                            if isinstance(x, _ast.Name): placed.append((x.id, n))
                if any(kw.arg=="copy" and isinstance(kw.value, _ast.Constant) and kw.value.value is False for kw in n.keywords):
                    for a in n.args:
                        if isinstance(a, _ast.Name): moved.append((a.id, n))
            for v, pn in placed:
                for w, mn in moved:
                    if v != w or any(x is mn for x in _ast.walk(pn)): continue
                    same_loop = set(loop_of(pn)) & set(loop_of(mn))
                    if mn.lineno > pn.lineno or same_loop:
                        rows.append(f"{_os.path.basename(f)}:{fn.name}:{v} | placed: {_ast.unparse(pn)} | moved: {_ast.unparse(mn)}")
    return sorted(set(rows))


_ITER_BODIES = {
    "root": "expression: Expr = self\nwhile expression.parent:\n    expression = expression.parent\nreturn expression",
    "depth": "if self.parent:\n    return self.parent.depth + 1\nreturn 0",
    "find_ancestor": "ancestor = self.parent\nwhile ancestor and (not isinstance(ancestor, expression_types)):\n    ancestor = ancestor.parent\nreturn ancestor",
    "unnest": "expression = self\nwhile type(expression) is Paren:\n    expression = expression.this\nreturn expression",
    "find_all": "for expression in self.walk(bfs=bfs):\n    if isinstance(expression, expression_types):\n        yield expression",
    "bfs": "queue: deque[Expr] = deque()\nqueue.append(self)\nwhile queue:\n    node = queue.popleft()\n    yield node\n    if prune and prune(node):\n        continue\n    for v in node.iter_expressions():\n        queue.append(v)",
    "iter_expressions": "for vs in reversed(self.args.values()) if reverse else self.args.values():\n    if isinstance(vs, list):\n        for v in reversed(vs) if reverse else vs:\n            if isinstance(v, Expr):\n                yield t.cast(E, v)\n    elif isinstance(vs, Expr):\n        yield t.cast(E, vs)",
}


def translate(chk) -> str:
    path = _os.path.join(_REPO, "sqlglot", "expressions", "core.py")
    tree = _ast.parse(open(path, encoding="utf-8").read())
    facts = {
        "setInvalidatesUpParents": _has_inval_loop(_method(tree, "Expression", "set")),
        "appendInvalidatesUpParents": _has_inval_loop(_method(tree, "Expression", "append")),
        "replaceClearsPointers": _replace_clears(_method(tree, "Expression", "replace")),
        "eqIsHashEquality": _eq_is_hash(_method(tree, "Expression", "__eq__")),
    }
    facts.update(_loop_shapes(tree))
    facts["iteratorShapes"] = all(
        _method(tree, "Expression", nm) is not None and "\n".join(_ast.unparse(st) for st in _method(tree, "Expression", nm).body
                                                                   if not (isinstance(st, _ast.Expr) and isinstance(st.value, _ast.Constant))) == body
        for nm, body in _ITER_BODIES.items())
    hsrc = _ast.unparse(_method(tree, "Expression", "__hash__")) if _method(tree, "Expression", "__hash__") else ""
    facts["hashIteratesSortedKeys"] = hsrc.count("for k in sorted(node.args):") == 2 and "in node.args.items()" not in hsrc \
        and "for k in node.args:" not in hsrc
    # not a required shape: which of the two modelled variants of `set(k, None, index<0)` the source has
    set_src = _ast.unparse(_method(tree, "Expression", "set")) if _method(tree, "Expression", "set") else ""
    neg_norm = "if index < 0" in set_src
    chk.cov["negative_index_normalised"] = neg_norm
    for k, v in facts.items():
        if not v:
            chk.broken.append({"kind": "translator", "what": f"C08 translator: structure changed: {k} no longer recognised in sqlglot/expressions/core.py"})
    from sqlglot import exp
    raw = sorted(c.key for c in exp.Expression.__subclasses__() if False)  # placeholder, replaced below
    raw = sorted({c.key for c in _all_subclasses(exp.Expression) if getattr(c, "_hash_raw_args", False)})
    chk.cov["raw_hash_classes"] = raw
    lines = ["-- GENERATED by vf/props/c08.py from sqlglot/expressions/core.py. Do not edit.",
             "import SqlglotModel.Model.Tree", "namespace SqlglotModel.Generated.C08"]
    for k, v in facts.items():
        lines.append(f"def {k} : Bool := {'true' if v else 'false'}")
    lines.append("/-- does `set` normalise a negative index before removing a list element? (model variant selector, see "
                 "Properties/C08 `negative_index_breaks_links`) -/")
    lines.append(f"def negativeIndexNormalised : Bool := {'true' if neg_norm else 'false'}")
    moves = scan_moves(_REPO)
    chk.cov["optimizer_place_then_move"] = moves
    lines.append("/-- optimizer functions in which a variable is both installed in a tree (replace / set / append) and handed to a "
                 "`copy=False` builder later or in the same loop: `file:function:var | placed: … | moved: …` -/")
    lines.append("def optimizerPlaceThenMove : List String := " + _lean_list(_lean_str(x) for x in moves))
    prim = sorted((c.key, sorted(c.arg_types)) for c in _all_subclasses(exp.Expr) if getattr(c, "is_primitive", False))
    chk.cov["primitive_classes"] = {k: a for k, a in prim}
    lines.append("/-- classes with `is_primitive = True` (whose `__init__` does not link children) and their arg names -/")
    lines.append("def primitiveClasses : List (String × List String) := " + _lean_list(
        "(" + _lean_str(k) + ", " + _lean_list(_lean_str(a) for a in args) + ")" for k, args in prim))
    lines.append("/-- classes with `_hash_raw_args = True` -/")
    lines.append("def rawClasses : List String := " + _lean_list(_lean_str(r) for r in raw))
    lines.append("end SqlglotModel.Generated.C08")
    return "\n".join(lines) + "\n"


def _all_subclasses(c):
    out, stack = set(), [c]
    while stack:
        x = stack.pop()
        for s in x.__subclasses__():
            if s not in out:
                out.add(s)
                stack.append(s)
    return out


# ---- the real side of the line protocol -------------------------------------------------------------------------
def _classes():
    from sqlglot import exp
    cl = [exp.And, exp.Or, exp.Not, exp.Paren, exp.Column, exp.Identifier, exp.Literal, exp.Tuple, exp.Coalesce,
          exp.In, exp.Select, exp.Alias, exp.EQ, exp.Add, exp.Neg]
    return {c.key: c for c in cl}


class RealHeap:
    """Executes protocol ops on real Expression objects; object registry index == model node id."""

    def __init__(self):
        self.reg = []
        self.ids = {}
        self.cls = _classes()

    def _register(self, o):
        self.ids[id(o)] = len(self.reg)
        self.reg.append(o)

    def _register_copy(self, c):
        """registry order = allocation order of __deepcopy__: the root first; popping a pair allocates the copies of its
        children in args order (pushing them), and the LAST pushed pair is popped next"""
        from sqlglot.expressions.core import Expr
        self._register(c)
        stack = [c]
        while stack:
            o = stack.pop()
            for v in o.args.values():
                kids = [v] if isinstance(v, Expr) else [x for x in v if isinstance(x, Expr)] if type(v) is list else []
                for kid in kids:
                    self._register(kid)
                    stack.append(kid)

    def _mk_lit(self, txt):
        o = self.cls["literal"]()
        self._register(o)
        o.set("this", txt)
        o.set("is_string", False)
        return o

    def user_fun(self, name):
        """the Python twins of `builtinFun` in Model/Tree.lean (fresh nodes are registered in allocation order)"""
        def fun(node):
            if getattr(self, "_copy_pending", False):
                # transform(copy=True): the first node handed to the function is the root of the fresh copy, whose cells
                # were allocated before any cell the function creates
                self._copy_pending = False
                self._register_copy(node)
            in_list = node.index is not None
            if name == "lit" and node.key == "column":
                return self._mk_lit("0")
            if name == "wrap" and node.key == "literal":
                lit = self._mk_lit("7")
                p = self.cls["paren"]()
                self._register(p)
                p.set("this", lit)
                return p
            if name == "drop" and node.key == "literal" and in_list:
                return None
            if name == "dup" and node.key == "literal" and in_list:
                return [self._mk_lit("8"), self._mk_lit("9")]
            if name == "mut" and node.key == "paren":
                node.set("this", self._mk_lit("5"))
                return node
            return node
        return fun

    def value(self, v):
        if v is None:
            return None
        if "n" in v:
            return self.reg[v["n"]]
        if "l" in v:
            return [self.item(x) for x in v["l"]]
        return v["s"]

    def item(self, x):
        return self.reg[x["n"]] if "n" in x else x["s"]

    def apply(self, op) -> str:
        from sqlglot.expressions.core import Expr
        kind = op["op"]
        try:
            if kind == "new":
                if op["id"] != len(self.reg):
                    raise _HarnessError("new: id out of step with the registry")
                o = self.cls[op["cls"]]()
                if bool(o._hash_raw_args) != op["raw"]:
                    raise _HarnessError("raw flag mismatch")
                self._register(o)
                return "ok"
            if kind == "set":
                self.reg[op["n"]].set(op["k"], self.value(op["v"]), index=op["idx"], overwrite=op["ow"])
                return "ok"
            if kind == "setneg":
                self.reg[op["n"]].set(op["k"], None, index=-op["back"])
                return "ok"
            if kind == "transform":
                cp = bool(op.get("copy"))
                self._copy_pending = cp
                self.reg[op["n"]].transform(self.user_fun(op["fun"]), copy=cp)
                return "ok"
            if kind in ("root", "depth", "find_ancestor", "unnest", "walk", "find_all"):
                o = self.reg[op["n"]]
                rid = lambda x: "-" if x is None else str(self.ids[id(x)])  # noqa: E731
                if kind == "root":
                    return "r " + rid(o.root())
                if kind == "depth":
                    return "r %d" % o.depth
                if kind == "find_ancestor":
                    return "r " + rid(o.find_ancestor(self.cls[op["cls"]]))
                if kind == "unnest":
                    return "r " + rid(o.unnest())
                if kind == "walk":
                    pc = op["prune"]
                    it = (o.bfs if op["bfs"] else o.dfs)(prune=lambda n: n.key == pc)
                    return "r " + ",".join(rid(x) for x in it)
                return "r " + ",".join(rid(x) for x in o.find_all(self.cls[op["cls"]], bfs=op["bfs"]))
            if kind == "repair":
                # the simplifier's pointer repair loop (sqlglot/optimizer/simplify.py; shape checked by the translator)
                o = self.reg[op["n"]]
                for k, v in tuple(o.args.items()):
                    if v is None:
                        o.args.pop(k)
                    else:
                        o._set_parent(k, v)
                return "ok"
            if kind == "rc":
                from sqlglot import exp as _exp
                _exp.replace_children(self.reg[op["n"]], self.user_fun(op["fun"]))
                return "ok"
            if kind == "append":
                self.reg[op["n"]].append(op["k"], self.item(op["it"]))
                return "ok"
            if kind == "replace":
                self.reg[op["n"]].replace(self.value(op["v"]))
                return "ok"
            if kind == "pop":
                self.reg[op["n"]].pop()
                return "ok"
            if kind == "hash":
                hash(self.reg[op["n"]])
                return "ok"
            if kind == "eq":
                return "true" if self.reg[op["a"]] == self.reg[op["b"]] else "false"
            if kind == "copy":
                c = self.reg[op["n"]].copy()
                first = len(self.reg)
                self._register_copy(c)
                return f"copy {first}"
            raise _HarnessError(f"unknown op {kind}")
        except _HarnessError:
            raise
        except Exception:  # noqa: any Python exception inside the operation
            return "fail"

    @staticmethod
    def _scalar(v):
        if v is None:
            return "N"
        if v is True:
            return "T"
        if v is False:
            return "F"
        if isinstance(v, int):
            return "i%d" % v
        if isinstance(v, str):
            return "'" + v
        return "?" + type(v).__name__

    def _ref(self, o):
        i = self.ids.get(id(o))
        return "#?" if i is None else "#%d" % i

    def dump(self) -> str:
        from sqlglot.expressions.core import Expr
        out = []
        for i, o in enumerate(self.reg):
            args = []
            for k, v in o.args.items():
                if isinstance(v, Expr):
                    s = self._ref(v)
                elif type(v) is list:
                    s = "[" + ",".join(self._ref(x) if isinstance(x, Expr) else self._scalar(x) for x in v) + "]"
                else:
                    s = self._scalar(v)
                args.append(f"{k}={s}")
            par = "-" if o.parent is None else self._ref(o.parent)[1:]
            out.append(":".join([str(i), o.key, par, "-" if o.arg_key is None else o.arg_key,
                                 "-" if o.index is None else str(o.index),
                                 "hN" if o._hash is None else "hS", ";".join(args)]))
        return " ".join(out)

    # -- queries used by the generator ---------------------------------------------------------------------------
    def stored_ids(self):
        from sqlglot.expressions.core import Expr
        st = set()
        for o in self.reg:
            for v in o.args.values():
                if isinstance(v, Expr):
                    st.add(id(v))
                elif type(v) is list:
                    st.update(id(x) for x in v if isinstance(x, Expr))
        return st

    def parent_chain_ok(self, n) -> bool:
        """the parent-pointer chain of n ends (stale pointers can close a pointer cycle on which root()/depth never return)"""
        seen, o = set(), self.reg[n]
        while o is not None:
            if id(o) in seen:
                return False
            seen.add(id(o))
            o = o.parent
        return True

    def has_cycle_from(self, n) -> bool:
        from sqlglot.expressions.core import Expr
        WHITE, GREY, BLACK = 0, 1, 2
        color = {}
        stack = [(self.reg[n], False)]
        while stack:
            o, leaving = stack.pop()
            if leaving:
                color[id(o)] = BLACK
                continue
            c = color.get(id(o), WHITE)
            if c == GREY:
                return True
            if c == BLACK:
                continue
            color[id(o)] = GREY
            stack.append((o, True))
            for v in o.args.values():
                kids = [v] if isinstance(v, Expr) else ([x for x in v if isinstance(x, Expr)] if type(v) is list else [])
                for k in kids:
                    if color.get(id(k), WHITE) == GREY:
                        return True
                    if color.get(id(k), WHITE) == WHITE:
                        stack.append((k, False))
        return False

    def is_ancestor_or_self(self, a, n) -> bool:
        """does the subtree below registry node a contain n (following args)?"""
        from sqlglot.expressions.core import Expr
        seen, stack = set(), [self.reg[a]]
        tgt = self.reg[n]
        while stack:
            o = stack.pop()
            if o is tgt:
                return True
            if id(o) in seen:
                continue
            seen.add(id(o))
            for v in o.args.values():
                if isinstance(v, Expr):
                    stack.append(v)
                elif type(v) is list:
                    stack.extend(x for x in v if isinstance(x, Expr))
        return False


# ---- generators --------------------------------------------------------------------------------------------------
_SCALARS = ["x", "X", "y", "1", "2", "", True, False, None, 7]
_KEYS_ONE = ["this", "expression", "alias"]
_KEYS_LIST = ["expressions", "joins"]
_LEAF = ["identifier", "literal", "column"]
_INNER = ["and", "or", "not", "paren", "tuple", "coalesce", "in", "select", "alias", "eq", "add", "neg"]


def _mk(cls, n=None):
    return {"op": "new", "id": n, "cls": cls, "raw": cls in ("identifier", "literal")}


def _set(n, k, v, idx=None, ow=True):
    return {"op": "set", "n": n, "k": k, "v": v, "idx": idx, "ow": ow}


BASE = [
    _mk("and", 0), _mk("column", 1), _mk("identifier", 2), _mk("tuple", 3), _mk("literal", 4), _mk("literal", 5),
    _mk("column", 6), _mk("identifier", 7), _mk("literal", 8), _mk("paren", 9),
    _set(2, "this", {"s": "x"}), _set(2, "quoted", {"s": False}), _set(1, "this", {"n": 2}), _set(0, "this", {"n": 1}),
    _set(7, "this", {"s": "y"}), _set(6, "this", {"n": 7}),
    _set(4, "this", {"s": "1"}), _set(4, "is_string", {"s": False}), _set(5, "this", {"s": "2"}), _set(5, "is_string", {"s": False}),
    _set(8, "this", {"s": "9"}), _set(8, "is_string", {"s": False}),
    _set(3, "expressions", {"l": [{"n": 4}, {"n": 5}, {"n": 6}]}), _set(0, "expression", {"n": 3}),
]
ALPHABET = [
    {"op": "hash", "n": 0}, {"op": "hash", "n": 3}, {"op": "eq", "a": 4, "b": 5}, {"op": "eq", "a": 1, "b": 6},
    _set(2, "this", {"s": "y"}), _set(4, "this", {"s": "2"}),
    _set(3, "expressions", None, 0), _set(3, "expressions", None, 1), _set(3, "expressions", {"n": 8}, 1, True),
    _set(3, "expressions", {"n": 8}, 0, False), _set(3, "expressions", {"l": [{"n": 8}]}, 2), _set(3, "expressions", {"n": 8}, 3),
    {"op": "append", "n": 3, "k": "expressions", "it": {"n": 8}},
    {"op": "replace", "n": 5, "v": {"n": 8}}, {"op": "pop", "n": 5}, {"op": "pop", "n": 6}, {"op": "pop", "n": 1},
    {"op": "replace", "n": 1, "v": {"n": 9}}, _set(0, "expression", None), _set(9, "this", {"n": 8}),
    {"op": "copy", "n": 3}, _set(0, "this", {"n": 8}),
    {"op": "setneg", "n": 3, "k": "expressions", "back": 1},
    {"op": "transform", "n": 0, "fun": "wrap"}, {"op": "transform", "n": 3, "fun": "dup"}, {"op": "transform", "n": 0, "fun": "lit"},
    {"op": "transform", "n": 0, "fun": "drop"}, {"op": "transform", "n": 9, "fun": "mut"},
    {"op": "rc", "n": 3, "fun": "wrap"}, {"op": "rc", "n": 0, "fun": "lit"}, {"op": "rc", "n": 3, "fun": "dup"},
    {"op": "transform", "n": 0, "fun": "wrap", "copy": True}, {"op": "transform", "n": 3, "fun": "dup", "copy": True},
    {"op": "repair", "n": 3}, {"op": "repair", "n": 0},
    {"op": "root", "n": 7}, {"op": "depth", "n": 7}, {"op": "find_ancestor", "n": 7, "cls": "tuple"},
    {"op": "walk", "n": 0, "bfs": False, "prune": "column"}, {"op": "walk", "n": 0, "bfs": True, "prune": "none"},
    {"op": "find_all", "n": 0, "bfs": True, "cls": "literal"}, {"op": "unnest", "n": 9},
]
FUNS = ["id", "lit", "wrap", "drop", "dup", "mut"]


def _opkey(op):
    k = op["op"]
    if k == "set":
        v = op["v"]
        vk = "None" if v is None else ("node" if "n" in v else "list" if "l" in v else "scalar")
        return f"set({vk}{',idx' if op['idx'] is not None else ''}{',ins' if not op['ow'] else ''})"
    if k == "replace":
        v = op["v"]
        return "replace(" + ("None" if v is None else ("node" if "n" in v else "list" if "l" in v else "scalar")) + ")"
    return k


def random_history(rng, max_len, wild=0.08):
    """generate ops while executing them on a RealHeap (the next op is chosen from the current real state)"""
    from sqlglot.expressions.core import Expr
    real = RealHeap()
    ops = []

    def emit(op):
        # a caller-made cycle (possible through a stale parent pointer) makes hash()/copy() loop forever in Python:
        # never execute a traversal over one
        if op["op"] in ("hash", "copy", "walk", "find_all", "unnest") and real.has_cycle_from(op["n"]):
            return "ok"
        if op["op"] in ("root", "depth", "find_ancestor") and not real.parent_chain_ok(op["n"]):
            return "ok"
        if op["op"] == "eq" and (real.has_cycle_from(op["a"]) or real.has_cycle_from(op["b"])):
            return "ok"
        r = real.apply(op)
        ops.append(op)
        return r

    def fresh_leaf():
        c = rng.choice(_LEAF)
        n = len(real.reg)
        emit(_mk(c, n))
        if c == "column":
            m = len(real.reg)
            emit(_mk("identifier", m))
            emit(_set(m, "this", {"s": rng.choice(["x", "X", "y"])}))
            emit(_set(n, "this", {"n": m}))
        elif c == "identifier":
            emit(_set(n, "this", {"s": rng.choice(["x", "X", "y"])}))
            if rng.random() < 0.5:
                emit(_set(n, "quoted", {"s": rng.random() < 0.5}))
        else:
            emit(_set(n, "this", {"s": rng.choice(["1", "2", "a", "A"])}))
            emit(_set(n, "is_string", {"s": rng.random() < 0.5}))
        return n

    def candidates(target, n_wanted=1, allow_wild=True):
        """ids of nodes that may be inserted under `target`: unstored and not an ancestor of target"""
        st = real.stored_ids()
        out = []
        for i, o in enumerate(real.reg):
            if real.is_ancestor_or_self(i, target):
                continue
            if id(o) in st:
                # "wild" (inadmissible) insertion of a still-attached node: the model mirrors the code regardless of the
                # API precondition; restricted to childless nodes in small heaps so that shared structure stays small
                leafy = not any(isinstance(v, Expr) or type(v) is list for v in o.args.values())
                if not (allow_wild and leafy and len(real.reg) < 24 and rng.random() < wild):
                    continue
            out.append(i)
        return out

    def pick_node_value(target):
        c = candidates(target)
        if c and rng.random() < 0.6:
            return rng.choice(c)
        return fresh_leaf()

    def pick_items(target, maxn=3):
        items, used = [], set()
        for _ in range(rng.randint(0, maxn)):
            if rng.random() < 0.25:
                items.append({"s": rng.choice(["x", None, False, "Y"])})
            else:
                n = pick_node_value(target)
                if n not in used:
                    used.add(n)
                    items.append({"n": n})
        return items

    # a start tree
    for _ in range(rng.randint(1, 3)):
        fresh_leaf()
    steps = rng.randint(3, max_len)
    while len(ops) < steps * 3 and steps > 0:
        steps -= 1
        nreg = len(real.reg)
        r = rng.random()
        tgt = rng.randrange(nreg)
        o = real.reg[tgt]
        if r < 0.10 or nreg < 3:
            n = len(real.reg)
            emit(_mk(rng.choice(_INNER), n))
            # give it some children straight away
            for _ in range(rng.randint(0, 2)):
                if rng.random() < 0.5:
                    emit(_set(n, rng.choice(_KEYS_ONE), {"n": pick_node_value(n)}))
                else:
                    emit(_set(n, rng.choice(_KEYS_LIST), {"l": pick_items(n)}))
            res = "ok"
        elif r < 0.30:
            k = rng.choice(_KEYS_ONE + _KEYS_LIST + list(o.args.keys()))
            vr = rng.random()
            if vr < 0.15:
                v = None
            elif vr < 0.35:
                sc = rng.choice(_SCALARS)
                v = None if sc is None else {"s": sc}
            elif vr < 0.75:
                v = {"n": pick_node_value(tgt)}
            else:
                v = {"l": pick_items(tgt)}
            res = emit(_set(tgt, k, v))
        elif r < 0.48:
            lists = [(i, k) for i, x in enumerate(real.reg) for k, v in x.args.items() if type(v) is list]
            if not lists:
                continue
            tgt, k = rng.choice(lists)
            L = real.reg[tgt].args[k]
            # following scalar items make `v.index - 1` crash; keep most lists crash-free but not all
            idx = rng.randint(0, len(L) + (1 if rng.random() < 0.3 else 0))
            if idx > len(L):
                idx = len(L)
            if rng.random() < 0.12:
                # set(k, None, index=-back): only where every renumbered element keeps a non-negative index (the model's
                # index field is a Nat), or out of range
                back = rng.choice([b for b in range(1, len(L) - 1)] + [len(L) + 1])
                emit({"op": "setneg", "n": tgt, "k": k, "back": back})
                break  # terminal: see the exhaustive part
            vr = rng.random()
            if vr < 0.3:
                v = None
            elif vr < 0.7:
                v = {"n": pick_node_value(tgt)}
            elif vr < 0.8:
                v = {"s": rng.choice(["x", True])}
            else:
                v = {"l": pick_items(tgt)}
            res = emit(_set(tgt, k, v, idx, rng.random() < 0.6))
        elif r < 0.58:
            k = rng.choice(_KEYS_LIST + [kk for kk, vv in o.args.items()])
            it = {"s": rng.choice(["x", None, 3])} if rng.random() < 0.2 else {"n": pick_node_value(tgt)}
            res = emit({"op": "append", "n": tgt, "k": k, "it": it})
        elif r < 0.70:
            vr = rng.random()
            # the value lands under tgt's PARENT POINTER (possibly stale): keep that node's ancestors out too
            anchor = real.ids.get(id(o.parent), tgt) if o.parent is not None else tgt
            if vr < 0.2:
                v = None
            elif vr < 0.8:
                v = {"n": pick_node_value(anchor)}
                # never replace by the parent's ancestor chain (cycle) — pick_node_value already excludes ancestors of tgt;
                # the value goes under tgt's PARENT, whose ancestors are tgt's ancestors too
            elif vr < 0.9:
                v = {"l": pick_items(anchor)}
            else:
                v = {"s": "x"}
            # (`replace(list)` on a node in a scalar slot replaces the PARENT recursively: mirrored by `opReplaceRec`)
            res = emit({"op": "replace", "n": tgt, "v": v})
        elif r < 0.74:
            res = emit({"op": "pop", "n": tgt})
        elif r < 0.80:
            if real.has_cycle_from(tgt) or nreg > 60:
                continue
            rr = rng.random()
            if rr < 0.45:
                res = emit({"op": "transform", "n": tgt, "fun": rng.choice(FUNS), "copy": rng.random() < 0.5})
            elif rr < 0.8:
                res = emit({"op": "rc", "n": tgt, "fun": rng.choice(FUNS)})
            else:
                res = emit({"op": "repair", "n": tgt})
        elif r < 0.86:
            kc = rng.choice(["paren", "column", "tuple", "and", "literal", "in", "select"])
            q = rng.choice([{"op": "root", "n": tgt}, {"op": "depth", "n": tgt}, {"op": "find_ancestor", "n": tgt, "cls": kc},
                            {"op": "unnest", "n": tgt}, {"op": "walk", "n": tgt, "bfs": rng.random() < 0.5, "prune": rng.choice([kc, "none"])},
                            {"op": "find_all", "n": tgt, "bfs": rng.random() < 0.5, "cls": kc}])
            res = emit(q)
        elif r < 0.93:
            res = emit({"op": "hash", "n": tgt})
        elif r < 0.96:
            res = emit({"op": "eq", "a": tgt, "b": rng.randrange(nreg)})
        else:
            if nreg < 40:
                res = emit({"op": "copy", "n": tgt})
            else:
                res = "ok"
        if res == "fail":
            break
    return ops


def _unrep(out: str) -> bool:
    """does the real state hold a NEGATIVE `index` somewhere? (only after caller misuse such as storing one node twice in a
    list and then removing before it; the model's index field is a natural number, so such a state is outside it)"""
    body = out.split("|", 1)[1] if "|" in out else ""
    for cell in body.split(" "):
        f = cell.split(":", 6)
        if len(f) > 4 and len(f[4]) > 1 and f[4][0] == "-":
            return True
    return False


def _run_real(ops):
    real = RealHeap()
    outs = []
    for op in ops:
        r = real.apply(op)
        outs.append(r + "|" + ("" if r == "fail" else real.dump()))
        if r == "fail":
            break
    return outs


def correspond(chk) -> list:
    """returns the list of disagreeing histories (as hint replays for the search)"""
    rng = chk.rng
    lines, expect, where, hists = [], [], [], []

    def add_history(ops):
        hi = len(hists)
        hists.append(ops)
        lines.append('{"op":"reset"}')
        expect.append("ok|")
        where.append((hi, -1))
        outs = _run_real(ops)
        cut = next((i for i, o in enumerate(outs) if _unrep(o)), None)
        if cut is not None:
            chk.count("corr-skip:negative-index-state")
            ops, outs = ops[:cut], outs[:cut]
            hists[hi] = ops
        for oi, (op, out) in enumerate(zip(ops, outs)):
            lines.append(_json.dumps(op))
            expect.append(out)
            where.append((hi, oi))
            chk.count("corr-op:" + _opkey(op))
            chk.count("corr-res:" + out.split("|")[0].split(" ")[0])
        chk.case(("corr", ops), nontrivial=len(ops) > 3, sample={"ops": ops[:8]} if hi % 701 == 0 else None)

    # (1) exhaustive: every sequence over ALPHABET up to length L from the base tree; prefixes are shared through
    #     save/restore slots on the model side and replayed on the real side
    L = chk.pick(2, 3)
    alpha = ALPHABET
    base_out = _run_real(BASE)
    lines.append('{"op":"reset"}'); expect.append("ok|"); where.append((-1, -1))
    for op, out in zip(BASE, base_out):
        lines.append(_json.dumps(op)); expect.append(out); where.append((-1, -1))
    lines.append('{"op":"save","slot":0}'); expect.append("ok|"); where.append((-1, -1))
    n_exh = 0

    def rec(prefix, depth):
        nonlocal n_exh
        for op in alpha:
            seq = prefix + [op]
            if op["op"] == "setneg":
                # the model's index field is a Nat: keep to calls after which every renumbered element has index >= 0
                rh = RealHeap()
                for o in BASE + prefix:
                    rh.apply(o)
                cur = rh.reg[op["n"]].args.get(op["k"])
                n_cur = len(cur) if type(cur) is list else 0
                if not (op["back"] <= n_cur - 2 or op["back"] > n_cur):
                    continue
            outs = _run_real(BASE + seq)
            if len(outs) < len(BASE) + len(seq):
                continue  # an earlier op of the prefix failed (already compared there)
            if _unrep(outs[-1]):
                chk.count("corr-skip:negative-index-state")
                continue
            hi = len(hists)
            hists.append(BASE + seq)
            lines.append(_json.dumps({"op": "restore", "slot": depth})); expect.append("ok|"); where.append((hi, -1))
            lines.append(_json.dumps(op)); expect.append(outs[-1]); where.append((hi, len(BASE) + len(seq) - 1))
            n_exh += 1
            chk.count("corr-op:" + _opkey(op))
            if outs[-1].startswith("fail"):
                chk.count("corr-res:fail")
                continue
            if op["op"] == "setneg":
                continue  # on the unrepaired code the heap is now inconsistent (indexes may go negative next): terminal
            if op["op"] in ("root", "depth", "find_ancestor", "unnest", "walk", "find_all"):
                continue  # read-only queries are compared after every prefix, but never extend one
            if depth + 1 < L:
                lines.append(_json.dumps({"op": "save", "slot": depth + 1})); expect.append("ok|"); where.append((hi, -1))
                rec(seq, depth + 1)

    rec([], 0)
    chk.cov["exhaustive"] = {"alphabet": len(alpha), "max_len": L, "sequences": n_exh, "base_nodes": 10}
    chk.corr_cases += n_exh
    # (2) random histories
    n_random = chk.pick(400, 2000)
    max_len = chk.pick(30, 45)
    for _ in range(n_random):
        add_history(random_history(rng, max_len))
    chk.corr_cases += n_random
    got = chk.driver("C08", lines)
    bad, seen = [], set()
    for g, e, (hi, oi) in zip(got, expect, where):
        if g != e and hi not in seen:
            seen.add(hi)
            ops = hists[hi] if hi >= 0 else BASE
            chk.correspondence_broken("Expression op history", {"ops": ops[: oi + 1] if oi >= 0 else ops,
                                                               "model": g[:400], "impl": e[:400]})
            bad.append({"ops": ops})
    return bad


def hint_oracle(chk, ops) -> None:
    """run a model-protocol history on the real code under the property's own oracle (used for histories on which model
    and implementation disagreed): as long as every inserted node was unattached (the API precondition), every
    unattached node must be the root of a tree satisfying `inv_violations`."""
    real = RealHeap()
    done = []
    for op in ops:
        vals = []
        v = op.get("v") if op["op"] in ("set", "replace") else None
        if v and "n" in v:
            vals = [v["n"]]
        elif v and "l" in v:
            vals = [x["n"] for x in v["l"] if "n" in x]
        if op["op"] == "append" and "n" in op["it"]:
            vals = [op["it"]["n"]]
        st = real.stored_ids()
        if any(id(real.reg[x]) in st for x in vals) or len(set(vals)) != len(vals):
            return  # caller misuse from here on: not the property's business
        if real.apply(op) == "fail":
            return
        done.append(op)
        st = real.stored_ids()
        for o in real.reg:
            if id(o) not in st:
                vs = inv_violations(o)
                if vs:
                    cls, what = first_violation(vs)
                    chk.report_violation("model-hist:" + ";".join(_opkey(x) for x in done if x["op"] != "new")[-200:] + "|" + cls,
                                         what, {"kind": "model-history", "ops": done})
                    return


# ------------------------------------------------------------------------------------------ run / replay
def run(chk: Check) -> None:
    chk.trusted.append("C08: hand-written model Model/Tree.lean of Expression.{__init__ (as cls()+set), _set_parent, set, append, "
                       "replace, pop, __hash__, __eq__, __deepcopy__ (the iterative loop), transform + dfs, replace_children} and of "
                       "the simplifier's repair loop; tied by exact per-cell dump correspondence and by statement-level shape "
                       "checks (ast) of the mirrored loops")
    chk.assumptions += [
        "API precondition of the theorems (Adm): a node passed to set/append/replace is not currently stored anywhere (fresh, copied or "
        "popped), a node being replaced/popped is attached where its own pointers say, a copy goes into unused cells; for transform / "
        "replace_children the user function keeps the invariant and hands back the node itself or unattached nodes (stated along the run)",
        "A-hash: Python's hash is abstracted by uninterpreted mixing functions; `==` is equality of the explicit normal forms only up "
        "to hash collisions (CollisionFree)",
        "theorems are partial-correctness statements (an operation that raises or does not terminate returns no heap)",
        "comments / _type / _meta, builders, optimizer rules and the replace-by-own-descendant idiom are NOT in the Lean model: they are "
        "covered by the invariant checker on the real code (search stage) only",
    ]
    chk.write_generated(translate(chk))
    proved = chk.prove(MODULES, "Properties.C08", THEOREMS)
    hints: list = []
    bad = []
    try:
        bad = correspond(chk)
    except HarnessError as e:
        if proved:
            raise
        chk.note(f"model driver unavailable ({e}); continuing with the search on the real code")
    for b in bad[:20]:
        hint_oracle(chk, b["ops"])
    budget = chk.pick(25, 300)
    if chk.broken:
        budget *= 2
    search(chk, hints, budget)


def replay(path: str) -> int:
    rec = json.load(open(path))
    r = rec.get("replay")
    if not r:
        print(json.dumps(rec, indent=1))
        return 1
    if r.get("kind") == "model-history":
        chk = Check("C08", "quick", 0)
        hint_oracle(chk, r["ops"])
        print("replay:", "VIOLATES: " + chk.violations[0]["what"] if chk.violations else "holds")
        return 1 if chk.violations else 0
    if "ops" in r:
        res = run_history(r["start"], r["ops"])
        if res:
            print(f"replay: VIOLATES [{history_key(res['sigs'], res['cls'])}] after op #{res['at']}: {res['what']}")
            return 1
        print("replay: holds")
        return 0
    if r.get("kind") == "class":
        v = class_case(r["cls"], r["variant"])
        print("replay:", f"VIOLATES: {r['cls']}({r['variant']}) {v[0]}: {v[1]}: {v[2]}" if v else "holds")
        return 1 if v else 0
    if r.get("kind") == "rare":
        v = None
        for t in sqlglot.parse(r["sql"], dialect=r.get("dialect")):
            v = v or (tree_check(t) or edit_probe(t))
        print("replay:", f"VIOLATES: parse({r['sql']!r}, dialect={r.get('dialect')!r}): {v[0]}: {v[1]}" if v else "holds")
        return 1 if v else 0
    if r.get("kind") == "parse":
        t = parse_quiet(r["sql"], r.get("dialect"))
        v = t is not None and tree_check(t)
        print("replay:", f"VIOLATES: parse_one({r['sql']!r}, dialect={r.get('dialect')!r}): {v[0]}: {v[1]}" if v else "holds")
        return 1 if v else 0
    if r.get("kind") == "rules":
        schema = SCHEMA if r.get("schema") == "int" else SCHEMA_MIXED
        try:
            v = run_rules(r["sql"], schema, r["mode"], r.get("pre_hash", []), only=r.get("rule") if r["mode"] == "isolated" else None)
        except Exception as e:  # noqa: BLE001
            print(f"replay: rule pipeline raised {type(e).__name__}: {e}")
            return 0
        print("replay:", f"VIOLATES: after rule {v[0]} on {r['sql']!r}: {v[1]}: {v[2]}" if v else "holds")
        return 1 if v else 0
    print(json.dumps(rec, indent=1))
    return 1
