"""C03 — The optimizer never changes what a query returns (DESIGN.md §4 C03).

translate : RULES order; the guard atoms of pushdown_predicates (nodes_for_predicate conjunction, FULL / RIGHT / sided-join
            rules, ON-loop skips), merge_subqueries._mergeable (rejecting disjuncts, UNMERGABLE_ARGS),
            eliminate_joins._should_eliminate_join, optimize_joins._is_reorderable — by `ast` pattern matching
            (unrecognised shape => "structure changed") -> Generated/C03.lean
prove     : Properties/C03.lean (guard => bag equality for all tables; necessity witnesses; guards-present table facts)
correspond: generated query shapes covering every guard atom in both polarities -> SQL -> qualify -> the real rule ->
            abstracted back (where did the marked predicate go / was the derived table merged / was the join dropped)
            vs the model's decision (Driver/C03.lean)
search    : original vs optimized SQL executed on DuckDB over generated DBs with NULLs, duplicates, empty tables:
            full optimize(), each rule alone after qualify, pipeline prefixes; output names + row multisets
            (sequences under a total ORDER BY).  Necessity witnesses as concrete SQL + data first.
"""

from __future__ import annotations

import ast
import itertools
import json
import os
import re
import time

from vf.core import Check, REPO, HarnessError

MODULES = ["Sem.Bag", "Proofs.Bag", "Model.Opt", "Generated.C03", "Properties.C03"]
P = "SqlglotModel.Properties.C03."
THEOREMS = [P + n for n in [
    "push_filter_inner_join", "push_where_into_inner_join_on", "push_on_into_joined_source_inner",
    "push_on_into_joined_source_left", "push_filter_left_join_preserved_side", "push_filter_right_join_own_source",
    "push_into_left_join_null_side_unsound", "push_below_full_join_unsound", "push_into_from_source_under_right_join_unsound",
    "push_below_second_right_join_unsound", "last_right_join_only",
    "push_filter_into_derived", "push_guard_sound", "push_guards_present",
    "push_filter_into_derived_needs_no_limit", "push_filter_into_derived_needs_no_offset",
    "push_filter_into_derived_needs_no_window", "push_filter_into_derived_needs_single_ref",
    "push_filter_into_derived_needs_no_group",
    "merge_derived_table", "merge_derived_table_inner_join", "merge_guard_sound", "merge_guards_present",
    "merge_needs_no_distinct", "merge_needs_no_limit", "merge_inner_where_under_left_join_unsound",
    "merge_constant_projection_under_outer_join_unsound",
    "unnest_in_subquery", "unnest_exists_subquery", "in_subquery_as_join_needs_distinct", "not_in_with_null_not_antijoin",
    "pushdown_dnf_common_predicate", "dnf_implies_disjunction_of_common", "pushdown_dnf_single_branch_unsound",
    "pushdown_projections_preserves", "pushdown_projections_needs_no_distinct", "projection_guards_present",
    "append_cte_keeps_scoping", "eliminate_subqueries_forward_reference_witness",
    "window_commutes_with_filter_on_partition_key", "filter_below_other_window_unsound", "window_blocks_unconditionally",
    "setop_prune_by_position_preserves", "setop_prune_by_name_counterexample", "setop_right_operand_by_ordinal",
    "conj3_eq_of_same_values", "uniq_sort_sound_of_key_injective", "uniq_sort_key_collision_witness", "gen_handlers_cover_all_args",
    "rename_with_fresh_cache_renames_all", "rename_all_leaves_no_old", "rename_with_stale_cache_witness",
    "merge_cache_clears_present",
    "decorrelate_scalar_aggregate", "decorrelate_constant_zero_fallback_unsound", "decorrelate_null_of_existing_group_unsound",
    "eliminate_left_join_on_unique_key", "unique_key_gives_at_most_one_match", "eliminate_left_join_needs_unique",
    "eliminate_inner_join_unsound", "eliminate_cross_join_single_row", "eliminate_cross_join_at_most_one_row_unsound",
    "single_row_guard_sound", "limit1_still_accepted", "eliminate_cross_join_grouped_aggregates_unsound",
    "eliminate_cross_join_empty_source_unsound",
    "eliminate_guards_present", "inner_join_reorder", "left_join_reorder_unsound", "reorder_guard_present",
    "prefix_preserves", "rules_table",
]]

SCHEMA = {"x": {"a": "INT", "b": "INT"}, "y": {"a": "INT", "b": "INT"}, "z": {"a": "INT", "b": "INT"}}
OPT = os.path.join(REPO, "sqlglot", "optimizer")


def sg():
    import sqlglot
    from sqlglot import exp

    return sqlglot, exp


# ------------------------------------------------------------------------------------------ translate
def _fn(tree, name):
    for n in ast.walk(tree):
        if isinstance(n, ast.FunctionDef) and n.name == name:
            return n
    return None


def _conj(test, op):
    return [ast.unparse(v) for v in test.values] if isinstance(test, ast.BoolOp) and isinstance(test.op, op) else [ast.unparse(test)]


PUSH_ATOMS = {
    "not node.args.get('group')": ".noGroup",
    "scope_ref_count[id(source)] < 2": ".refCountLt2",
    "not has_window_expression": ".noWindow",
    "not node.args.get('limit')": ".noLimit",
    "not node.args.get('offset')": ".noOffset",
    "not node.args.get('qualify')": ".noQualify",
}
MERGE_ATOMS = [
    (r"not isinstance\(outer, exp\.Select\)", ".outerNotSelect"),
    (r"outer\.is_star", ".outerIsStar"),
    (r"not isinstance\(inner_select, exp\.Select\)", ".innerNotSelect"),
    (r"any\(\(v for k, v in inner_select\.args\.items\(\) if k in UNMERGABLE_ARGS\)\)", ".innerUnmergeableArg"),
    (r"inner_select\.args\.get\('from_'\) is None", ".innerNoFrom"),
    (r"outer_scope\.pivots", ".outerPivots"),
    (r"leave_tables_isolated and len\(outer_scope\.selected_sources\) > 1", ".isolatedMultiSource"),
    (r"isinstance\(from_or_join, exp\.Join\) and inner_select\.args\.get\('joins'\)", ".joinWithInnerJoins"),
    (r"isinstance\(from_or_join, exp\.Join\) and inner_select\.args\.get\('where'\) and \(?from_or_join\.side in (\([^)]*\))\)?", ".sidedJoinInnerWhere"),
    (r"isinstance\(from_or_join, exp\.From\) and inner_select\.args\.get\('where'\) and any\(\(j\.side in (\([^)]*\)) for j in outer_args\.get\('joins', \[\]\)\)\)", ".fromInnerWhereOuterFullRight"),
    (r"inner_select\.args\.get\('order'\) and outer_scope\.is_union", ".innerOrderOuterUnion"),
    (r"isinstance\(seq_get\(inner_select\.expressions, 0\), exp\.QueryTransform\)", ".queryTransform"),
]
MERGE_FINAL = {
    "not _outer_select_joins_on_inner_select_join(projections)": ".joinOnNonFirstInnerTable",
    "not _window_projection_blocks_merge(window_aliases)": ".windowBlocks",
    "not _literal_group_unmergeable(number_literal_aliases)": ".literalGroup",
    "not _literal_in_order_by(number_literal_aliases)": ".literalOrder",
    "not (inner_scope.is_cte and _is_recursive())": ".recursiveCte",
}
ELIM_ATOMS = {
    "isinstance(inner_source, Scope)": ".isScope",
    "not _join_is_used(scope, join, alias)": ".notUsed",
    "join.side == 'LEFT'": ".sideLeft",
    "_is_joined_on_all_unique_outputs(inner_source, join)": ".joinedOnAllUnique",
    "not join.args.get('on')": ".noOn",
    "_has_single_output_row(inner_source)": ".singleRow",
}
SIDE = {"LEFT": ".left", "RIGHT": ".right", "FULL": ".full"}


def translate(chk: Check) -> str:
    def changed(what):
        chk.broken.append({"kind": "translator", "what": "C03 translator: structure changed: " + what})

    def src(name):
        return ast.parse(open(os.path.join(OPT, name), encoding="utf-8").read())

    def sides(tup):
        try:
            return [SIDE[s] for s in ast.literal_eval(tup)]
        except Exception:  # noqa
            changed(f"side tuple {tup}")
            return []

    # RULES
    rules = []
    for n in src("optimizer.py").body:
        tgt = n.target if isinstance(n, ast.AnnAssign) else (n.targets[0] if isinstance(n, ast.Assign) else None)
        if isinstance(tgt, ast.Name) and tgt.id == "RULES" and isinstance(n.value, ast.Tuple):
            rules = [ast.unparse(e) for e in n.value.elts]
    if not rules:
        changed("RULES tuple not found in optimizer.py")

    # pushdown_predicates
    pp = src("pushdown_predicates.py")
    nfp = _fn(pp, "nodes_for_predicate")
    push_atoms = []
    found = False
    if nfp is not None:
        for n in ast.walk(nfp):
            if isinstance(n, ast.If) and len(n.body) == 1 and ast.unparse(n.body[0]) == "nodes[table] = node" and "isinstance(node" not in ast.unparse(n.test) and "node.side" not in ast.unparse(n.test):
                found = True
                for c in _conj(n.test, ast.And):
                    if c in PUSH_ATOMS:
                        push_atoms.append(PUSH_ATOMS[c])
                    else:
                        changed(f"unknown conjunct in nodes_for_predicate guard: {c}")
    if not found:
        changed("SELECT-node guard of nodes_for_predicate not found")
    nfp_txt = ast.unparse(nfp) if nfp is not None else ""
    window_uncond = "has_window_expression = any((select for select in node.selects if find_in_scope(select, exp.Window)))\n" in nfp_txt + "\n"
    sided_blocks = bool(re.search(r"if node\.side:\n\s+pushable_source = source if node\.side == 'RIGHT' and \(?not isinstance\(source, exp\.Table\)\)? else None\n\s+if not pushable_source:\n\s+return \{\}", nfp_txt))
    ppf = _fn(pp, "pushdown_predicates")
    ppf_txt = ast.unparse(ppf) if ppf is not None else ""
    full_guard = ("join.side == 'FULL'" in ppf_txt and "join_index.get(k, -1) > last_full_join" in ppf_txt
                  and "if last_full_join >= 0" in ppf_txt)
    # RIGHT-join rule: since b9fa271 `if parent.side == 'RIGHT' and join_index.get(k, -1) == last_right_join:`
    # (the unrepaired variant `if parent.side == 'RIGHT':` is recognised too and reported as lastOnly = false)
    m_new = re.search(r"if parent\.side == 'RIGHT' and join_index\.get\(k, -1\) == last_right_join:\n\s+selected_sources = \{k: \(node, source\)\}\n\s+break", ppf_txt)
    m_old = re.search(r"if parent\.side == 'RIGHT':\n\s+selected_sources = \{k: \(node, source\)\}\n\s+break", ppf_txt)
    right_restrict = bool(m_new or m_old)
    right_last_only = bool(m_new) and bool(re.search(r"last_right_join = max\(\(i for i, join in enumerate\(joins\) if join\.side == 'RIGHT'\), default=-1\)", ppf_txt))
    if ppf is not None and "parent.side" in ppf_txt and not right_restrict:
        changed("RIGHT-join candidate restriction has an unrecognised shape")
    m = re.search(r"if join\.side in (\([^)]*\)):\n\s+continue", ppf_txt)
    on_skips = sides(m.group(1)) if m else []
    if ppf is None:
        changed("pushdown_predicates not found")

    # merge_subqueries._mergeable
    ms = src("merge_subqueries.py")
    mg = _fn(ms, "_mergeable")
    rejects, sj_sides, fr_sides = [], [], []
    if mg is None:
        changed("_mergeable not found")
    else:
        first_if = next((n for n in mg.body if isinstance(n, ast.If) and len(n.body) == 1 and ast.unparse(n.body[0]) == "return False"), None)
        if first_if is None:
            changed("_mergeable: rejecting `if` not found")
        else:
            for d in _conj(first_if.test, ast.Or):
                for pat, atom in MERGE_ATOMS:
                    mm = re.fullmatch(pat, d)
                    if mm:
                        rejects.append(atom)
                        if atom == ".sidedJoinInnerWhere":
                            sj_sides = sides(mm.group(1))
                        if atom == ".fromInnerWhereOuterFullRight":
                            fr_sides = sides(mm.group(1))
                        break
                else:
                    changed(f"unknown disjunct in _mergeable: {d}")
        loop_txt = ast.unparse(mg)
        if re.search(r"for node in s\.walk\(\):\n\s+if isinstance\(node, \(exp\.AggFunc, exp\.Select, exp\.Explode\)\):\n\s+return False", loop_txt):
            rejects.append(".projAggSubqueryExplode")
        last = mg.body[-1]
        if isinstance(last, ast.Return):
            for c in _conj(last.value, ast.And):
                if c in MERGE_FINAL:
                    rejects.append(MERGE_FINAL[c])
                else:
                    changed(f"unknown conjunct in _mergeable's return: {c}")
        else:
            changed("_mergeable: final return not found")
    from sqlglot.optimizer.merge_subqueries import UNMERGABLE_ARGS

    # eliminate_joins._should_eliminate_join
    ej = _fn(src("eliminate_joins.py"), "_should_eliminate_join")
    top, bra, brb = [], [], []
    ok = False
    if ej is not None and isinstance(ej.body[-1], ast.Return) and isinstance(ej.body[-1].value, ast.BoolOp) and isinstance(ej.body[-1].value.op, ast.And):
        vals = ej.body[-1].value.values
        ok = True
        for v in vals:
            if isinstance(v, ast.BoolOp) and isinstance(v.op, ast.Or) and len(v.values) == 2:
                for tgt, br in ((bra, v.values[0]), (brb, v.values[1])):
                    for c in _conj(br, ast.And):
                        if c in ELIM_ATOMS:
                            tgt.append(ELIM_ATOMS[c])
                        else:
                            ok = False
            else:
                c = ast.unparse(v)
                if c in ELIM_ATOMS:
                    top.append(ELIM_ATOMS[c])
                else:
                    ok = False
    if not ok:
        changed("_should_eliminate_join: unrecognised return expression")
    hs = _fn(src("eliminate_joins.py"), "_has_single_output_row")
    hs_txt = "\n".join(ast.unparse(st) for st in hs.body if not (isinstance(st, ast.Expr) and isinstance(st.value, ast.Constant))) if hs is not None else ""
    HS_NEW_HEAD = ("expression = scope.expression\n"
                   "if not isinstance(expression, exp.Select):\n    return False\n"
                   "if _is_limit_1(scope):\n    return True\n")
    HS_OLD = ("return isinstance(scope.expression, exp.Select) and (all((isinstance(e.unalias(), exp.AggFunc) for e in "
              "scope.expression.selects)) or _is_limit_1(scope) or (not scope.expression.args.get('from_')))")
    single_row = []
    if hs_txt == HS_OLD:
        single_row = []  # unrepaired variant: allAgg or limit1 or noFrom
    elif hs_txt.startswith(HS_NEW_HEAD):
        stmts = [st for st in hs.body if not (isinstance(st, ast.Expr) and isinstance(st.value, ast.Constant))][3:]
        ok_hs = True
        if stmts and isinstance(stmts[0], ast.If) and ast.unparse(stmts[0].body[0]) == "return False" and len(stmts) == 3:
            for d in _conj(stmts[0].test, ast.Or):
                if d == "expression.args.get('having')":
                    single_row.append(".noHaving")
                elif d == "expression.args.get('where') and (not expression.args.get('from_'))":
                    single_row.append(".noFromlessWhere")
                else:
                    changed(f"_has_single_output_row: unknown rejecting disjunct: {d}")
            stmts = stmts[1:]
        if len(stmts) == 2 and ast.unparse(stmts[0]) == "if not expression.args.get('from_'):\n    return True" and isinstance(stmts[1], ast.Return):
            AGG = "all((isinstance(e.unalias(), exp.AggFunc) for e in expression.selects))"
            r = ast.unparse(stmts[1].value)
            if r == "not expression.args.get('group') and " + AGG:
                single_row.append(".noGroup")
            elif r != AGG:
                ok_hs = False
        else:
            ok_hs = False
        if not ok_hs:
            changed("_has_single_output_row: unrecognised body")
    else:
        changed("_has_single_output_row: unrecognised body")
    chk.cov["has_single_output_row_guards"] = single_row

    # pushdown_projections: when is NO column pruned
    PROJ = {"scope_expression.args.get('distinct')": ".distinct",
            "isinstance(scope_expression, (exp.Intersect, exp.Except))": ".intersectExcept",
            "_is_self_referencing_cte(scope)": ".selfRefCte"}
    proj_atoms = []
    ppj = _fn(src("pushdown_projections.py"), "pushdown_projections")
    found_pj = False
    if ppj is not None:
        for n in ast.walk(ppj):
            if isinstance(n, ast.If) and len(n.body) == 1 and ast.unparse(n.body[0]) == "parent_selections = {SELECT_ALL}":
                found_pj = True
                for c in _conj(n.test, ast.Or):
                    if c in PROJ:
                        proj_atoms.append(PROJ[c])
                    else:
                        changed(f"unknown disjunct in pushdown_projections' keep-all guard: {c}")
    if not found_pj:
        changed("pushdown_projections: keep-all guard not found")
    # the right operand of a set operation gets the parent's referenced columns BY ORDINAL
    by_ordinal = False
    if ppj is not None:
        for n in ast.walk(ppj):
            if isinstance(n, ast.Assign) and ast.unparse(n.targets[0]) == "referenced_columns[right]" and isinstance(n.value, ast.SetComp):
                by_ordinal = ast.unparse(n.value) == "{re.selects[i].alias_or_name for i, select in enumerate(le.selects) if select.alias_or_name in parent_selections}"
        assigns = [ast.unparse(n.value) for n in ast.walk(ppj) if isinstance(n, ast.Assign) and ast.unparse(n.targets[0]) == "referenced_columns[right]"]
        # exactly: the by_name branch (parent_selections as is) and the ordinal comprehension
        if sorted(assigns) != sorted(["parent_selections", "parent_selections", "{re.selects[i].alias_or_name for i, select in enumerate(le.selects) if select.alias_or_name in parent_selections}"]):
            by_ordinal = False

    # merge_subqueries: which cache invalidation follows the in-place merge of a CTE / derived table
    cache_clears = []
    for fname in ("merge_ctes", "merge_derived_tables"):
        fn = _fn(ms, fname)
        got = None
        if fn is not None:
            for n in ast.walk(fn):
                if isinstance(n, ast.If) and any(isinstance(st, ast.Expr) and ast.unparse(st).startswith("_rename_inner_sources(") for st in n.body):
                    calls = [ast.unparse(st) for st in n.body if isinstance(st, ast.Expr) and ast.unparse(st).startswith("outer_scope.clear")]
                    m_ = re.fullmatch(r"outer_scope\.(clear_cache|clear_column_cache)\(\)", calls[-1]) if calls else None
                    got = m_.group(1) if m_ else "none"
        if got is None:
            changed(f"{fname}: merge block not found")
            got = "none"
        cache_clears.append((fname, got))

    # simplify.Gen (the key generator of uniq_sort): which args of its expression class a handler leaves out
    gen_missing = []
    try:
        from sqlglot import exp as _exp

        sim = src("simplify.py")
        gen_cls = next((n for n in sim.body if isinstance(n, ast.ClassDef) and n.name == "Gen"), None)
        bykey = {}
        for nm in dir(_exp):
            c = getattr(_exp, nm)
            if isinstance(c, type) and issubclass(c, _exp.Expr) and getattr(c, "key", None):
                bykey.setdefault(c.key, c)
        PROP = {"parts": ["this", "table", "db", "catalog"], "columns": ["columns"], "quoted": ["quoted"], "is_string": ["is_string"],
                "name": ["this"], "this": ["this"], "expression": ["expression"], "expressions": ["expressions"]}
        if gen_cls is None:
            changed("simplify.Gen not found")
        else:
            for fn in gen_cls.body:
                if isinstance(fn, ast.FunctionDef) and fn.name.endswith("_sql") and not fn.name.startswith("_"):
                    cls = bykey.get(fn.name[:-4])
                    if cls is None:
                        changed(f"simplify.Gen.{fn.name}: no expression class with that key")
                        continue
                    args = list(cls.arg_types)
                    seen = set()
                    for n in ast.walk(fn):
                        if isinstance(n, ast.Attribute) and isinstance(n.value, ast.Name) and n.value.id == "e" and n.attr in PROP:
                            seen.update(PROP[n.attr])
                        if isinstance(n, ast.Call):
                            f_ = ast.unparse(n.func)
                            if f_ == "e.args.get" and n.args and isinstance(n.args[0], ast.Constant):
                                seen.add(n.args[0].value)
                            elif f_ == "self._binary":
                                seen.update(["this", "expression"])
                            elif f_ == "self._unary":
                                seen.add("this")
                            elif f_ == "self._args":
                                k_ = n.args[1].value if len(n.args) > 1 and isinstance(n.args[1], ast.Constant) else 0
                                seen.update(args[k_:])
                    miss = [a for a in args if a not in seen]
                    if miss:
                        gen_missing.append((fn.name[:-4], miss))
    except Exception as e:  # noqa
        changed(f"simplify.Gen coverage table: {e}")
    chk.cov["simplify_gen_missing_args"] = gen_missing

    # optimize_joins._is_reorderable
    ir = _fn(src("optimize_joins.py"), "_is_reorderable")
    ret = ast.unparse(ir.body[-1]) if ir is not None else ""
    if ret == "return not any((join.side for join in joins))":
        reorder = True
    elif ret == "return True":
        reorder = False
    else:
        reorder = False
        changed(f"_is_reorderable: {ret}")

    def b(v):
        return "true" if v else "false"

    def lst(xs):
        return "[" + ", ".join(xs) + "]"

    chk.cov["guard_atoms"] = {"push": push_atoms, "merge_rejects": len(rejects), "elim": [top, bra, brb], "rules": len(rules)}
    L = [
        "-- GENERATED by vf/props/c03.py from sqlglot/optimizer/*.py (ast pattern matching + live values). Do not edit.",
        "import SqlglotModel.Model.Opt",
        "namespace SqlglotModel.Generated.C03",
        "open SqlglotModel.Opt",
        "def rules : List String := " + lst('"%s"' % r for r in rules),
        "def pushAtoms : List PushAtom := " + lst(push_atoms),
        f"def fullJoinGuard : Bool := {b(full_guard)}",
        f"def rightJoinRestrict : Bool := {b(right_restrict)}",
        f"def rightJoinLastOnly : Bool := {b(right_last_only)}",
        f"def sidedJoinBlocks : Bool := {b(sided_blocks)}",
        "def onLoopSkips : List Side := " + lst(on_skips),
        "def mergeRejects : List MergeAtom := " + lst(rejects),
        "def sidedJoinInnerWhereSides : List Side := " + lst(sj_sides),
        "def fromInnerWhereOuterSides : List Side := " + lst(fr_sides),
        "def unmergeableArgs : List String := " + lst('"%s"' % a for a in sorted(UNMERGABLE_ARGS)),
        "def elimTop : List ElimAtom := " + lst(top),
        "def elimBranchA : List ElimAtom := " + lst(bra),
        "def elimBranchB : List ElimAtom := " + lst(brb),
        "def singleRowGuards : List SingleRowAtom := " + lst(single_row),
        f"def reorderRequiresNoSide : Bool := {b(reorder)}",
        "def projKeepAll : List ProjAtom := " + lst(proj_atoms),
        f"def setOpRightByOrdinal : Bool := {b(by_ordinal)}",
        f"def windowBlocksUnconditionally : Bool := {b(window_uncond)}",
        "def mergeCacheClears : List (String × String) := " + lst('("%s", "%s")' % c for c in cache_clears),
        "def genHandlerMissing : List (String × List String) := " + lst('("%s", %s)' % (k_, lst('"%s"' % a for a in m_)) for k_, m_ in gen_missing),
        "end SqlglotModel.Generated.C03",
    ]
    return "\n".join(L) + "\n"


# ------------------------------------------------------------------------------------------ correspondence: pushdown
BLOCKERS = ["group", "window", "limit", "offset", "qualify"]


def shape(**kw):
    s = {k: False for k in BLOCKERS}
    s["ref"] = 1
    s.update(kw)
    return s


def inner_sql(base, sh):
    cols = "a, b"
    if sh.get("window"):
        cols += ", ROW_NUMBER() OVER (ORDER BY a) AS w"
    s = f"SELECT {cols} FROM {base}"
    if sh.get("group"):
        s += " GROUP BY a, b"
    if sh.get("qualify"):
        s += " QUALIFY ROW_NUMBER() OVER (PARTITION BY a ORDER BY b) = 1"
    if sh.get("limit"):
        s += " LIMIT 10"
    if sh.get("offset"):
        s += " OFFSET 1"
    return s


def push_case_sql(case):
    """case: {from: src, joins: [[side, src]], where: [tables], on: (j, [tables]) | None}; src = {name, kind, shape, base}"""
    ctes = []

    def src_sql(s):
        if s["kind"] == "table":
            return f"{s['base']} AS {s['name']}"
        if s["kind"] == "derived":
            return f"({inner_sql(s['base'], s['shape'])}) AS {s['name']}"
        cname = "c_" + s["base"]
        body = f"{cname} AS ({inner_sql(s['base'], s['shape'])})"
        if body not in ctes:
            ctes.append(body)
        return f"{cname} AS {s['name']}"

    sql = "SELECT " + case["from"]["name"] + ".a AS a FROM " + src_sql(case["from"])
    for ji, (side, s) in enumerate(case["joins"]):
        kw = {"": "JOIN", "LEFT": "LEFT JOIN", "RIGHT": "RIGHT JOIN", "FULL": "FULL JOIN", "CROSS": "CROSS JOIN"}[side]
        sql += f" {kw} {src_sql(s)}"
        if side != "CROSS":
            prev = case["from"]["name"] if ji == 0 else case["joins"][ji - 1][1]["name"]
            on = f"{prev}.a = {s['name']}.a"
            if case.get("on") and case["on"][0] == ji:
                on += " AND " + marker_pred(case["on"][1], 202)
            sql += " ON " + on
    if case.get("where"):
        sql += " WHERE " + marker_pred(case["where"], 101)
    if ctes:
        sql = "WITH " + ", ".join(ctes) + " " + sql
    return sql


def marker_pred(tables, lit):
    if len(tables) == 1:
        return f"{tables[0]}.b > {lit}"
    return f"{tables[0]}.b + {tables[1]}.b > {lit}"


def model_src(s):
    d = {"name": s["name"], "kind": s["kind"]}
    if s["kind"] != "table":
        d["shape"] = s["shape"]
    return d


def observe_push(case):
    """run qualify + pushdown_predicates; report where the literals 101 (WHERE) / 202 (ON) ended up"""
    sqlglot, exp = sg()
    from sqlglot.optimizer.qualify import qualify
    from sqlglot.optimizer.pushdown_predicates import pushdown_predicates

    sql = push_case_sql(case)
    tree = qualify(sqlglot.parse_one(sql, read="duckdb"), schema=SCHEMA, dialect="duckdb")
    tree = pushdown_predicates(tree, dialect="duckdb")
    outer = tree
    res = {}
    for lit in ("101", "202"):
        locs = []
        for l in tree.find_all(exp.Literal):
            if l.this != lit:
                continue
            # nearest enclosing Select
            sel = l.find_ancestor(exp.Select)
            if sel is outer:
                j = l.find_ancestor(exp.Join)
                if j is not None and j.parent is outer:
                    locs.append("on:" + j.alias_or_name)
                else:
                    locs.append("where")
            else:
                par = sel.parent
                if isinstance(par, exp.Subquery):
                    locs.append("select:" + par.alias_or_name)
                elif isinstance(par, exp.CTE):
                    # name the reference(s)
                    names = sorted(s["name"] for s in [case["from"]] + [j[1] for j in case["joins"]] if s["kind"] == "cte" and "c_" + s["base"] == par.alias_or_name)
                    locs.append("select:" + "/".join(names))
                else:
                    locs.append("select:?")
        res[lit] = sorted(locs)
    return res, sql, tree.sql("duckdb")


def push_cases(chk: Check):
    rng = chk.rng
    cases = []

    def src(name, kind, base, **sh):
        return {"name": name, "kind": kind, "base": base, "shape": shape(**sh)}

    # every SELECT-guard atom in both polarities, in each position that can receive a WHERE / ON conjunct
    variants = [{}] + [{b: True} for b in BLOCKERS]
    for v in variants:
        cases.append({"from": src("x", "derived", "x", **v), "joins": [], "where": ["x"]})
        cases.append({"from": src("x", "cte", "x", **v), "joins": [], "where": ["x"]})
        cases.append({"from": src("x", "table", "x"), "joins": [["", src("y", "derived", "y", **v)]], "where": ["y"]})
        cases.append({"from": src("x", "table", "x"), "joins": [["LEFT", src("y", "derived", "y", **v)]], "on": (0, ["y"])})
        cases.append({"from": src("x", "table", "x"), "joins": [["RIGHT", src("y", "derived", "y", **v)]], "where": ["y"]})
    # ref_count: the same CTE referenced twice
    cases.append({"from": src("x", "cte", "x", ref=2), "joins": [["", src("y", "cte", "x", ref=2)]], "where": ["x"]})
    cases.append({"from": src("x", "cte", "x", ref=2), "joins": [["CROSS", src("y", "cte", "x", ref=2)]], "where": ["x"]})
    # side rules: every side × which table the WHERE mentions × kinds
    for side in ["", "LEFT", "RIGHT", "FULL", "CROSS"]:
        for fk in ["table", "derived"]:
            for jk in ["table", "derived"]:
                for wt in (["x"], ["y"], ["x", "y"]):
                    cases.append({"from": src("x", fk, "x"), "joins": [[side, src("y", jk, "y")]], "where": wt})
                if side != "CROSS":
                    for ot in (["x"], ["y"], ["x", "y"]):
                        cases.append({"from": src("x", fk, "x"), "joins": [[side, src("y", jk, "y")]], "on": (0, ot)})
    # several RIGHT joins: only the last one's source may take the predicate (b9fa271); all kind combinations
    for k1 in ["table", "derived"]:
        for k2 in ["table", "derived"]:
            for s1, s2 in (("RIGHT", "RIGHT"), ("RIGHT", ""), ("", "RIGHT"), ("RIGHT", "LEFT"), ("RIGHT", "FULL"), ("FULL", "RIGHT")):
                for wt in (["x"], ["y"], ["z"]):
                    cases.append({"from": src("x", "derived", "x"), "joins": [[s1, src("y", k1, "y")], [s2, src("z", k2, "z")]], "where": wt})
    # two joins: FULL / RIGHT in either position, predicates over each source and pairs
    sides2 = ["", "LEFT", "RIGHT", "FULL", "CROSS"]
    combos = list(itertools.product(sides2, sides2))
    rng.shuffle(combos)
    for s1, s2 in combos[: chk.pick(14, 25)]:
        for wt in (["x"], ["y"], ["z"], ["x", "z"], ["y", "z"]):
            kinds = [rng.choice(["table", "derived"]) for _ in range(3)]
            cases.append({"from": src("x", kinds[0], "x"), "joins": [[s1, src("y", kinds[1], "y")], [s2, src("z", kinds[2], "z")]], "where": wt})
    return cases


def correspond_push(chk: Check):
    cases = push_cases(chk)
    lines, idx = [], []
    for ci, c in enumerate(cases):
        base = {"from": model_src(c["from"]), "joins": [["" if sd == "CROSS" else sd, model_src(s)] for sd, s in c["joins"]]}
        if c.get("where"):
            lines.append(json.dumps({"op": "where", **base, "tables": sorted(c["where"])}))
            idx.append((ci, "where", None))
            # a conjunct that lands in join j's ON is then subject to the ON loop
            for j in range(len(c["joins"])):
                lines.append(json.dumps({"op": "on", **base, "j": j, "tables": sorted(c["where"])}))
                idx.append((ci, "where-on", j))
        if c.get("on"):
            lines.append(json.dumps({"op": "on", **base, "j": c["on"][0], "tables": sorted(c["on"][1])}))
            idx.append((ci, "on", c["on"][0]))
    got = chk.driver("C03", lines)
    model: dict = {}
    for g, (ci, kind, j) in zip(got, idx):
        model.setdefault(ci, {})[(kind, j)] = g
    hints = []
    for ci, c in enumerate(cases):
        obs, sql, out = observe_push(c)
        chk.corr_cases += 1
        m = model.get(ci, {})
        exp_where = exp_on = None
        if c.get("where"):
            w = m[("where", None)]
            if w.startswith("on:"):
                jname = w[3:]
                j = [s["name"] for _, s in c["joins"]].index(jname)
                second = m[("where-on", j)]
                w = second if second != "-" else w
            exp_where = ["where"] if w == "-" else sorted(w.split(" "))
            chk.count("push-where:" + ("stays" if w == "-" else w.split(":")[0]))
            if obs["101"] != exp_where:
                chk.correspondence_broken("pushdown_predicates: destination of a WHERE conjunct", {"sql": sql, "after": out, "model": exp_where, "impl": obs["101"]})
                hints.append(sql)
        if c.get("on"):
            o = m[("on", c["on"][0])]
            jname = c["joins"][c["on"][0]][1]["name"]
            exp_on = ["on:" + jname] if o == "-" else sorted(o.split(" "))
            chk.count("push-on:" + ("stays" if o == "-" else "select"))
            if obs["202"] != exp_on:
                chk.correspondence_broken("pushdown_predicates: destination of an ON conjunct", {"sql": sql, "after": out, "model": exp_on, "impl": obs["202"]})
                hints.append(sql)
        chk.case(("push", sql), nontrivial=True, sample={"sql": sql, "after": out} if ci in (0, 3, 40) else None)
    return hints


# ------------------------------------------------------------------------------------------ correspondence: merge / eliminate / reorder
def merge_cases(chk: Check):
    """(sql, model shape): derived table `y` in FROM or JOIN position of an outer SELECT"""
    out = []
    inner_variants = {
        "plain": ("SELECT a, b FROM y", {}),
        "where": ("SELECT a, b FROM y WHERE b > 1", {"_where": True}),
        "distinct": ("SELECT DISTINCT a, b FROM y", {"innerUnmergeableArg": True}),
        "group": ("SELECT a, b FROM y GROUP BY a, b", {"innerUnmergeableArg": True}),
        "having": ("SELECT a, b FROM y GROUP BY a, b HAVING a > 0", {"innerUnmergeableArg": True}),
        "limit": ("SELECT a, b FROM y LIMIT 3", {"innerUnmergeableArg": True}),
        "offset": ("SELECT a, b FROM y OFFSET 1", {"innerUnmergeableArg": True}),
        "qualify": ("SELECT a, b FROM y QUALIFY ROW_NUMBER() OVER (PARTITION BY a ORDER BY b) = 1", {"innerUnmergeableArg": True}),
        "agg": ("SELECT MAX(a) AS a, MIN(b) AS b FROM y", {"projAggSubqueryExplode": True}),
        "scalar-subquery": ("SELECT a, (SELECT MAX(z.b) FROM z) AS b FROM y", {"projAggSubqueryExplode": True}),
        "window": ("SELECT a, ROW_NUMBER() OVER (ORDER BY a) AS b FROM y", {"_window": True}),
        "joins": ("SELECT y.a AS a, z.b AS b FROM y JOIN z ON y.a = z.a", {"_joins": True}),
        "union": ("SELECT a, b FROM y UNION ALL SELECT a, b FROM z", {"innerNotSelect": True}),
        "nofrom": ("SELECT 1 AS a, 2 AS b", {"innerNoFrom": True}),
        "order": ("SELECT a, b FROM y ORDER BY a", {}),
        "literal": ("SELECT 1 AS a, b FROM y", {"_literal": True}),
    }
    outers = [
        ("from", None, "SELECT y.a AS a FROM ({i}) AS y", {}),
        ("from", None, "SELECT y.a AS a FROM ({i}) AS y WHERE y.b > 0", {"_outer_where": True}),
        ("from", None, "SELECT y.a AS a FROM ({i}) AS y ORDER BY y.a", {"_outer_order_a": True}),
        ("from", "", "SELECT y.a AS a FROM ({i}) AS y JOIN x ON x.a = y.a", {"_outer_joins": True}),
        ("from", "LEFT", "SELECT y.a AS a FROM ({i}) AS y LEFT JOIN x ON x.a = y.a", {"_outer_joins": True}),
        ("from", "RIGHT", "SELECT y.a AS a FROM ({i}) AS y RIGHT JOIN x ON x.a = y.a", {"_outer_joins": True}),
        ("from", "FULL", "SELECT y.a AS a FROM ({i}) AS y FULL JOIN x ON x.a = y.a", {"_outer_joins": True}),
        ("join", "", "SELECT x.a AS a, y.b AS b FROM x JOIN ({i}) AS y ON x.a = y.a", {"_outer_joins": True}),
        ("join", "LEFT", "SELECT x.a AS a, y.b AS b FROM x LEFT JOIN ({i}) AS y ON x.a = y.a", {"_outer_joins": True}),
        ("join", "RIGHT", "SELECT x.a AS a, y.b AS b FROM x RIGHT JOIN ({i}) AS y ON x.a = y.a", {"_outer_joins": True}),
        ("join", "FULL", "SELECT x.a AS a, y.b AS b FROM x FULL JOIN ({i}) AS y ON x.a = y.a", {"_outer_joins": True}),
        ("join", "CROSS", "SELECT x.a AS a, y.b AS b FROM x CROSS JOIN ({i}) AS y", {"_outer_joins": True}),
    ]
    for iname, (isql, ishape) in inner_variants.items():
        for pos, side, tmpl, oshape in outers:
            s = {k: v for k, v in ishape.items() if not k.startswith("_")}
            if ishape.get("_where"):
                if pos == "join" and side in ("LEFT", "RIGHT", "FULL"):
                    s["sidedJoinInnerWhere"] = True
                if pos == "from" and side in ("RIGHT", "FULL"):
                    s["fromInnerWhereOuterFullRight"] = True
            if ishape.get("_joins") and pos == "join":
                s["joinWithInnerJoins"] = True
            if ishape.get("_window") and (oshape.get("_outer_where") or oshape.get("_outer_joins")):
                s["windowBlocks"] = True
            if ishape.get("_window") and oshape.get("_outer_order_a"):
                pass  # the window column is `b`; ordering by y.a does not reference it
            if ishape.get("_literal") and oshape.get("_outer_order_a"):
                s["literalOrder"] = True
            out.append((iname, pos, side, tmpl.format(i=isql), s))
    return out


def correspond_merge(chk: Check):
    sqlglot, exp = sg()
    from sqlglot.optimizer.qualify import qualify
    from sqlglot.optimizer.merge_subqueries import merge_subqueries

    cases = merge_cases(chk)
    lines = [json.dumps({"op": "merge", **s}) for *_, s in cases]
    got = chk.driver("C03", lines)
    hints = []
    for g, (iname, pos, side, sql, s) in zip(got, cases):
        tree = qualify(sqlglot.parse_one(sql, read="duckdb"), schema=SCHEMA, dialect="duckdb")
        tree = merge_subqueries(tree)
        still = any(sq.alias_or_name == "y" for sq in tree.find_all(exp.Subquery))
        impl = "false" if still else "true"
        chk.corr_cases += 1
        chk.count(f"merge:{iname}:{impl}")
        chk.case(("merge", sql), nontrivial=True, sample={"sql": sql, "merged": impl} if iname == "where" and side == "LEFT" else None)
        if g != impl:
            chk.correspondence_broken("merge_subqueries._mergeable decision", {"sql": sql, "after": tree.sql("duckdb"), "shape": s, "model": g, "impl": impl})
            hints.append(sql)
    return hints


def elim_cases(chk: Check):
    inners = {
        # name: (sql or None for a plain table, uniqueOutputs of the DISTINCT/GROUP branch, allAgg, limit1, noFrom, extra)
        "table": (None, [], False, False, False, {"namedSelects": []}),
        "plain": ("SELECT a, b FROM y", [], False, False, False, {}),
        "distinct-a": ("SELECT DISTINCT a FROM y", ["a"], False, False, False, {"distinctOrGroup": True, "namedSelects": ["a"]}),
        "distinct-ab": ("SELECT DISTINCT a, b FROM y", ["a", "b"], False, False, False, {"distinctOrGroup": True}),
        "group-a": ("SELECT a FROM y GROUP BY a", ["a"], False, False, False, {"distinctOrGroup": True, "group": True, "namedSelects": ["a"]}),
        "group-ab-out-a": ("SELECT a FROM y GROUP BY a, b", [], False, False, False, {"distinctOrGroup": True, "group": True, "namedSelects": ["a"]}),
        "group-a-sum": ("SELECT a, SUM(b) AS b FROM y GROUP BY a", ["a"], False, False, False, {"distinctOrGroup": True, "group": True}),
        "limit1": ("SELECT a, b FROM y LIMIT 1", [], False, True, False, {}),
        "limit2": ("SELECT a, b FROM y LIMIT 2", [], False, False, False, {}),
        "allagg": ("SELECT MAX(a) AS a, MIN(b) AS b FROM y", [], True, False, False, {}),
        "nofrom": ("SELECT 1 AS a, 2 AS b", [], False, False, True, {}),
        # 030ac60: these must no longer count as single-row (extra flags: group / having / where)
        "allagg-group": ("SELECT MAX(a) AS a, MIN(b) AS b FROM y GROUP BY a", [], True, False, False, {"distinctOrGroup": True, "group": True}),
        "allagg-having": ("SELECT MAX(a) AS a, MIN(b) AS b FROM y HAVING MAX(a) > 5", [], True, False, False, {"having": True}),
        "allagg-where": ("SELECT MAX(a) AS a, MIN(b) AS b FROM y WHERE b > 0", [], True, False, False, {"where": True}),
        "nofrom-where": ("SELECT 1 AS a, 2 AS b WHERE FALSE", [], False, False, True, {"where": True}),
        "limit1-where": ("SELECT a, b FROM y WHERE b > 0 LIMIT 1", [], False, True, False, {"where": True}),
    }
    out = []
    for iname, spec in inners.items():
        isql, uniq, allagg, lim1, nofrom = spec[:5]
        extra = spec[5] if len(spec) > 5 else {}
        has_b = isql is None or " b" in isql.split(" FROM ")[0] or "AS b" in isql
        for side, kw in (("LEFT", "LEFT JOIN"), ("", "JOIN"), ("", "CROSS JOIN"), ("RIGHT", "RIGHT JOIN")):
            for keys in ([], ["a"], ["a", "b"]):
                if kw == "CROSS JOIN" and keys:
                    continue
                if kw != "CROSS JOIN" and not keys:
                    continue
                if "b" in keys and not has_b:
                    continue
                for used in (False, True):
                    src = "y AS y" if isql is None else f"({isql}) AS y"
                    sel = "x.a AS a" + (", y.a AS ya" if used else "")
                    sql = f"SELECT {sel} FROM x {kw} {src}"
                    if keys:
                        sql += " ON " + " AND ".join(f"x.{k} = y.{k}" for k in keys)
                    shape_ = {"isScope": isql is not None, "used": used, "side": side, "hasOn": bool(keys),
                              "uniqueOutputs": uniq, "joinKeys": keys, "allAgg": allagg, "limit1": lim1, "noFrom": nofrom, "namedSelects": ["a", "b"], **extra}
                    out.append((iname, sql, shape_))
    return out


def correspond_elim(chk: Check):
    sqlglot, exp = sg()
    from sqlglot.optimizer.qualify import qualify
    from sqlglot.optimizer.eliminate_joins import eliminate_joins

    cases = elim_cases(chk)
    got = chk.driver("C03", [json.dumps({"op": "elim", **s}) for *_, s in cases])
    hints = []
    for g, (iname, sql, s) in zip(got, cases):
        tree = qualify(sqlglot.parse_one(sql, read="duckdb"), schema=SCHEMA, dialect="duckdb")
        tree = eliminate_joins(tree)
        impl = "true" if not tree.args.get("joins") else "false"
        chk.corr_cases += 1
        chk.count(f"elim:{iname}:{impl}")
        chk.case(("elim", sql), nontrivial=True, sample={"sql": sql, "eliminated": impl} if iname == "distinct-a" and s["side"] == "LEFT" and not s["used"] else None)
        if g != impl:
            chk.correspondence_broken("eliminate_joins._should_eliminate_join decision", {"sql": sql, "after": tree.sql("duckdb"), "shape": s, "model": g, "impl": impl})
            hints.append(sql)
    return hints


def correspond_reorder(chk: Check):
    sqlglot, exp = sg()
    from sqlglot.optimizer.optimize_joins import _is_reorderable

    lines, impl = [], []
    kws = {"": "JOIN", "LEFT": "LEFT JOIN", "RIGHT": "RIGHT JOIN", "FULL": "FULL JOIN"}
    for n in (1, 2, 3):
        for sides in itertools.product(["", "LEFT", "RIGHT", "FULL"], repeat=n):
            sql = "SELECT * FROM x" + "".join(f" {kws[s]} {t} ON x.a = {t}.a" for s, t in zip(sides, ["y", "z", "w"]))
            joins = sqlglot.parse_one(sql, read="duckdb").args.get("joins", [])
            lines.append(json.dumps({"op": "reorder", "sides": list(sides)}))
            impl.append("true" if _is_reorderable(joins) else "false")
            chk.case(("reorder", sides), nontrivial=True)
    got = chk.driver("C03", lines)
    chk.corr_cases += len(lines)
    for g, i, l in zip(got, impl, lines):
        if g != i:
            chk.correspondence_broken("optimize_joins._is_reorderable", {"case": l, "model": g, "impl": i})


# ------------------------------------------------------------------------------------------ search (DuckDB oracle)
class Duck:
    def __init__(self):
        import duckdb

        self.duckdb = duckdb
        self.con = None

    def fresh(self, db):
        if self.con is not None:
            self.con.close()
        self.con = self.duckdb.connect(":memory:")
        for t, rows in db.items():
            self.con.execute(f"CREATE TABLE {t} (a INT, b INT)")
            if rows:
                self.con.executemany(f"INSERT INTO {t} VALUES (?, ?)", [tuple(r) for r in rows])

    def run(self, sql):
        try:
            cur = self.con.execute(sql)
            names = [d[0] for d in cur.description]
            return "ok", names, [tuple(r) for r in cur.fetchall()]
        except Exception as e:  # noqa
            return "err", None, f"{type(e).__name__}: {str(e)[:160]}"


def bagkey(rows):
    return sorted(rows, key=lambda r: tuple((0, 0) if v is None else (1, v) if not isinstance(v, str) else (2, v) for v in r))


def norm(rows):
    out = []
    for r in rows:
        out.append(tuple(int(v) if isinstance(v, bool) else (int(v) if hasattr(v, "__int__") and not isinstance(v, (int, str, float)) and v is not None and v == int(v) else v) for v in r))
    return out


def second_opinion(sql, out, db, total):
    """DuckDB itself is not infallible (seen: a WHERE pushed below ORDER BY … LIMIT of a derived table under a RIGHT JOIN):
    when DuckDB reports a row difference, run both texts on SQLite 3.40 as well; if SQLite accepts both and finds them
    EQUAL the difference is an engine artefact, not a property violation.  Returns True = artefact."""
    import sqlite3

    try:
        con = sqlite3.connect(":memory:")
        for t, rows in db.items():
            con.execute(f"CREATE TABLE {t} (a INT, b INT)")
            con.executemany(f"INSERT INTO {t} VALUES (?, ?)", [tuple(r) for r in rows])
        a = norm([tuple(r) for r in con.execute(sql).fetchall()])
        b = norm([tuple(r) for r in con.execute(out).fetchall()])
    except Exception:  # noqa
        return False
    return (a == b) if total else (bagkey(a) == bagkey(b))


def rule_fns():
    from sqlglot.optimizer.optimizer import RULES

    return list(RULES)


def optimized_sql(sql, rules):
    from sqlglot.optimizer import optimize

    return optimize(sql, schema=SCHEMA, dialect="duckdb", rules=rules).sql("duckdb")


def oracle(duck: Duck, sql, total, rules, label):
    st, names, rows = duck.run(sql)
    if st == "err":
        return None, "source-rejected"
    try:
        out = optimized_sql(sql, rules)
    except Exception as e:  # noqa
        from sqlglot.errors import SqlglotError

        if isinstance(e, SqlglotError):
            return None, "optimizer-refused"
        return f"[{label}] optimize raised {type(e).__name__}: {str(e)[:120]}", "optimizer-crash"
    st2, names2, rows2 = duck.run(out)
    if st2 == "err":
        return f"[{label}] the optimized text fails on DuckDB: {rows2} [{out}]", "target-rejected"
    if [n.lower() for n in names] != [n.lower() for n in names2]:
        return f"[{label}] output column names differ: {names} vs {names2} [{out}]", "names"
    a, b = norm(rows), norm(rows2)
    if total:
        if a != b:
            return f"[{label}] sequence differs: {a[:6]} vs {b[:6]} [{out}]", "diff"
    elif bagkey(a) != bagkey(b):
        return f"[{label}] multiset differs: {bagkey(a)[:6]} vs {bagkey(b)[:6]} [{out}]", "diff"
    return None, "same"


def rand_db(rng):
    db = {}
    for t in ("x", "y", "z"):
        n = rng.choice([0, 0, 1, 2, 3, 4, 5])
        rows = [[rng.choice([None, 0, 1, 1, 2, 3, 5]), rng.choice([None, 0, 1, 2, 2, 4, -1])] for _ in range(n)]
        if rows and rng.random() < 0.4:
            rows.append(list(rng.choice(rows)))  # duplicates
        db[t] = rows
    return db


CMP = ["=", "<>", "<", "<=", ">", ">="]


class QGen:
    def __init__(self, rng):
        self.rng = rng
        self.n = 0

    def pred(self, aliases, depth=1):
        r = self.rng
        a = r.choice(aliases)
        k = r.random()
        if depth > 0 and k < 0.3:
            return f"({self.pred(aliases, depth - 1)} {r.choice(['AND', 'OR'])} {self.pred(aliases, depth - 1)})"
        if depth > 0 and k < 0.38:
            return f"NOT ({self.pred(aliases, depth - 1)})"
        if k < 0.5:
            return f"{a}.{r.choice('ab')} IS {r.choice(['', 'NOT '])}NULL"
        if k < 0.62 and len(aliases) > 1:
            b = r.choice([x for x in aliases if x != a])
            return f"{a}.{r.choice('ab')} {r.choice(CMP)} {b}.{r.choice('ab')}"
        if k < 0.7:
            return f"{a}.{r.choice('ab')} IN ({', '.join(str(r.choice([0, 1, 2, 3])) for _ in range(r.randint(1, 3)))})"
        if k < 0.76:
            return f"{a}.a = 2 AND {a}.a < {r.choice([1, 3])}" if depth > 0 else f"{a}.a = 2"
        return f"{a}.{r.choice('ab')} {r.choice(CMP)} {r.choice([0, 1, 2, 3])}"

    def set_subquery(self, outer, correlated):
        """the body of an IN / ANY / EXISTS subquery: own GROUP BY (1-3 keys, projection a strict subset of the keys,
        HAVING), DISTINCT, LIMIT, set operations, aggregate projections — a lost de-duplication multiplies outer rows"""
        r = self.rng
        t = r.choice(["x", "y", "z"])
        c = r.choice("ab")
        o = "b" if c == "a" else "a"
        conds = []
        if correlated:
            conds.append(f"{t}.{r.choice('ab')} = {outer}.{r.choice('ab')}")
        if r.random() < 0.3:
            conds.append(f"{t}.{r.choice('ab')} {r.choice(CMP)} {r.choice([0, 1, 2])}")
        w = (" WHERE " + " AND ".join(conds)) if conds else ""
        k = r.random()
        if k < 0.2:
            return f"SELECT {t}.{c} FROM {t}{w}"
        if k < 0.45:
            keys = r.choice([[c], [c, o], [o, c], [c, o, f"{c} + {o}"]])
            keys = [f"{t}.{x}" if "+" not in x else f"{t}.{c} + {t}.{o}" for x in keys]
            having = f" HAVING {r.choice(['COUNT(*) > 0', 'COUNT(*) > 1', f'MAX({t}.{o}) > 0', f'MIN({t}.{o}) IS NOT NULL'])}" if r.random() < 0.4 else ""
            return f"SELECT {t}.{c} FROM {t}{w} GROUP BY {', '.join(keys)}{having}"
        if k < 0.55:
            return f"SELECT DISTINCT {t}.{c} FROM {t}{w}"
        if k < 0.65:
            return f"SELECT {r.choice(['MAX', 'MIN', 'COUNT'])}({t}.{c}) FROM {t}{w} GROUP BY {t}.{o}"
        if k < 0.75 and not correlated:
            t2 = r.choice(["x", "y", "z"])
            return f"SELECT {t}.{c} FROM {t}{w} {r.choice(['UNION', 'UNION ALL', 'INTERSECT', 'EXCEPT'])} SELECT {t2}.{r.choice('ab')} FROM {t2}"
        if k < 0.85:
            return f"SELECT {t}.{c} FROM {t}{w} ORDER BY {t}.{c} NULLS LAST, {t}.{o} NULLS LAST LIMIT {r.choice([1, 2])}"
        return f"SELECT {t}.{c} + {r.choice([0, 1])} FROM {t}{w}"

    def in_predicate(self, outer):
        r = self.rng
        col = f"{outer}.{r.choice('ab')}"
        body = self.set_subquery(outer, r.random() < 0.3)
        k = r.random()
        if k < 0.6:
            return f"{col} IN ({body})"
        if k < 0.75:
            return f"{col} NOT IN ({body})"
        if k < 0.9:
            return f"{col} = ANY ({body})"
        return f"({col} IN ({body}) OR {outer}.{r.choice('ab')} {r.choice(CMP)} {r.choice([0, 1, 2])})"

    def exists_predicate(self, outer):
        r = self.rng
        body = self.set_subquery(outer, r.random() < 0.8)
        return f"{r.choice(['', '', 'NOT '])}EXISTS ({body})"

    def agg_expr(self, t):
        r = self.rng
        cnt = r.choice(["COUNT(*)", f"COUNT({t}.a)", f"COUNT({t}.b)"])
        other = f"{r.choice(['MAX', 'MIN', 'SUM'])}({t}.{r.choice('ab')})"
        k = r.random()
        if k < 0.15:
            return cnt
        if k < 0.35:
            return f"{cnt} {r.choice(['+', '-', '*'])} {r.choice([1, 2])}"
        if k < 0.5:
            return f"CASE WHEN {cnt} {r.choice(['=', '>'])} {r.choice([0, 1])} THEN {r.choice([1, 7])} ELSE {r.choice([0, 'NULL', other])} END"
        if k < 0.65:
            return f"{cnt} + {other}"
        if k < 0.78:
            return f"COALESCE({other}, {cnt})"
        if k < 0.86:
            return f"COALESCE({other}, {r.choice([0, -1])}) + {cnt}"
        if k < 0.92:
            return f"NULLIF({cnt}, {r.choice([1, 2])})"
        return other

    def scalar_agg_subquery(self, outer):
        r = self.rng
        t = r.choice(["x", "y", "z"])
        extra = f" AND {t}.{r.choice('ab')} {r.choice(CMP)} {r.choice([0, 1, 2])}" if r.random() < 0.3 else ""
        return f"SELECT {self.agg_expr(t)} FROM {t} WHERE {t}.{r.choice('ab')} = {outer}.{r.choice('ab')}{extra}"

    def source(self, alias, allow_cte):
        """returns (from-item sql, cte definitions)"""
        r = self.rng
        base = r.choice(["x", "y", "z"])
        k = r.random()
        if k < 0.4:
            return f"{base} AS {alias}", []
        inner = self.inner(base)
        if allow_cte and k < 0.6:
            self.n += 1
            name = f"c{self.n}"
            return f"{name} AS {alias}", [(name, inner)]
        return f"({inner}) AS {alias}", []

    def inner(self, base):
        r = self.rng
        k = r.random()
        w = f" WHERE {self.pred([base], 0)}" if r.random() < 0.4 else ""
        if k < 0.35:
            return f"SELECT {base}.a AS a, {base}.b AS b FROM {base}{w}"
        if k < 0.45:
            return f"SELECT DISTINCT {base}.a AS a, {base}.b AS b FROM {base}{w}"
        if k < 0.55:
            return f"SELECT {base}.a AS a, {r.choice(['SUM', 'COUNT', 'MAX', 'MIN'])}({base}.b) AS b FROM {base}{w} GROUP BY {base}.a"
        if k < 0.62:
            return f"SELECT {base}.a AS a, {base}.b AS b FROM {base}{w} ORDER BY {base}.a NULLS FIRST, {base}.b NULLS FIRST LIMIT {r.choice([1, 2, 3])}"
        if k < 0.69:
            return f"SELECT {base}.a AS a, ROW_NUMBER() OVER (PARTITION BY {base}.a ORDER BY {base}.b NULLS FIRST) AS b FROM {base}{w}"
        if k < 0.75:
            return f"SELECT MAX({base}.a) AS a, COUNT({base}.b) AS b FROM {base}{w}"
        if k < 0.8:
            return f"SELECT {base}.a AS a, COUNT(*) AS b FROM {base}{w} GROUP BY {base}.a HAVING COUNT(*) > {r.choice([0, 1])}"
        if k < 0.86:
            other = r.choice([t for t in "xyz" if t != base])
            return f"SELECT {base}.a AS a, {other}.b AS b FROM {base} JOIN {other} ON {base}.a = {other}.a{w}"
        if k < 0.92:
            other = r.choice("xyz")
            op = r.choice(['UNION', 'UNION ALL', 'UNION ALL', 'EXCEPT', 'INTERSECT'])
            right = r.choice([f"{other}.a, {other}.b", f"{other}.b, {other}.a", f"{other}.b AS b, {other}.a AS a", f"{other}.a AS b, {other}.b AS a",
                              f"{other}.b AS a, {other}.a AS b"])
            return f"SELECT {base}.a AS a, {base}.b AS b FROM {base}{w} {op} SELECT {right} FROM {other}"
        return f"SELECT {r.choice([1, 2])} AS a, {base}.b AS b FROM {base}{w}"

    def query(self):
        r = self.rng
        self.n = 0
        aliases = ["p"]
        frm, ctes = self.source("p", True)
        sql = ""
        joins = ""
        for alias in ["q", "s"][: r.choice([0, 1, 1, 1, 2])]:
            item, c2 = self.source(alias, True)
            # reuse an existing CTE sometimes (ref_count 2)
            if ctes and r.random() < 0.35:
                item, c2 = f"{ctes[0][0]} AS {alias}", []
            ctes += c2
            kind = r.choice(["JOIN", "JOIN", "LEFT JOIN", "RIGHT JOIN", "FULL JOIN", "CROSS JOIN"])
            prev = r.choice(aliases)
            aliases.append(alias)
            if kind == "CROSS JOIN":
                joins += f" CROSS JOIN {item}"
            else:
                on = f"{prev}.{r.choice('ab')} = {alias}.{r.choice('ab')}"
                if r.random() < 0.35:
                    on += f" AND {self.pred([r.choice([prev, alias])], 0)}"
                joins += f" {kind} {item} ON {on}"
        used = aliases if r.random() < 0.6 else [aliases[0]]
        shape = r.random()
        where = f" WHERE {self.pred(aliases)}" if r.random() < 0.65 else ""
        sub = r.random()
        if sub < 0.05:
            # >= 2 subquery predicates over the SAME left operand that differ only in the subquery (uniq_sort keys)
            col = f"p.{r.choice('ab')}"
            k_ = r.random()
            parts = []
            for _ in range(r.randint(2, 3)):
                body = self.set_subquery("p", r.random() < 0.2)
                if k_ < 0.6:
                    parts.append(f"{col} {r.choice(['NOT ', '', 'NOT '])}IN ({body})")
                elif k_ < 0.8:
                    parts.append(f"{r.choice(['', 'NOT '])}EXISTS ({body})")
                else:
                    parts.append(f"{col} {r.choice(CMP)} (SELECT {r.choice(['MAX', 'MIN', 'COUNT'])}(z.{r.choice('ab')}) FROM z WHERE z.{r.choice('ab')} {r.choice(CMP)} {r.choice([0, 1, 2])})")
            where += (" AND " if where else " WHERE ") + "(" + r.choice([" AND ", " AND ", " OR "]).join(parts) + ")"
        elif sub < 0.12:
            where += (" AND " if where else " WHERE ") + self.in_predicate("p")
        elif sub < 0.2:
            where += (" AND " if where else " WHERE ") + self.exists_predicate("p")
        elif sub < 0.24:
            where += (" AND " if where else " WHERE ") + f"p.b > (SELECT {r.choice(['MIN', 'MAX', 'COUNT'])}(z.b) FROM z WHERE z.a = p.a)"
        elif sub < 0.34:
            # expression OVER aggregates, correlated by equality: the empty group / unmatched outer row matters
            where += (" AND " if where else " WHERE ") + f"p.{r.choice('ab')} {r.choice(CMP)} ({self.scalar_agg_subquery('p')})"
        self.extra_select = None
        if r.random() < 0.12:
            self.extra_select = f"({self.scalar_agg_subquery('p')}) AS sq"
        total = False
        if shape < 0.2:
            k = r.choice(aliases)
            sel = f"{k}.a AS k, {r.choice(['COUNT(*)', f'SUM({r.choice(aliases)}.b)', f'MAX({r.choice(aliases)}.b)', f'COUNT({r.choice(aliases)}.b)'])} AS v"
            tail = f" GROUP BY {k}.a" + (f" HAVING COUNT(*) > {r.choice([0, 1])}" if r.random() < 0.3 else "")
            if r.random() < 0.4:
                tail += " ORDER BY k NULLS FIRST"
                total = True
        else:
            cols = []
            for i, a in enumerate(used):
                cols.append(f"{a}.a AS c{2 * i}")
                if r.random() < 0.7:
                    cols.append(f"{a}.b AS c{2 * i + 1}")
            if self.extra_select:
                cols.append(self.extra_select)
            sel = ("DISTINCT " if r.random() < 0.12 else "") + ", ".join(cols)
            tail = ""
            if r.random() < 0.25:
                names = [c.split(" AS ")[1] for c in cols]
                tail = " ORDER BY " + ", ".join(f"{n}{r.choice(['', ' DESC'])} NULLS {r.choice(['FIRST', 'LAST'])}" for n in names)
                total = True
                if r.random() < 0.5:
                    tail += f" LIMIT {r.choice([1, 2, 3])}"
        sql = f"SELECT {sel} FROM {frm}{joins}{where}{tail}"
        if ctes:
            sql = "WITH " + ", ".join(f"{n} AS ({b})" for n, b in ctes) + " " + sql
        return sql, total


class NestGen:
    """2-3 nesting levels of derived tables whose innermost TABLE NAMES collide with sources of the outer query:
    inlining a level forces `_rename_inner_sources` (x -> x_2), which must carry every column along"""

    def __init__(self, rng):
        self.rng = rng

    def level0(self, t):
        r = self.rng
        w = f" WHERE {t}.{r.choice('ab')} {r.choice(CMP)} {r.choice([0, 1, 2])}" if r.random() < 0.6 else ""
        if r.random() < 0.3:
            t2 = r.choice([u for u in "xyz" if u != t])
            return f"SELECT {t}.a AS a, {t2}.b AS b FROM {t} JOIN {t2} ON {t}.a = {t2}.a{w}", [t, t2]
        return f"SELECT {t}.a AS a, {t}.b AS b FROM {t}{w}", [t]

    def nest(self, depth):
        r = self.rng
        t = r.choice("xyz")
        sql, tables = self.level0(t)
        names = ["i", "j", "k"]
        for d in range(depth):
            al = names[d]
            w = f" WHERE {al}.{r.choice('ab')} {r.choice(CMP)} {r.choice([0, 1, 2, 3])}" if r.random() < 0.3 else ""
            if r.random() < 0.25:
                t2 = r.choice("xyz")
                tables.append(t2)
                sql = f"SELECT {al}.a AS a, {t2}.b AS b FROM ({sql}) AS {al} JOIN {t2} ON {al}.b = {t2}.a{w}"
            else:
                sql = f"SELECT {al}.a AS a, {al}.b AS b FROM ({sql}) AS {al}{w}"
        return sql, tables

    def query(self):
        r = self.rng
        inner, tables = self.nest(r.choice([0, 1, 1, 2]))
        c = r.choice(tables)  # the outer query reads a source named like an inner table
        other = f"{c}" if r.random() < 0.6 else f"(SELECT {c}.a AS a, {c}.b AS b FROM {c}) AS {c}"
        on = f"m.{r.choice('ab')} = {c}.{r.choice('ab')}"
        kind = r.choice(["JOIN", "JOIN", "LEFT JOIN", "CROSS JOIN"])
        on_sql = "" if kind == "CROSS JOIN" else f" ON {on}"
        if r.random() < 0.5:
            frm = f"({inner}) AS m {kind} {other}{on_sql}"
        else:
            frm = f"{other} {kind} ({inner}) AS m{on_sql}"
        where = f" WHERE {r.choice(['m', c])}.{r.choice('ab')} {r.choice(CMP)} {r.choice([0, 1, 2])}" if r.random() < 0.4 else ""
        return f"SELECT m.a AS ma, m.b AS mb, {c}.a AS ca, {c}.b AS cb FROM {frm}{where}", False


class WinGen:
    """a derived table with 2-3 window functions over DIFFERENT partitions (one may be unpartitioned) whose outputs
    the outer query keeps, filtered from outside on each column"""

    def __init__(self, rng):
        self.rng = rng

    def query(self):
        r = self.rng
        t = r.choice("xyz")
        parts = [f"PARTITION BY {t}.a", f"PARTITION BY {t}.b", "", f"PARTITION BY {t}.a, {t}.b"]
        r.shuffle(parts)
        fns = ["COUNT(*)", f"SUM({t}.b)", f"MAX({t}.a)", f"COUNT({t}.b)"]
        n = r.choice([2, 2, 3])
        wins = [f"{r.choice(fns)} OVER ({parts[i]}) AS w{i}" for i in range(n)]
        inner = f"SELECT {t}.a AS k, {t}.b AS v, " + ", ".join(wins) + f" FROM {t}"
        col = r.choice(["k", "v"] + [f"w{i}" for i in range(n)])
        pred = f"p.{col} {r.choice(CMP)} {r.choice([0, 1, 2, 3])}" if r.random() < 0.8 else f"p.{col} IS NOT NULL"
        outs = ", ".join([f"p.k AS c0", f"p.v AS c1"] + [f"p.w{i} AS c{i + 2}" for i in range(n)])
        if r.random() < 0.3:
            return f"WITH p AS ({inner}) SELECT {outs} FROM p WHERE {pred}", False
        return f"SELECT {outs} FROM ({inner}) AS p WHERE {pred}", False


WITNESSES = [
    # necessity witnesses of Properties/C03.lean and DESIGN §6 rows as concrete SQL + data
    ("SELECT x.a AS xa, y.a AS ya FROM (SELECT * FROM x) AS x FULL JOIN y ON x.a = y.a WHERE x.b > 0", {"x": [], "y": [[1, 1]], "z": []}),
    ("SELECT x.a AS xa, y.a AS ya FROM x FULL JOIN y ON x.a = y.a WHERE x.b > 0", {"x": [], "y": [[1, 1]], "z": []}),
    ("SELECT x.a AS xa FROM (SELECT a, b FROM x) AS x LEFT JOIN (SELECT a, b FROM y) AS y ON x.a = y.a WHERE y.b > 5", {"x": [[1, 1]], "y": [[1, 1]], "z": []}),
    ("SELECT x.a AS xa FROM (SELECT a, b FROM x) AS x LEFT JOIN (SELECT a, b FROM y) AS y ON x.a = y.a WHERE y.b IS NULL", {"x": [[1, 1]], "y": [[1, 1]], "z": []}),
    ("SELECT y.a AS ya FROM (SELECT a, b FROM x) AS x RIGHT JOIN (SELECT a, b FROM y) AS y ON x.a = y.a WHERE x.a > 5", {"x": [[1, 1]], "y": [[1, 1]], "z": []}),
    ("SELECT x.a AS xa FROM (SELECT a, b FROM x ORDER BY a LIMIT 1) AS x WHERE x.a > 1", {"x": [[1, 1], [2, 2]], "y": [], "z": []}),
    ("SELECT x.a AS xa FROM (SELECT a, b FROM x ORDER BY a OFFSET 1) AS x WHERE x.a > 1", {"x": [[1, 1], [2, 2], [3, 3]], "y": [], "z": []}),
    ("SELECT x.a AS xa, x.c AS c FROM (SELECT a, COUNT(*) OVER () AS c FROM x) AS x WHERE x.a > 1", {"x": [[1, 1], [2, 2]], "y": [], "z": []}),
    ("SELECT x.a AS xa FROM (SELECT a, b FROM x QUALIFY ROW_NUMBER() OVER (ORDER BY a) = 1) AS x WHERE x.a > 1", {"x": [[1, 1], [2, 2]], "y": [], "z": []}),
    ("WITH c AS (SELECT a, b FROM x) SELECT p.a AS pa, q.a AS qa FROM c AS p CROSS JOIN c AS q WHERE p.a > 1", {"x": [[1, 1], [2, 2]], "y": [], "z": []}),
    ("SELECT x.a AS xa, x.c AS c FROM (SELECT a, COUNT(*) AS c FROM x GROUP BY a) AS x WHERE x.c > 1", {"x": [[1, 1], [1, 2], [2, 2]], "y": [], "z": []}),
    ("SELECT y.a AS ya FROM (SELECT DISTINCT a, b FROM y) AS y", {"x": [], "y": [[1, 1], [1, 1]], "z": []}),
    ("SELECT x.a AS xa FROM x LEFT JOIN (SELECT a, b FROM y WHERE b > 5) AS y ON x.a = y.a", {"x": [[1, 1]], "y": [[1, 1]], "z": []}),
    ("SELECT x.a AS xa FROM x LEFT JOIN (SELECT a FROM y) AS y ON x.a = y.a", {"x": [[1, 1]], "y": [[1, 1], [1, 2]], "z": []}),
    ("SELECT x.a AS xa FROM x JOIN (SELECT DISTINCT a FROM y) AS y ON x.a = y.a", {"x": [[1, 1]], "y": [[2, 1]], "z": []}),
    ("SELECT x.a AS xa FROM x CROSS JOIN (SELECT y.b AS b FROM y LIMIT 1) AS y", {"x": [[1, 1], [2, 2]], "y": [], "z": []}),
    ("SELECT x.a AS xa FROM x CROSS JOIN (SELECT COUNT(*) AS c FROM y GROUP BY y.a) AS y", {"x": [[1, 1]], "y": [[1, 1], [2, 2]], "z": []}),
    ("SELECT x.a AS xa FROM x CROSS JOIN (SELECT y.a AS a, COUNT(*) AS c FROM y GROUP BY y.a) AS y", {"x": [[1, 1]], "y": [[1, 1], [2, 2]], "z": []}),
    ("SELECT x.a AS xa FROM x CROSS JOIN (SELECT y.a AS a, y.b AS b, MAX(y.b) AS m FROM y GROUP BY y.a, y.b) AS y", {"x": [[1, 1]], "y": [[1, 1], [2, 2], [2, 3]], "z": []}),
    ("SELECT x.a AS xa FROM x, (SELECT SUM(y.b) AS s FROM y GROUP BY y.a) AS y", {"x": [[1, 1]], "y": [[1, 1], [2, 2]], "z": []}),
    ("SELECT x.a AS xa FROM x CROSS JOIN (SELECT 1 AS c WHERE FALSE) AS y", {"x": [[1, 1]], "y": [], "z": []}),
    ("SELECT x.a AS xa FROM x CROSS JOIN (SELECT MAX(y.a) AS c FROM y HAVING MAX(y.a) > 5) AS y", {"x": [[1, 1]], "y": [[1, 1]], "z": []}),
    ("SELECT x.a AS xa, y.a AS ya FROM x LEFT JOIN y ON x.a = y.a JOIN z ON y.a = z.a", {"x": [[1, 1]], "y": [], "z": [[1, 1]]}),
    ("SELECT x.a AS xa FROM x RIGHT JOIN (SELECT a, b FROM y) AS y ON x.a = y.a RIGHT JOIN (SELECT a, b FROM z) AS z ON y.a = z.a WHERE y.b > 1", {"x": [], "y": [], "z": [[1, 1]]}),
    ("SELECT p.a AS pa FROM (SELECT 1 AS a FROM z) AS p FULL JOIN x ON p.a = x.b", {"x": [[1, 2]], "y": [], "z": []}),
    # leads verified on the clean tree (each has a known_pending entry)
    ("SELECT x.a AS xa FROM x WHERE EXISTS (SELECT y.a FROM y WHERE y.a = x.a UNION ALL SELECT z.a FROM z WHERE z.a = x.a)", {"x": [[1, 1], [2, 2], [3, None]], "y": [[1, 1], [2, 5]], "z": [[3, 3], [2, 2]]}),
    ("SELECT x.a AS xa FROM x WHERE x.a IN (SELECT y.a FROM y WHERE y.b = x.b UNION SELECT z.a FROM z WHERE z.b = x.b)", {"x": [[1, 1], [2, 2], [3, None]], "y": [[1, 1], [2, 5]], "z": [[3, 3], [2, 2]]}),
    ("SELECT COUNT(*) AS c FROM (SELECT SUM(x.a) OVER () AS r FROM x) AS p", {"x": [[1, 1], [2, 2], [3, None]], "y": [], "z": []}),
    ("SELECT p.a AS pa FROM (SELECT x.a AS a, x.b AS b FROM x UNION ALL (SELECT y.a, y.b FROM y UNION SELECT z.a, z.b FROM z)) AS p", {"x": [[1, 1]], "y": [[1, 1], [2, 5]], "z": [[2, 5]]}),
    ("SELECT p.a AS pa FROM (SELECT x.a AS a, x.b AS b FROM x) AS p CROSS JOIN y WHERE (y.b * p.a) IS NULL OR p.a BETWEEN 0 AND 0", {"x": [[None, 7], [1, 1]], "y": [[1, 1]], "z": []}),
    ("WITH c1 AS (SELECT z.a AS a, z.b AS b FROM z UNION ALL SELECT x.a, x.b FROM x) SELECT p.b AS c1 FROM x AS p LEFT JOIN c1 AS q ON p.b = q.b", {"x": [[3, 4]], "y": [], "z": [[1, 4]]}),
    # several windows with different partitions: a filter on one window's partition key must not run below the others
    ("SELECT p.k AS c0, p.w0 AS c1, p.w1 AS c2 FROM (SELECT x.a AS k, COUNT(*) OVER (PARTITION BY x.a) AS w0, COUNT(*) OVER () AS w1 FROM x) AS p WHERE p.k = 1", {"x": [[1, 1], [1, 2], [2, 3]], "y": [], "z": []}),
    ("SELECT p.k AS c0, p.w0 AS c1, p.w1 AS c2 FROM (SELECT x.a AS k, SUM(x.b) OVER (PARTITION BY x.a) AS w0, SUM(x.b) OVER (PARTITION BY x.b) AS w1 FROM x) AS p WHERE p.k > 1", {"x": [[1, 1], [2, 1], [2, 3]], "y": [], "z": []}),
    ("WITH p AS (SELECT x.a AS k, x.b AS v, MAX(x.a) OVER (PARTITION BY x.b) AS w0, COUNT(*) OVER (PARTITION BY x.a, x.b) AS w1 FROM x) SELECT p.v AS c0, p.w0 AS c1, p.w1 AS c2 FROM p WHERE p.v = 1", {"x": [[1, 1], [2, 1], [2, 3]], "y": [], "z": []}),
    # set operations match columns by POSITION: right operand with the same names in another order / swapped aliases
    ("SELECT t.a AS ta FROM (SELECT x.a, x.b FROM x UNION ALL SELECT y.b, y.a FROM y) AS t", {"x": [[1, 2]], "y": [[3, 4]], "z": []}),
    ("SELECT t.b AS tb FROM (SELECT x.a, x.b FROM x UNION ALL SELECT y.b, y.a FROM y) AS t", {"x": [[1, 2]], "y": [[3, 4]], "z": []}),
    ("SELECT t.a AS ta FROM (SELECT x.a AS a, x.b AS b FROM x UNION ALL SELECT y.a AS b, y.b AS a FROM y) AS t", {"x": [[1, 2]], "y": [[3, 4]], "z": []}),
    ("WITH t AS (SELECT x.a AS a, x.b AS b FROM x UNION SELECT y.b AS b, y.a AS a FROM y) SELECT t.b AS tb FROM t", {"x": [[1, 2]], "y": [[3, 4], [3, 5]], "z": []}),
    # several subquery predicates with one left operand (uniq_sort must not merge them)
    ("SELECT x.a AS xa FROM x WHERE x.a NOT IN (SELECT y.a FROM y WHERE y.a IS NOT NULL) AND x.a NOT IN (SELECT z.a FROM z WHERE z.a IS NOT NULL)", {"x": [[1, 1], [2, 2], [3, 3]], "y": [[1, 1]], "z": [[2, 2]]}),
    ("SELECT x.a AS xa FROM x WHERE x.a IN (SELECT y.a FROM y) AND x.a IN (SELECT z.a FROM z)", {"x": [[1, 1], [2, 2], [3, 3]], "y": [[1, 1], [2, 1]], "z": [[2, 2], [3, 3]]}),
    ("SELECT x.a AS xa FROM x WHERE x.a IN (SELECT y.a FROM y) OR x.a IN (SELECT z.a FROM z)", {"x": [[1, 1], [2, 2], [3, 3]], "y": [[1, 1]], "z": [[2, 2]]}),
    ("SELECT x.a AS xa FROM x WHERE x.a > (SELECT MAX(y.a) FROM y) AND x.a > (SELECT MAX(z.a) FROM z)", {"x": [[1, 1], [2, 2], [3, 3]], "y": [[1, 1]], "z": [[2, 2]]}),
    # nested derived tables whose innermost table name collides with an outer source (rename must carry the columns)
    ("SELECT m.a AS ma, x.b AS xb FROM (SELECT i.a AS a FROM (SELECT x.a AS a FROM x WHERE x.b = 2) AS i) AS m JOIN x ON m.a = x.b", {"x": [[1, 1], [1, 2], [2, None], [None, 2], [3, 3]], "y": [], "z": []}),
    ("SELECT m.a AS ma, x.b AS xb FROM x JOIN (SELECT i.a AS a FROM (SELECT x.a AS a FROM x WHERE x.b = 2) AS i) AS m ON m.a = x.b", {"x": [[1, 1], [1, 2], [2, None], [None, 2], [3, 3]], "y": [], "z": []}),
    ("SELECT m.a AS ma, m.b AS mb, y.b AS yb FROM (SELECT x.a AS a, y.b AS b FROM x JOIN y ON x.a = y.a) AS m JOIN y ON m.b = y.a", {"x": [[1, 1], [2, 2]], "y": [[1, 1], [2, 2], [2, 1]], "z": []}),
    # pushdown_dnf: only a predicate common to ALL disjuncts may be pushed (known finding C11-or-in-where-over-join)
    ("SELECT y.a AS ya FROM y CROSS JOIN z WHERE ((z.b * y.a) IS NULL OR y.a BETWEEN 0 AND 0)", {"x": [], "y": [[None, None]], "z": [[None, None]]}),
    ("SELECT y.a AS ya FROM y CROSS JOIN z WHERE (y.a = 1 AND z.b = 1) OR (y.a = 2 AND z.b IS NULL)", {"x": [], "y": [[1, 1], [2, 2], [3, 3]], "z": [[1, 1], [None, None]]}),
    ("SELECT DISTINCT p.a AS pa FROM (SELECT DISTINCT y.a AS a, y.b AS b FROM y) AS p", {"x": [], "y": [[1, 1], [1, 2]], "z": []}),
    ("SELECT p.a AS pa FROM (SELECT y.a AS a, y.b AS b FROM y EXCEPT SELECT z.a, z.b FROM z) AS p", {"x": [], "y": [[1, 1], [1, 2]], "z": [[1, 2]]}),
    # IN / ANY / EXISTS subqueries with their own GROUP BY / DISTINCT / set operation, duplicate join values
    ("SELECT x.a AS xa FROM x WHERE x.a IN (SELECT y.a FROM y GROUP BY y.a, y.b)", {"x": [[1, 1], [2, 2]], "y": [[1, 1], [1, 2], [1, 2]], "z": []}),
    ("SELECT x.a AS xa FROM x WHERE x.a IN (SELECT y.a FROM y GROUP BY y.b, y.a HAVING COUNT(*) > 0)", {"x": [[1, 1], [2, 2]], "y": [[1, 1], [1, 2], [1, 2]], "z": []}),
    ("SELECT x.a AS xa FROM x WHERE x.a = ANY (SELECT y.a FROM y GROUP BY y.a, y.b, y.a + y.b)", {"x": [[1, 1]], "y": [[1, 1], [1, 2]], "z": []}),
    ("SELECT x.a AS xa FROM x WHERE x.a IN (SELECT y.a FROM y)", {"x": [[1, 1], [None, 2]], "y": [[1, 1], [1, 2], [None, 3]], "z": []}),
    ("SELECT x.a AS xa FROM x WHERE x.a IN (SELECT y.a FROM y UNION ALL SELECT z.a FROM z)", {"x": [[1, 1]], "y": [[1, 1]], "z": [[1, 5]]}),
    ("SELECT x.a AS xa FROM x WHERE x.a IN (SELECT MAX(y.a) FROM y GROUP BY y.b)", {"x": [[1, 1]], "y": [[1, 1], [1, 2]], "z": []}),
    ("SELECT x.a AS xa FROM x WHERE EXISTS (SELECT y.a FROM y WHERE y.a = x.a GROUP BY y.a, y.b)", {"x": [[1, 1], [2, 2]], "y": [[1, 1], [1, 2]], "z": []}),
    ("SELECT x.a AS xa FROM x WHERE x.b IN (SELECT y.b FROM y WHERE y.a = x.a GROUP BY y.b, y.a)", {"x": [[1, 1], [2, 2]], "y": [[1, 1], [1, 1]], "z": []}),
    ("SELECT x.a AS xa FROM x WHERE x.a IN (SELECT y.a FROM y) OR x.b > 5", {"x": [[1, 1], [2, 9]], "y": [[1, 1], [1, 2]], "z": []}),
    # decorrelation of scalar subqueries over an EMPTY group (outer rows without a match, NULL keys, empty tables)
    ("SELECT x.a AS xa FROM x WHERE x.a < (SELECT COUNT(*) + 1 FROM z WHERE z.b = x.b)", {"x": [[0, 1], [0, 5], [0, None]], "y": [], "z": [[1, 1]]}),
    ("SELECT x.a AS xa, (SELECT CASE WHEN COUNT(*) = 0 THEN 1 ELSE 0 END FROM z WHERE z.b = x.b) AS c FROM x", {"x": [[1, 1], [2, 5], [None, None]], "y": [], "z": [[1, 1]]}),
    ("SELECT x.a AS xa, (SELECT COUNT(*) + MAX(z.a) FROM z WHERE z.b = x.b) AS c FROM x", {"x": [[1, 1], [2, 5]], "y": [], "z": [[1, 1]]}),
    ("SELECT x.a AS xa, (SELECT COALESCE(MAX(z.a), -1) + COUNT(z.a) FROM z WHERE z.b = x.b) AS c FROM x", {"x": [[1, 1], [2, 5]], "y": [], "z": [[1, 1]]}),
    ("SELECT x.a AS xa, (SELECT COUNT(*) * 2 FROM y WHERE y.b = x.b) AS c FROM x", {"x": [[1, 1], [2, 5]], "y": [], "z": []}),
    ("SELECT x.a AS xa, (SELECT NULLIF(COUNT(*), 2) FROM z WHERE z.b = x.b) AS c FROM x", {"x": [[1, 1], [2, 5]], "y": [], "z": [[1, 1], [3, 1]]}),
    ("SELECT x.a AS xa FROM x WHERE NOT (x.a = 5 AND x.a < 3)", {"x": [[None, 1], [1, 1]], "y": [], "z": []}),
    ("SELECT x.a AS xa FROM x WHERE x.a NOT IN (SELECT y.a FROM y)", {"x": [[1, 1], [None, 2]], "y": [[None, 1], [2, 2]], "z": []}),
]


def skeleton(sql):
    from sqlglot.tokens import TokenType
    from sqlglot.dialects.dialect import Dialect

    out = []
    for t in Dialect.get_or_raise("duckdb").tokenize(sql):
        if t.token_type == TokenType.NUMBER:
            out.append("n")
        elif t.token_type == TokenType.STRING:
            out.append("lit")
        elif re.fullmatch(r"[xyzpqsabkv]|c\d+|[xypq][ab]|xa|ya|pa|qa|sq|c", t.text.lower()):
            out.append("id")
        else:
            out.append(t.text.upper())
    return " ".join(out)


def shrink_candidates(sql):
    """structural simplifications of the query at the sqlglot-AST level (each yields a new SQL string)"""
    sqlglot, exp = sg()
    try:
        tree = sqlglot.parse_one(sql, read="duckdb")
    except Exception:  # noqa
        return
    nodes = list(tree.walk())
    for i, node in enumerate(nodes):
        muts = []
        if isinstance(node, exp.Select):
            for k in ("where", "order", "limit", "offset", "distinct", "having", "qualify"):
                if node.args.get(k):
                    muts.append(("unset", k))
            if node.args.get("group") and not node.args.get("having"):
                muts.append(("unset", "group"))
            for j in range(len(node.args.get("joins") or [])):
                muts.append(("dropjoin", j))
            if len(node.expressions) > 1:
                for j in range(len(node.expressions)):
                    muts.append(("dropsel", j))
        if isinstance(node, (exp.And, exp.Or)):
            muts += [("child", "this"), ("child", "expression")]
        if isinstance(node, (exp.Not, exp.Paren)) and isinstance(node.parent, (exp.Where, exp.And, exp.Or, exp.Not, exp.Paren, exp.Having)):
            muts.append(("child", "this"))
        if isinstance(node, exp.Join) and node.side:
            muts.append(("unside", None))
        if isinstance(node, exp.Subquery) and isinstance(node.parent, (exp.From, exp.Join)) and isinstance(node.this, exp.Select):
            inner = node.this
            frm = inner.args.get("from_")
            if frm is not None and isinstance(frm.this, exp.Table) and node.alias:
                muts.append(("inline", frm.this.name))
        if isinstance(node, exp.SetOperation):
            muts += [("child", "this")]
        if isinstance(node, exp.With) and len(node.expressions) > 1:
            for j in range(len(node.expressions)):
                muts.append(("dropcte", j))
        for kind, arg in muts:
            t2 = tree.copy()
            n2 = list(t2.walk())[i]
            try:
                if kind == "unset":
                    n2.set(arg, None)
                elif kind == "dropjoin":
                    n2.args["joins"].pop(arg)
                elif kind == "dropsel":
                    n2.expressions.pop(arg)
                elif kind == "child":
                    c = n2.args[arg]
                    if n2 is t2:
                        t2 = c
                    else:
                        n2.replace(c)
                elif kind == "unside":
                    n2.set("side", None)
                elif kind == "inline":
                    n2.replace(exp.alias_(exp.to_table(arg), n2.alias, table=True))
                elif kind == "dropcte":
                    n2.expressions.pop(arg)
                out = t2.sql("duckdb")
            except Exception:  # noqa
                continue
            if out != sql:
                yield out


def shrink(duck: Duck, sql, total, rules, label, db):
    """AST-level shrinking keeping the SAME verdict kind, then rows"""
    kind0 = oracle(duck, sql, total, rules, label)[1]

    def fails(s, d=None):
        if d is not None:
            duck.fresh(d)
        res, kind = oracle(duck, s, total and " ORDER BY " in s, rules, label)
        return res is not None and kind == kind0

    budget = 400
    changed = True
    while changed and budget > 0:
        changed = False
        for cand in shrink_candidates(sql):
            budget -= 1
            if budget <= 0:
                break
            if fails(cand):
                sql = cand
                changed = True
                break
    for t in list(db):
        i = 0
        while i < len(db[t]) and budget > 0:
            cand = {**db, t: db[t][:i] + db[t][i + 1:]}
            budget -= 1
            if fails(sql, cand):
                db = cand
            else:
                i += 1
    duck.fresh(db)
    return sql, db


def correlation_captured(sql, rules):
    """root-cause attribution for merge_subqueries' alias capture: the optimized query has FEWER correlated (external)
    column references inside its subqueries than the qualified original — an outer column was rewritten to a name that
    a source inside the subquery also has"""
    sqlglot, exp = sg()
    from sqlglot.optimizer.scope import traverse_scope

    def ext(tree):
        n = 0
        for sc in traverse_scope(tree):
            if sc.is_subquery or sc.is_correlated_subquery:
                n += len(sc.external_columns)
        return n

    try:
        before = ext(sqlglot.parse_one(optimized_sql(sql, rules[:1]), read="duckdb"))
        after = ext(sqlglot.parse_one(optimized_sql(sql, rules), read="duckdb"))
    except Exception:  # noqa
        return None
    return True if after < before else None


def attribute(duck: Duck, sql, total, rules_all):
    """which single rule (after qualify) already shows the difference — part of the finding's context"""
    for r in rules_all[1:]:
        res, _ = oracle(duck, sql, total, [rules_all[0], r], r.__name__)
        if res:
            return r.__name__
    return "pipeline"


def search(chk: Check, hints: list, budget_s: float) -> None:
    t0 = time.time()
    rng = chk.rng
    duck = Duck()
    rules_all = rule_fns()
    singles = [(r.__name__, [rules_all[0], r]) for r in rules_all[1:] if r.__name__ not in ("quote_identifiers",)]
    prefixes = [(f"prefix-{i}", rules_all[:i]) for i in range(2, len(rules_all))]
    body = [r for r in rules_all[1:] if r.__name__ != "quote_identifiers"]
    pairs = [(f"pair:{a.__name__}+{b.__name__}", [rules_all[0], a, b]) for i, a in enumerate(body) for b in body[i + 1:]]
    minus_one = [(f"minus:{r.__name__}", [x for x in rules_all if x is not r]) for r in body]
    minus_elim = [c for c in minus_one if c[0] == "minus:eliminate_subqueries"]
    single_names = {n for n, _ in singles}
    tried = found = 0
    outcomes: dict = {}

    def consider(sql, total, db, configs):
        nonlocal tried, found
        for label, rules in configs:
            tried += 1
            res, oc = oracle(duck, sql, total, rules, label)
            outcomes[oc] = outcomes.get(oc, 0) + 1
            chk.count(f"search:{label.split(':')[0] if ':' in label else (label if not label.startswith('prefix') else 'prefix')}:{oc}")
            if res and oc == "diff":
                try:
                    if second_opinion(sql, optimized_sql(sql, rules), db, total):
                        outcomes["engine-artefact"] = outcomes.get("engine-artefact", 0) + 1
                        chk.count("search:engine-artefact")
                        continue
                except Exception:  # noqa
                    pass
            if res:
                found += 1
                sql2, db2 = shrink(duck, sql, total, rules, label, db)
                total2 = total and " ORDER BY " in sql2
                what = oracle(duck, sql2, total2, rules, label)[0] or res
                rule = label if label in single_names else attribute(duck, sql2, total2, rules_all)
                ctx = {"rule": rule}
                if rule == "merge_subqueries":
                    ctx["capture"] = correlation_captured(sql2, rules)
                chk.report_violation(f"{rule}:" + skeleton(sql2), what,
                                     {"sql": sql2, "total_order": total2, "db": db2, "rules": [r.__name__ for r in rules], "label": label},
                                     context=ctx)
                duck.fresh(db)
                return True
        return False

    full = [("optimize", rules_all)]
    for sql, db in WITNESSES:
        duck.fresh(db)
        consider(sql, False, db, full + singles + minus_elim)
        chk.case(("witness", sql), nontrivial=True)
    for sql in hints[:20]:
        for _ in range(6):
            db = rand_db(rng)
            duck.fresh(db)
            consider(sql, False, db, full + singles)
    g = QGen(rng)
    ng = NestGen(rng)
    wg = WinGen(rng)
    while time.time() - t0 < budget_s and len(chk.violations) < 4:
        db = rand_db(rng)
        duck.fresh(db)
        for _ in range(12):
            if rng.random() < 0.12:
                # nested derived tables with name collisions: every rule alone, sampled pairs, the pipeline minus one rule
                sql, total = ng.query()
                cfg = full + singles + rng.sample(pairs, chk.pick(4, 12)) + minus_elim + rng.sample(minus_one, chk.pick(2, 6))
                consider(sql, total, db, cfg)
                chk.count("search:shape:nested-collision")
                chk.case(("nest", sql, repr(db)), nontrivial=True, sample={"sql": sql} if tried % 97 == 0 else None)
                continue
            if rng.random() < 0.08:
                sql, total = wg.query()
                consider(sql, total, db, full + [c for c in singles if c[0] in ("pushdown_predicates", "pushdown_projections", "merge_subqueries")])
                chk.count("search:shape:multi-window")
                chk.case(("win", sql, repr(db)), nontrivial=True)
                continue
            sql, total = g.query()
            cfg = list(full)
            k = rng.random()
            if k < 0.1:
                cfg += rng.sample(pairs, 2) + rng.sample(minus_one, 1)
            elif k < 0.5:
                cfg += rng.sample(singles, 3)
            elif k < 0.7 or not chk.quick:
                cfg += rng.sample(prefixes, 2 if chk.quick else len(prefixes))
            consider(sql, total, db, cfg)
            chk.case(("q", sql, repr(db)), nontrivial=True, sample={"sql": sql} if tried % 499 == 0 else None)
            if time.time() - t0 > budget_s:
                break
    chk.search_info = {"ran": True, "budget_s": budget_s, "executions": tried, "violating": found, "outcomes": outcomes,
                       "oracle": "original vs optimized SQL on DuckDB: equal output column names and row multisets (sequences under a total ORDER BY); full optimize(), single rules after qualify, pairs of rules after qualify, the pipeline minus one rule, pipeline prefixes"}


def run(chk: Check) -> None:
    chk.trusted.append("C03: hand-written decision mirrors in Model/Opt.lean (pushdown_predicates / nodes_for_predicate / pushdown_cnf, _mergeable, "
                       "_should_eliminate_join, _is_reorderable) over abstract query shapes; guard atoms re-extracted by ast on every run")
    chk.trusted.append("C03: DuckDB 1.5 as the reference engine for the search oracle; Sem/Bag.lean is the semantics the theorems are about")
    chk.assumptions += [
        "PARTIAL: theorems cover the pushdown / merge / join-elimination / join-reorder rewrites in their basic shapes; unnest_subqueries, pushdown_projections, "
        "eliminate_subqueries, eliminate_ctes, canonicalize, simplify (C06) and qualify (C10) are exercised by the DuckDB-executing search only",
        "the decision model covers CNF-like predicates, no UNNEST sources, no recursive CTEs; DNF pushdown is search-only",
        "scope construction (sources, ref_count) is trusted as input of the decision model; generated cases record ground-truth shapes",
    ]
    chk.write_generated(translate(chk))
    proved = chk.prove(MODULES, "Properties.C03", THEOREMS)
    hints = []
    try:
        hints += correspond_push(chk)
        hints += correspond_merge(chk)
        hints += correspond_elim(chk)
        correspond_reorder(chk)
    except HarnessError as e:
        if proved:
            raise
        chk.note(f"model driver unavailable ({e}); continuing with the search on the real code")
    budget = chk.pick(25, 300)
    if chk.broken:
        budget *= 2
    search(chk, hints, budget)


def replay(path: str) -> int:
    rec = json.load(open(path))
    r = rec.get("replay")
    if not r or "sql" not in r:
        print(json.dumps(rec, indent=1)[:3000])
        return 1
    duck = Duck()
    duck.fresh(r["db"])
    byname = {f.__name__: f for f in rule_fns()}
    rules = [byname[n] for n in r["rules"] if n in byname]
    res, oc = oracle(duck, r["sql"], r["total_order"], rules, r.get("label", "replay"))
    print("replay:", r["sql"], r["db"])
    print("VIOLATES: " + res if res else "holds")
    return 1 if res else 0
