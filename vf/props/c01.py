"""C01 — Same-dialect round trip is a fixpoint in every dialect (DESIGN.md §4 C01).

translate : per dialect the parser's ladder tables (DISJUNCTION … EXPONENT), RANGE_PARSERS keys, NORMALIZE_NOT_NULL,
            identifier quotes, and — from the ast of sqlglot/generator.py — the operator text of every
            `return self.binary(expression, "<op>")` / `connector_sql(…, "<op>", stack)` method, kept for a dialect only
            when its generator class does not override / transform the class and the text lexes to one token
prove     : Properties/C01.lean (round trip of the printer through the ladder parser, any tree size; TablesOk decided
            for every generated table; counter-example witnesses of the known clean-tree defects; format_time identity)
correspond: grammar-directed expression strings -> real tokenizer -> (a) real parse_one(s).sql() vs model print∘parse
            byte for byte, (b) real tree vs model tree through a canonical S-expression, (c) real tokenizer on the
            model's printed text vs the model's token list; format_time vs Model/TimeFmt on generated mappings
search    : the property's own oracle on the real code, ALL dialects, richer grammar (SELECT with joins / subqueries /
            CTEs / set ops / windows, casts, literals, time-format functions)
"""

from __future__ import annotations

import ast
import json
import os
import re
import time

from vf.core import Check, REPO, HarnessError, lean_str

MODULES = ["Model.Expr", "Model.Parse", "Model.Gen", "Model.TimeFmt", "Model.Engine", "Generated.C01", "Proofs.ParseGen",
           "Proofs.TimeFmt", "Properties.C01"]
P = "SqlglotModel.Properties.C01."
THEOREMS = [P + n for n in [
    "parse_gen_partial",
    "roundtrip_fixpoint",
    "generated_tables_ok",
    "parse_gen_counterexample_neg_range",
    "parse_gen_counterexample_like_chain",
    "generated_guards_ok",
    "neg_text_guard_separates",
    "bnot_text_guard_separates",
    "neg_node_guard_counterexample",
    "bitwisenot_glue_witness",
    "generated_annotate_checks_same_expr",
    "generated_paren_unwraps_all",
    "unnest_print_parse_fixpoint",
    "strip_one_level_counterexample",
    "athena_engine_model_matches_source",
    "athena_engine_choice_agrees",
    "generated_athena_ctas_engines_agree",
    "athena_engine_mismatch_witness",
    "athena_select_only_variant_witness",
    "format_time_id",
    "format_time_no_key_start",
    "format_time_base",
]]

LEVELS = ["DISJUNCTION", "CONJUNCTION", "EQUALITY", "COMPARISON", "BITWISE", "TERM", "FACTOR", "EXPONENT"]
ATOM_CLASSES = ["Paren", "Neg", "Not", "BitwiseNot", "Is", "In", "Between", "Like", "Anonymous", "Boolean", "Null",
                "Literal", "Column", "Identifier"]


def sg():
    import sqlglot
    from sqlglot import exp
    from sqlglot.dialects.dialect import Dialect, Dialects
    from sqlglot.generator import Generator
    from sqlglot.parser import Parser

    return sqlglot, exp, Dialect, Dialects, Generator, Parser


def all_dialects() -> list[str]:
    """every registered dialect: the `Dialects` enum UNION the dialect modules (the enum misses some, e.g. singlestore)"""
    _, _, _, Dialects, _, _ = sg()
    import sqlglot.dialects as D

    names = {d.value for d in Dialects}
    mods = getattr(D, "DIALECT_MODULE_NAMES", None)
    if mods is not None:
        names |= {str(n) for n in (mods.values() if hasattr(mods, "values") else mods)}
    names |= {str(n).lower() for n in getattr(D, "DIALECTS", [])} & set(getattr(D, "MODULE_BY_DIALECT", {}).values() if hasattr(getattr(D, "MODULE_BY_DIALECT", None), "values") else [])
    return sorted(names)


# ------------------------------------------------------------------------------------------ translate
def generator_ops(chk: Check) -> dict:
    """method key -> operator text, for Generator methods of the shape `return self.binary(expression, "op")`"""
    src = open(os.path.join(REPO, "sqlglot", "generator.py"), encoding="utf-8").read()
    tree = ast.parse(src)
    ops: dict = {}
    shapes: dict = {}
    for cls in tree.body:
        if isinstance(cls, ast.ClassDef) and cls.name == "Generator":
            for fn in cls.body:
                if not isinstance(fn, ast.FunctionDef):
                    continue
                if fn.name in ("binary", "connector_sql", "paren_sql", "neg_sql", "not_sql", "bitwisenot_sql", "is_sql",
                               "in_sql", "between_sql", "_like_sql"):
                    shapes[fn.name] = ast.dump(fn)
                if fn.name.endswith("_sql") and len(fn.body) == 1 and isinstance(fn.body[0], ast.Return):
                    c = fn.body[0].value
                    if (isinstance(c, ast.Call) and isinstance(c.func, ast.Attribute) and c.func.attr in ("binary", "connector_sql")
                            and len(c.args) >= 2 and isinstance(c.args[1], ast.Constant) and isinstance(c.args[1].value, str)
                            and isinstance(c.args[0], ast.Name) and c.args[0].id == "expression"):
                        ops[fn.name[:-4]] = c.args[1].value
    for need in ("binary", "connector_sql", "paren_sql", "neg_sql", "not_sql"):
        if need not in shapes:
            chk.broken.append({"kind": "translator", "what": f"C01 translator: structure changed: Generator.{need} not found"})
    return ops


def prints_as(node, text: str, dialect: str) -> bool:
    try:
        return node.sql(dialect=dialect or None) == text
    except Exception:  # noqa
        return False


_A = lambda exp: exp.column("a")
PLAIN_SAMPLES = {
    "Paren": [(lambda exp: exp.Paren(this=_A(exp)), "(a)")],
    "Neg": [(lambda exp: exp.Neg(this=_A(exp)), "-a"), (lambda exp: exp.Neg(this=exp.Neg(this=_A(exp))), "- -a")],
    "Not": [(lambda exp: exp.Not(this=_A(exp)), "NOT a")],
    "BitwiseNot": [(lambda exp: exp.BitwiseNot(this=_A(exp)), "~a")],
    "Is": [(lambda exp: exp.Is(this=_A(exp), expression=exp.Null()), "a IS NULL")],
    "In": [(lambda exp: exp.In(this=_A(exp), expressions=[exp.Literal.number(1), exp.Literal.number(2)]), "a IN (1, 2)")],
    "Between": [(lambda exp: exp.Between(this=_A(exp), low=exp.Literal.number(1), high=exp.Literal.number(2)), "a BETWEEN 1 AND 2")],
    "Like": [(lambda exp: exp.Like(this=_A(exp), expression=exp.column("b")), "a LIKE b"),
             (lambda exp: exp.Like(this=_A(exp), expression=exp.column("b"), negate=True), "a NOT LIKE b")],
    "Anonymous": [(lambda exp: exp.Anonymous(this="FOO", expressions=[_A(exp), exp.Literal.number(1)]), "FOO(a, 1)")],
    "Boolean": [(lambda exp: exp.Boolean(this=True), "TRUE"), (lambda exp: exp.Boolean(this=False), "FALSE")],
    "Null": [(lambda exp: exp.Null(), "NULL")],
    "Literal": [(lambda exp: exp.Literal.number("2.5"), "2.5"), (lambda exp: exp.Literal.string("a b"), "'a b'")],
    "Column": [(lambda exp: exp.column("a", "t"), "t.a"), (lambda exp: exp.column("a", "t", "db"), "db.t.a")],
    "Identifier": [(lambda exp: exp.to_identifier("Q w", quoted=True), '"Q w"')],
}


LADDER_METHODS = ["_parse_disjunction", "_parse_conjunction", "_parse_equality", "_parse_comparison", "_parse_bitwise",
                  "_parse_term", "_parse_factor", "_parse_exponent", "_parse_unary"]
def guard_kind(fn) -> str:
    """shape of the space guard of a prefix-operator method: 'text' (looks at the generated operand text:
    `x[0] == c`, `x[:1] == c`, `x.startswith(c)`), 'node' (isinstance on the operand), 'none', 'unknown'"""
    import inspect
    import textwrap

    try:
        tree = ast.parse(textwrap.dedent(inspect.getsource(fn)))
    except Exception:  # noqa
        return "unknown"
    tests = [n.test for n in ast.walk(tree) if isinstance(n, ast.IfExp)]
    # an `if …: sep = " "` statement form counts too
    for n in ast.walk(tree):
        if isinstance(n, ast.If) and any(isinstance(b, ast.Assign) and any(isinstance(t, ast.Name) and t.id == "sep" for t in b.targets) for b in n.body):
            tests.append(n.test)
    if not tests:
        return "none"
    kinds = set()
    for t in tests:
        for n in ast.walk(t):
            if isinstance(n, ast.Call) and isinstance(n.func, ast.Name) and n.func.id == "isinstance":
                kinds.add("node")
            elif isinstance(n, ast.Call) and isinstance(n.func, ast.Attribute) and n.func.attr == "startswith":
                kinds.add("text")
            elif isinstance(n, ast.Compare) and isinstance(n.left, ast.Subscript) and isinstance(n.left.value, ast.Name):
                kinds.add("text")
    return next(iter(kinds)) if len(kinds) == 1 else "unknown"


METHODS_MODELLED = ["_parse_disjunction", "_parse_conjunction", "_parse_equality", "_parse_comparison", "_parse_range",
                    "_negate_range", "_parse_is", "_parse_in", "_parse_between", "_parse_escape", "_parse_bitwise", "_parse_term",
                    "_parse_factor", "_parse_factor_operand", "_parse_exponent", "_parse_unary", "_parse_paren", "_parse_primary"]


def entry_ok(name: str) -> bool:
    """parse_one on a bare expression reaches _parse_expression in this dialect"""
    sqlglot, exp, *_ = sg()
    try:
        return type(sqlglot.parse_one("a + 1", dialect=name or None)) is exp.Add
    except Exception:  # noqa
        return False


def dialect_tables(chk: Check) -> dict:
    _, exp, Dialect, Dialects, Generator, Parser = sg()
    ops = generator_ops(chk)
    out = {}
    for name in all_dialects():
        try:
            inst = Dialect.get_or_raise(name or None)
        except Exception as ex:  # noqa  (a dialect module that parses SQL at import time can fail on a broken parser)
            chk.broken.append({"kind": "translator", "what": f"C01 translator: dialect {name!r} does not load: {type(ex).__name__}: {str(ex)[:120]}"})
            continue
        Pc, Gc = inst.parser_class, inst.generator_class
        lv = {}
        for L in LEVELS:
            tab = getattr(Pc, L, None)
            if not isinstance(tab, dict):
                chk.broken.append({"kind": "translator", "what": f"C01 translator: structure changed: Parser.{L} is not a dict ({name})"})
                tab = {}
            lv[L] = sorted((k.name, v.__name__) for k, v in tab.items())
        gen = []
        mismatched = []
        for L in LEVELS:
            for tok, cn in lv[L]:
                c = getattr(exp, cn, None)
                if c is None:
                    continue
                key = c.key
                if key in ops and getattr(Gc, key + "_sql", None) is getattr(Generator, key + "_sql") and c not in Gc.TRANSFORMS:
                    try:
                        toks = inst.tokenize(ops[key])
                    except Exception:
                        continue
                    if len(toks) == 1 and prints_as(c(this=exp.column("a"), expression=exp.column("b")), f"a {ops[key]} b", name):
                        if toks[0].token_type.name == tok:
                            gen.append((cn, tok, ops[key]))
                        elif not any(t2 == toks[0].token_type.name and c2 == cn for t2, c2 in lv[L]):
                            # the generator's operator text does not lex to a token the parser maps to this class
                            mismatched.append((name, cn, toks[0].token_type.name))
        gen = sorted(set(gen))
        if mismatched:
            chk.cov.setdefault("operator_text_lexes_to_other_token", []).extend(mismatched)
            if entry_ok(name) and all(getattr(Pc, m) is getattr(Parser, m) for m in LADDER_METHODS):
                chk.broken.append({"kind": "translator", "what": f"C01 tables: operator text does not lex back to its parser entry: {mismatched}"})
        plain = []
        for cn in ATOM_CLASSES:
            c = getattr(exp, cn)
            if (getattr(Gc, c.key + "_sql", None) is getattr(Generator, c.key + "_sql", None) and c not in Gc.TRANSFORMS
                    and all(prints_as(mk(exp), txt.replace('"', inst.IDENTIFIER_START, 1).replace('"', inst.IDENTIFIER_END, 1), name)
                            for mk, txt in PLAIN_SAMPLES[cn])):
                plain.append(cn)
        if "BitwiseNot" in plain and [t.token_type.name for t in inst.tokenize("~ a")] != ["TILDE", "VAR"]:
            plain.remove("BitwiseNot")
        unary = sorted(k.name for k in Pc.UNARY_PARSERS)
        base_unary = all(Pc.UNARY_PARSERS.get(k) is Parser.UNARY_PARSERS.get(k) for k in Parser.UNARY_PARSERS)
        out[name] = {
            "levels": lv, "genOps": gen, "rangeToks": sorted(k.name for k in Pc.RANGE_PARSERS),
            "normalizeNotNull": bool(inst.NORMALIZE_NOT_NULL), "identStart": inst.IDENTIFIER_START, "identEnd": inst.IDENTIFIER_END,
            "plain": plain, "unary": unary, "base_unary": base_unary,
            "range_base": all(Pc.RANGE_PARSERS.get(k) is Parser.RANGE_PARSERS.get(k) for k in
                              [t for t in Parser.RANGE_PARSERS if t.name in ("IN", "BETWEEN", "LIKE", "IS")])
                          and all(getattr(Pc, m) is getattr(Parser, m) for m in METHODS_MODELLED),
            "entry_ok": entry_ok(name) and all(getattr(Pc, m) is getattr(Parser, m) for m in LADDER_METHODS),
            "normfunc": inst.NORMALIZE_FUNCTIONS,
            "negGuard": guard_kind(Gc.neg_sql), "bnotGuard": guard_kind(Gc.bitwisenot_sql),
        }
    return out


def time_tables() -> dict:
    _, _, Dialect, Dialects, _, _ = sg()
    out = {}
    for name in all_dialects():
        try:
            inst = Dialect.get_or_raise(name or None)
        except Exception:  # noqa
            continue
        out[name] = (sorted(inst.TIME_MAPPING.items()), sorted(inst.INVERSE_TIME_MAPPING.items()))
    return out


def paren_unwrap_sites(chk: Check) -> list:
    """generator code of the shape `<x>.unnest() if isinstance(<x>, exp.Paren) else <x>` (strips ALL redundant Paren levels)
    versus `<x>.this if isinstance(<x>, exp.Paren) …` (strips ONE): (file:function:variable, kind) by ast over the generator sources"""
    import glob

    files = sorted(glob.glob(os.path.join(REPO, "sqlglot", "generators", "*.py")) + [os.path.join(REPO, "sqlglot", "generator.py"),
                                                                                    os.path.join(REPO, "sqlglot", "dialects", "dialect.py")])
    sites = []
    for f in files:
        try:
            tree = ast.parse(open(f, encoding="utf-8").read())
        except Exception:  # noqa
            continue
        # TRANSFORMS-style dict entries `exp.X: lambda …`: name the lambda after its key
        lam_names = {}
        for dn in ast.walk(tree):
            if isinstance(dn, ast.Dict):
                for k, v in zip(dn.keys, dn.values):
                    if k is not None:
                        for sub in ast.walk(v):
                            if isinstance(sub, ast.Lambda):
                                lam_names.setdefault(id(sub), "<lambda " + ast.unparse(k) + ">")
        for fn in ast.walk(tree):
            if not isinstance(fn, (ast.FunctionDef, ast.Lambda)):
                continue
            fname = getattr(fn, "name", None) or lam_names.get(id(fn), "<lambda>")
            for n in ast.walk(fn):
                if not isinstance(n, (ast.IfExp, ast.If)):
                    continue
                t = n.test
                if not (isinstance(t, ast.Call) and isinstance(t.func, ast.Name) and t.func.id == "isinstance" and len(t.args) == 2
                        and isinstance(t.args[0], ast.Name) and isinstance(t.args[1], ast.Attribute) and t.args[1].attr == "Paren"):
                    continue
                var = t.args[0].id
                body = n.body if isinstance(n, ast.IfExp) else ast.Module(body=n.body, type_ignores=[])
                kind = "keep"
                for b in ast.walk(body):
                    if isinstance(b, ast.Call) and isinstance(b.func, ast.Attribute) and b.func.attr == "unnest" and isinstance(b.func.value, ast.Name) and b.func.value.id == var:
                        kind = "all"
                    elif isinstance(b, ast.Attribute) and b.attr == "this" and isinstance(b.value, ast.Name) and b.value.id == var and kind != "all":
                        kind = "one"
                sites.append((f"{os.path.relpath(f, REPO)}:{fname}:{var}", kind))
    return sorted(set(sites))


def annotate_type_checks(chk: Check) -> list:
    """builders / generator helpers that call annotate_types(<X>, …) and then test <Y>.is_type(…): (site, X is a plain name and
    Y is the same name) — annotating a copy and testing the original leaves the test on an un-annotated node"""
    import glob

    files = sorted(glob.glob(os.path.join(REPO, "sqlglot", "dialects", "*.py")) + glob.glob(os.path.join(REPO, "sqlglot", "parsers", "*.py"))
                   + glob.glob(os.path.join(REPO, "sqlglot", "generators", "*.py"))) + [os.path.join(REPO, "sqlglot", "parser.py"),
                                                                                        os.path.join(REPO, "sqlglot", "generator.py")]
    out = []
    for f in files:
        try:
            tree = ast.parse(open(f, encoding="utf-8").read())
        except Exception:  # noqa
            continue
        for fn in ast.walk(tree):
            if not isinstance(fn, ast.FunctionDef):
                continue
            ann = [n for n in ast.walk(fn) if isinstance(n, ast.Call) and isinstance(n.func, ast.Name) and n.func.id == "annotate_types" and n.args]
            if not ann:
                continue
            first = min(a.lineno for a in ann)
            # only type tests AFTER the annotation are tests of the annotated expression
            tests = [n.func.value for n in ast.walk(fn) if isinstance(n, ast.Call) and isinstance(n.func, ast.Attribute) and n.func.attr == "is_type"
                     and n.lineno > first]
            if not tests:
                continue
            annotated = {a.args[0].id for a in ann if isinstance(a.args[0], ast.Name)}
            assigned = set()
            for n in ast.walk(fn):   # `x = annotate_types(<anything>)` annotates the returned node x
                if isinstance(n, ast.Assign) and isinstance(n.value, ast.Call) and isinstance(n.value.func, ast.Name) and n.value.func.id == "annotate_types":
                    assigned |= {t.id for t in n.targets if isinstance(t, ast.Name)}
            all_named = all(isinstance(a.args[0], ast.Name) for a in ann) or bool(assigned)
            tested = {t.id for t in tests if isinstance(t, ast.Name)}
            ok = all_named and (not tested or bool(tested & (annotated | assigned)))
            out.append((f"{os.path.relpath(f, REPO)}:{fn.name}", ok))
    return sorted(set(out))


ATHENA_SHAPES = [
    # (name, sample statement, first, kind, orReplace, body, nestedSelect)
    ("ctas-none", "CREATE TABLE t (a INT)", "create", "table", False, "none", False),
    ("ctas-select", "CREATE TABLE t AS SELECT a FROM b", "create", "table", False, "select", False),
    ("ctas-setop", "CREATE TABLE t AS SELECT a FROM b UNION ALL SELECT c FROM d", "create", "table", False, "setop", False),
    ("ctas-except", "CREATE TABLE t AS SELECT a FROM b EXCEPT SELECT c FROM d", "create", "table", False, "setop", False),
    ("ctas-paren", "CREATE TABLE t AS (SELECT a FROM b)", "create", "table", False, "paren", False),
    ("ctas-with", "CREATE TABLE t AS WITH c AS (SELECT a FROM b) SELECT * FROM c", "create", "table", False, "withq", False),
    ("ctas-subquery", "CREATE TABLE t AS SELECT * FROM (SELECT a FROM b) AS s", "create", "table", False, "subquery", False),
    ("ctas-values", "CREATE TABLE t AS VALUES (1, 2)", "create", "table", False, "values", False),
    ("ctas-props-setop", "CREATE TABLE t WITH (format='PARQUET') AS SELECT a FROM b INTERSECT SELECT c FROM d", "create", "table", False, "setop", False),
    ("cor-table-select", "CREATE OR REPLACE TABLE t AS SELECT a FROM b", "create", "table", True, "select", False),
    ("table-check-subquery", "CREATE TABLE t (a INT, CONSTRAINT ck CHECK (EXISTS(SELECT 1)))", "create", "table", False, "none", True),
    ("external-table", "CREATE EXTERNAL TABLE t (a INT) LOCATION 's3://b/p/'", "create", "externalTable", False, "none", False),
    ("view-select", "CREATE VIEW v AS SELECT a FROM b", "create", "view", False, "select", False),
    ("view-setop", "CREATE VIEW v AS SELECT a FROM b UNION SELECT c FROM d", "create", "view", False, "setop", False),
    ("cor-view-select", "CREATE OR REPLACE VIEW v AS SELECT a FROM b", "create", "view", True, "select", False),
    ("cor-view-values", "CREATE OR REPLACE VIEW v AS VALUES (1, 2)", "create", "view", True, "values", False),
    ("schema", "CREATE SCHEMA s", "create", "schema", False, "none", False),
    ("database", "CREATE DATABASE s", "create", "database", False, "none", False),
    ("alter-table", "ALTER TABLE t ADD COLUMNS (b INT)", "alter", "table", False, "none", False),
    ("drop-table", "DROP TABLE t", "drop", "table", False, "none", False),
    ("drop-view", "DROP VIEW v", "drop", "view", False, "none", False),
    ("drop-schema", "DROP SCHEMA s", "drop", "schema", False, "none", False),
    ("describe", "DESCRIBE t", "describe", "table", False, "none", False),
    ("select", "SELECT a FROM b", "other", "other", False, "select", False),
    ("select-setop", "SELECT a FROM b UNION SELECT c FROM d", "other", "other", False, "setop", False),
    ("insert-select", "INSERT INTO t SELECT a FROM b", "other", "other", False, "select", False),
]


def athena_shape_table(chk: Check) -> list:
    """both engine decisions of the REAL code on one sample statement per shape"""
    _, exp, Dialect, *_ = sg()
    rows = []
    try:
        from sqlglot.generators.athena import _generate_as_hive
        from sqlglot.tokens import TokenType

        inst = Dialect.get_or_raise("athena")
        hive_marker = TokenType.HIVE_TOKEN_STREAM
    except Exception as ex:  # noqa
        chk.broken.append({"kind": "translator", "what": f"C01 translator: structure changed: athena engine decision not found ({type(ex).__name__}: {ex})"})
        return rows
    import logging

    lg = logging.getLogger("sqlglot")
    lvl = lg.level
    lg.setLevel(logging.CRITICAL)
    try:
        for name, sql, first, kind, orr, body, nested in ATHENA_SHAPES:
            try:
                toks = inst.tokenize(sql)
                tok = bool(toks) and toks[0].token_type == hive_marker
                tree = inst.parse(sql)[0]
            except Exception as ex:  # noqa
                chk.broken.append({"kind": "translator", "what": f"C01 translator: athena sample {name!r} does not parse: {type(ex).__name__}"})
                continue
            if isinstance(tree, exp.Command):
                chk.broken.append({"kind": "translator", "what": f"C01 translator: athena sample {name!r} falls back to Command"})
                continue
            rows.append((name, first, kind, orr, body, nested, tok, bool(_generate_as_hive(tree))))
    finally:
        lg.setLevel(lvl)
    return rows


def lean_pairs(ps) -> str:
    return "[" + ", ".join("(" + ", ".join(lean_str(x) for x in p) + ")" for p in ps) + "]"


def table_lean(t: dict) -> str:
    lv = t["levels"]

    def lvl(names):
        return "[" + ", ".join(lean_pairs(lv[n]) for n in names) + "]"

    return ("{ outer := " + lvl(["DISJUNCTION", "CONJUNCTION"]) + ",\n    mid := " + lvl(["EQUALITY", "COMPARISON"])
            + ",\n    lower := " + lvl(["BITWISE", "TERM", "FACTOR", "EXPONENT"]) + ",\n    genOps := " + lean_pairs(t["genOps"])
            + ",\n    rangeToks := [" + ", ".join(lean_str(x) for x in t["rangeToks"]) + "]"
            + ",\n    negGuard := ." + t["negGuard"] + ",\n    bnotGuard := ." + t["bnotGuard"]
            + ",\n    normalizeNotNull := " + ("true" if t["normalizeNotNull"] else "false")
            + ",\n    identStart := " + lean_str(t["identStart"]) + ",\n    identEnd := " + lean_str(t["identEnd"]) + " }")


def translate(chk: Check, tabs: dict) -> str:
    distinct: dict = {}
    names = {}
    for name in sorted(tabs):
        body = table_lean(tabs[name])
        if body not in distinct:
            distinct[body] = f"t{len(distinct)}"
        names[name] = distinct[body]
    tm = time_tables()
    base_inv = tm[""][1]
    lines = [
        "-- GENERATED by vf/props/c01.py from sqlglot/parser.py, sqlglot/parsers/*, sqlglot/generator.py, sqlglot/generators/*,",
        "-- sqlglot/dialects/dialect.py (live class attributes + ast). Do not edit.",
        "import SqlglotModel.Model.Expr",
        "import SqlglotModel.Model.Engine",
        "namespace SqlglotModel.Generated.C01",
        "open SqlglotModel.Expr",
    ]
    for body, nm in distinct.items():
        lines.append(f"def {nm} : Tables :=\n  {body}")
    lines.append("def distinctTables : List Tables := [" + ", ".join(distinct.values()) + "]")
    lines.append("def dialects : List (String × Tables) := [" + ", ".join(f"({lean_str(n)}, {names[n]})" for n in sorted(tabs)) + "]")
    lines.append("def baseTables : Tables := " + names[""])
    lines.append("def baseTimeMapping : List (String × String) := " + lean_pairs(tm[""][0]))
    lines.append("def baseInverseTimeMapping : List (String × String) := " + lean_pairs(base_inv))
    rows = athena_shape_table(chk)
    chk.cov["athena_engine_shapes"] = len(rows)
    b = lambda x: "true" if x else "false"  # noqa
    lines.append("/-- (shape name, shape, `_tokenize_as_hive` on the sample's tokens, `_generate_as_hive` on its parse) -/")
    lines.append("def athenaShapes : List (String × SqlglotModel.Engine.Shape × Bool × Bool) := [" + ", ".join(
        f"({lean_str(n)}, ⟨.{f}, .{k}, {b(o)}, .{bd}, {b(ns)}⟩, {b(t)}, {b(g)})" for n, f, k, o, bd, ns, t, g in rows) + "]")
    checks = annotate_type_checks(chk)
    chk.cov["annotate_then_is_type_sites"] = checks
    lines.append("/-- functions that annotate an expression and then test a type: (site, the tested expression is the annotated one) -/")
    lines.append("def annotateTypeChecks : List (String × Bool) := [" + ", ".join(f"({lean_str(n)}, {'true' if ok else 'false'})" for n, ok in checks) + "]")
    sites = paren_unwrap_sites(chk)
    chk.cov["paren_unwrap_sites"] = sites
    lines.append("/-- generator sites that unwrap a redundant Paren around an operand: (site, levels stripped) -/")
    lines.append("def parenUnwrapSites : List (String × SqlglotModel.Engine.Unwrap) := [" + ", ".join(f"({lean_str(n)}, .{k})" for n, k in sites) + "]")
    lines.append("end SqlglotModel.Generated.C01")
    chk.cov["distinct_table_sets"] = len(distinct)
    chk.cov["dialects"] = len(tabs)
    return "\n".join(lines) + "\n"


# ------------------------------------------------------------------------------------------ real side helpers
def real_tokens(dialect: str, s: str):
    _, _, Dialect, *_ = sg()
    return [[t.token_type.name, t.text] for t in Dialect.get_or_raise(dialect or None).tokenize(s)]


def sx(e, level_classes) -> str:
    """canonical S-expression of a real tree (same format as Model/Expr.lean `sexp`)"""
    _, exp, *_ = sg()
    t = type(e)

    def only(*keys):
        return all(v is None or v is False or v == [] or k in keys for k, v in e.args.items())

    if t is exp.Literal:
        return f'({"str" if e.is_string else "num"} "{e.this}")'
    if t is exp.Null:
        return "(null)"
    if t is exp.Boolean:
        return "(true)" if e.this else "(false)"
    if t is exp.Column and only("this", "table", "db", "catalog"):
        parts = [e.args.get(k) for k in ("catalog", "db", "table", "this")]
        parts = [p for p in parts if p is not None]
        if all(type(p) is exp.Identifier for p in parts):
            return "(col" + "".join(f' {"q" if p.args.get("quoted") else "u"}:{p.this}' for p in parts) + ")"
    if t is exp.Paren and only("this"):
        return f"(paren {sx(e.this, level_classes)})"
    if t is exp.Neg and only("this"):
        return f"(neg {sx(e.this, level_classes)})"
    if t is exp.Not and only("this"):
        return f"(not {sx(e.this, level_classes)})"
    if t is exp.BitwiseNot and only("this"):
        return f"(bnot {sx(e.this, level_classes)})"
    if t is exp.Is and type(e.expression) is exp.Null and only("this", "expression", "negate"):
        return f'({"isnotnull" if e.args.get("negate") else "isnull"} {sx(e.this, level_classes)})'
    if t is exp.In and only("this", "expressions"):
        return f"(in {sx(e.this, level_classes)}" + "".join(" " + sx(x, level_classes) for x in e.expressions) + ")"
    if t is exp.Between and only("this", "low", "high"):
        return f"(between {sx(e.this, level_classes)} {sx(e.args['low'], level_classes)} {sx(e.args['high'], level_classes)})"
    if t is exp.Like and only("this", "expression", "negate"):
        return f'({"notlike" if e.args.get("negate") else "like"} {sx(e.this, level_classes)} {sx(e.expression, level_classes)})'
    if t is exp.Anonymous and isinstance(e.this, str):
        return f"(func {e.this}" + "".join(" " + sx(x, level_classes) for x in e.expressions) + ")"
    if t.__name__ in level_classes and e.args.get("this") is not None and e.args.get("expression") is not None:
        return f"(bin {t.__name__} {sx(e.this, level_classes)} {sx(e.expression, level_classes)})"
    return f"(other {t.__name__})"


# ------------------------------------------------------------------------------------------ grammar-directed generator
FUNC_NAMES = ["FOO", "MY_FN", "ZZTOP"]
COLS = ["a", "b", "c", "x", "y", "col1"]
TABS = ["t", "u1"]


M_E0, M_E1, M_Q0, M_Q1, M_C0, M_C1 = "\u27e6", "\u27e7", "\u27ea", "\u27eb", "\u27ec", "\u27ed"   # derivation markers (expression / query / optional-clause spans)


def unmark(m: str) -> str:
    for c in (M_E0, M_E1, M_Q0, M_Q1, M_C0, M_C1):
        m = m.replace(c, "")
    return m


class Gen:
    """source text of the expression fragment, built level by level like the parser (so every parenthesisation,
    operator of every level, unary stack and negated range predicate is reachable)"""

    def __init__(self, rng, tab: dict, dialect: str, known_defects: bool = True):
        self.rng = rng
        self.tab = tab
        self.d = dialect
        plain = set(tab["plain"])
        self.plain = plain
        ops_by_class = {c: txt for c, _, txt in tab["genOps"]}
        tok_of_class = {c: tk for c, tk, _ in tab["genOps"]}
        self.level_ops = []
        for L in LEVELS:
            ops = [ops_by_class[cn] for tk, cn in tab["levels"][L] if cn in ops_by_class and tok_of_class[cn] == tk]
            self.level_ops.append(sorted(set(ops)))
        self.range_ok = tab["range_base"] and {"Is", "In", "Between", "Like", "Not", "Paren"} <= plain
        self.unary_ok = tab["base_unary"]
        self.quote_ok = tab["identStart"] in ('"', "`") and "Identifier" in plain and "Column" in plain
        self.known_defects = known_defects
        self.scale = 1.0
        self.mark = False

    def atom(self, depth):
        return self.wrap(self.atom0(depth))

    def wrap(self, s):
        return M_E0 + s + M_E1 if self.mark else s

    def atom0(self, depth):
        r = self.rng
        k = r.random()
        if depth > 0 and k < 0.16 and "Paren" in self.plain:
            return "(" + self.level(0, depth - 1) + ")"
        if depth > 0 and k < 0.22 and "Anonymous" in self.plain:
            n = r.choice([0, 1, 1, 2, 3])
            return r.choice(FUNC_NAMES) + "(" + ", ".join(self.level(0, depth - 1) for _ in range(n)) + ")"
        if k < 0.45 and "Literal" in self.plain:
            return r.choice(["1", "2", "10", "2.5", "0", "37"])
        if k < 0.52 and "Literal" in self.plain:
            return r.choice(["'s'", "'a b'", "'%x_'", "''"])
        if k < 0.56 and "Null" in self.plain:
            return "NULL"
        if k < 0.60 and "Boolean" in self.plain:
            return r.choice(["TRUE", "FALSE"])
        if "Column" not in self.plain:
            return "1"
        parts = [r.choice(COLS)]
        if r.random() < 0.25:
            parts.insert(0, r.choice(TABS))
            if r.random() < 0.2:
                parts.insert(0, "db")
        if self.quote_ok and r.random() < 0.12:
            i = r.randrange(len(parts))
            parts[i] = self.tab["identStart"] + r.choice(["Q w", "a", "Sel"]) + self.tab["identEnd"]
        return ".".join(parts)

    def unary(self, depth):
        r = self.rng
        s = self.atom(depth)
        if not self.unary_ok:
            return s
        while r.random() < 0.18 * self.scale:
            k = r.random()
            if k < 0.45 and "Neg" in self.plain:
                s = "- " + s
            elif k < 0.6 and "BitwiseNot" in self.plain:
                s = "~ " + s
            elif k < 0.7:
                s = "+ " + s
            elif "Not" in self.plain and depth > 0:
                # NOT parses its operand at *equality* level
                return "NOT " + self.level(2, depth - 1)
        return s

    def rng_pred(self, depth):
        """operand followed by range predicates (level between COMPARISON and BITWISE)"""
        r = self.rng
        s = self.level(4, depth)
        if not self.range_ok:
            return s
        n = 0
        while r.random() < self.scale * (0.22 if n == 0 else 0.12) and depth > 0:
            n += 1
            neg = r.random() < 0.35
            k = r.random()
            if k < 0.3:
                items = ", ".join(self.level(0, depth - 1) for _ in range(r.choice([1, 1, 2, 3])))
                s += (" NOT" if neg else "") + " IN (" + items + ")"
            elif k < 0.55:
                s += (" NOT" if neg else "") + " BETWEEN " + self.level(4, depth - 1) + " AND " + self.level(4, depth - 1)
            elif k < 0.8:
                s += (" NOT" if neg else "") + " LIKE " + self.level(4, depth - 1)
            else:
                s += " IS" + (" NOT" if neg else "") + " NULL"
        return s

    def level(self, i, depth):
        return self.wrap(self.level0(i, depth))

    def level0(self, i, depth):
        """i indexes LEVELS (0 = DISJUNCTION … 7 = EXPONENT); 8 = unary"""
        if i >= 8:
            return self.unary(depth)
        if i == 4:
            pass
        r = self.rng
        sub = (lambda: self.rng_pred(depth)) if i == 3 else (lambda: self.level(i + 1, depth))
        s = sub()
        ops = self.level_ops[i]
        p = self.scale * ([0.22, 0.22, 0.15, 0.12, 0.1, 0.18, 0.18, 0.12][i] if depth > 0 else 0.03)
        while ops and r.random() < p:
            s += " " + r.choice(ops) + " " + sub()
            p *= 0.5
        return s


# ------------------------------------------------------------------------------------------ correspondence
def correspond(chk: Check, tabs: dict) -> list:
    sqlglot, exp, Dialect, *_ = sg()
    rng = chk.rng
    n_per = chk.pick(70, 1500)
    depth = chk.pick(3, 4)
    cases = []
    level_classes_of = {}
    skipped = [d for d in sorted(tabs) if not tabs[d]["entry_ok"]]
    chk.cov["dialects_outside_model_correspondence"] = skipped  # no bare-expression entry, or a ladder method overridden
    for d in sorted(tabs):
        level_classes_of[d] = {cn for L in LEVELS for _, cn in tabs[d]["levels"][L]}
        if d in skipped:
            continue
        g = Gen(rng, tabs[d], d)
        k = n_per * (4 if d == "" else 1)
        for _ in range(k):
            cases.append((d, g.level(0, rng.choice([1, 2, 2, depth]))))
    # corpus: the DESIGN §6 shapes and boundary cases of neg_sql / unary plus
    for s in ["a NOT IN (1) < b", "a LIKE b NOT LIKE c", "a IS NOT NULL IS NULL", "- - 5", "-(-5)", "a - - b", "+ a", "NOT NOT a",
              "a NOT BETWEEN 1 AND 2 IS NULL", "a NOT LIKE b LIKE c", "a + NOT b = c", "a = NOT b AND c", "FOO()", "a NOT NULL",
              "a NOT IN (1) NOT IN (2)", "x BETWEEN 1 AND 2 AND y", "a < b < c = d <> e", "~ - ~ a", "a * (b + c) * d % e"]:
        cases.append(("", s))
    lines, real = [], []
    for d, s in cases:
        try:
            toks = real_tokens(d, s)
        except Exception as e:  # noqa
            raise HarnessError(f"generated text does not tokenize in {d!r}: {s!r}: {e}")
        lines.append(json.dumps({"op": "parse", "d": d, "toks": toks}))
        try:
            e = sqlglot.parse_one(s, dialect=d or None)
            real.append({"sexp": sx(e, level_classes_of[d]), "sql": e.sql(dialect=d or None)})
        except sqlglot.errors.ParseError:
            real.append({"err": "syntax"})
        except Exception as ex:  # noqa
            real.append({"err": "exc:" + type(ex).__name__})
    got = chk.driver("C01", lines)
    chk.corr_cases += len(cases)
    bad = []
    stats = {"model_ok": 0, "model_unsupported": 0, "reparse_same_tree": 0, "reparse_differs": 0}
    for (d, s), r, gl in zip(cases, real, got):
        m = json.loads(gl)
        chk.case((d, s), nontrivial=len(s) > 6, sample={"dialect": d, "sql": s} if len(chk.samples) < 6 else None)
        chk.count("corr:len<%d" % (10 * (1 + len(s) // 10)) if len(s) < 60 else "corr:len>=60")
        if "bad" in m:
            raise HarnessError(f"C01 driver rejected a request: {m}")
        if m.get("err") in ("unsupported", "trailing"):
            stats["model_unsupported"] += 1
            if "(other" not in r.get("sexp", "(other"):
                chk.correspondence_broken("model says outside the fragment, generator meant inside", {"dialect": d, "sql": s, "model": m, "impl": r})
                bad.append((d, s))
            continue
        if "err" in m or "err" in r:
            if m.get("err") != r.get("err"):
                chk.correspondence_broken("parse outcome", {"dialect": d, "sql": s, "model": m, "impl": r})
                bad.append((d, s))
            continue
        stats["model_ok"] += 1
        if m["sexp"] != r["sexp"]:
            chk.correspondence_broken("tree (S-expression)", {"dialect": d, "sql": s, "model": m["sexp"], "impl": r["sexp"]})
            bad.append((d, s))
            continue
        if m["sql"] != r["sql"]:
            chk.correspondence_broken("printed text", {"dialect": d, "sql": s, "model": m["sql"], "impl": r["sql"]})
            bad.append((d, s))
            continue
        # (c) the model's token list is what the real tokenizer sees in the printed text
        try:
            rt = real_tokens(d, m["sql"])
        except Exception as ex:  # noqa
            rt = "tokenize failed: " + type(ex).__name__
        if rt != m["toks"]:
            chk.correspondence_broken("tokens of the printed text", {"dialect": d, "sql": m["sql"], "model": m["toks"], "impl": rt})
            bad.append((d, s))
            continue
        stats["reparse_same_tree" if m["sexp2"] == m["sexp"] else "reparse_differs"] += 1
        for w in re.findall(r"\((\w+)", m["sexp"]):
            chk.count("node:" + w)
    chk.cov["correspondence_expr"] = stats
    return bad


def correspond_time(chk: Check) -> None:
    """format_time vs Model/TimeFmt on generated mappings and strings (incl. the real dialect mappings)"""
    from sqlglot.time import format_time

    rng = chk.rng
    tm = time_tables()
    maps = [m for pair in tm.values() for m in pair if m]
    uniq = []
    for m in maps:
        if m not in uniq:
            uniq.append(m)
    cases = []
    alphabet = "%YmdHMSyab-: fx"
    for _ in range(chk.pick(600, 20000)):
        if rng.random() < 0.5 and uniq:
            m = rng.choice(uniq)
            keys = [k for k, _ in m]
            s = "".join(rng.choice(keys + list("-:/ T%Yx")) for _ in range(rng.randint(0, 6)))
        else:
            ks = set()
            for _ in range(rng.randint(0, 5)):
                ks.add("".join(rng.choice("ab%x") for _ in range(rng.randint(1, 4))))
            m = sorted((k, rng.choice(["<1>", "Q", "", k.upper()])) for k in ks)
            s = "".join(rng.choice("ab%xy") for _ in range(rng.randint(0, 8)))
        cases.append((s, [list(p) for p in m]))
    cases.append(("", []))
    cases.append(("%Y-%m-%d", []))
    lines = [json.dumps({"op": "ft", "s": s, "m": m}) for s, m in cases]
    got = chk.driver("C01", lines)
    chk.corr_cases += len(cases)
    for (s, m), gl in zip(cases, got):
        r = json.loads(gl).get("r", "?")
        try:
            e = format_time(s, dict(map(tuple, m)))
            e = None if e is None else "=" + e
        except Exception as ex:  # noqa
            e = "!internal"
        chk.count("ft:" + ("none" if e is None else "mapped" if e != "=" + s else "identity"))
        if r != e:
            chk.correspondence_broken("format_time", {"string": s, "mapping": m, "model": r, "impl": e})


# ------------------------------------------------------------------------------------------ time formats (structure + sweep)
def format_time_call_smells(chk: Check) -> None:
    """`self.format_time(e, <mapping>)` without its own trie chunks the string with the DIALECT's trie: flag it"""
    import glob

    files = sorted(glob.glob(os.path.join(REPO, "sqlglot", "generators", "*.py")) + glob.glob(os.path.join(REPO, "sqlglot", "dialects", "*.py")))
    files.append(os.path.join(REPO, "sqlglot", "generator.py"))
    smells = []
    ncalls = 0
    for f in files:
        try:
            tree = ast.parse(open(f, encoding="utf-8").read())
        except Exception:  # noqa
            continue
        for n in ast.walk(tree):
            if not (isinstance(n, ast.Call) and isinstance(n.func, ast.Attribute) and n.func.attr == "format_time"):
                continue
            recv = n.func.value
            is_method = (isinstance(recv, ast.Name) and recv.id == "self") or (isinstance(recv, ast.Call) and isinstance(recv.func, ast.Name) and recv.func.id == "super")
            if not is_method:
                continue
            ncalls += 1
            kws = {k.arg for k in n.keywords}
            has_map = "inverse_time_mapping" in kws or len(n.args) >= 2
            has_trie = "inverse_time_trie" in kws or len(n.args) >= 3
            if has_map and not has_trie:
                smells.append(f"{os.path.relpath(f, REPO)}:{n.lineno}")
    chk.cov["format_time_method_calls"] = ncalls
    if smells:
        chk.broken.append({"kind": "translator", "what": "C01: Generator.format_time called with an explicit inverse mapping but without that "
                                                         f"mapping's trie (the dialect's own trie is used to chunk it): {smells}"})


def formatted_functions(d: str):
    """parser FUNCTIONS entries built by build_formatted_time: (sql name, dialect whose notation the format uses, class)"""
    _, _, Dialect, *_ = sg()
    inst = Dialect.get_or_raise(d or None)
    out = []
    for name, fn in sorted(inst.parser_class.FUNCTIONS.items()):
        if getattr(getattr(fn, "func", fn), "__name__", "") == "build_timetostr_or_tochar" or "build_timetostr_or_tochar" in getattr(fn, "__qualname__", ""):
            out.append((name, d, "TimeToStrOrToChar"))   # picks TimeToStr / ToChar from the TYPE of its first argument
        elif getattr(fn, "__qualname__", "").startswith("build_formatted_time.") and getattr(fn, "__closure__", None):
            cells = dict(zip(fn.__code__.co_freevars, (c.cell_contents for c in fn.__closure__)))
            ov = cells.get("dialect_override")
            out.append((name, ov if isinstance(ov, str) else d, cells["exp_class"].__name__))
    return out


TIME_CLASSES = ["StrToTime", "TimeToStr", "StrToDate", "UnixToStr", "UnixToTime", "TsOrDsToDate", "ToChar", "StrToUnix", "TsOrDsToTimestamp"]


def time_sweep(chk: Check, dialects: list, consider_fixed, deadline: float) -> None:
    """every specifier of the notation each time-format function is parsed with, individually (exhaustive) and in pairs
    (all `a-b`, sampled `ab`), as SOURCE text `F(x, '<fmt>')`; plus, for every function class with a format argument,
    the text the dialect generates for every canonical specifier of its inverse mapping(s)"""
    _, exp, Dialect, *_ = sg()
    from sqlglot.errors import ErrorLevel

    rng = chk.rng
    n_single = n_pair = n_gen = 0
    for d in dialects:
        if time.time() > deadline:
            chk.note("time-format sweep cut short by the time budget")
            break
        try:
            fns = formatted_functions(d)
        except Exception:  # noqa
            continue
        for name, notation, cls in fns:
            try:
                specs = sorted(k for k in Dialect.get_or_raise(notation or None).TIME_MAPPING if "'" not in k and "\\" not in k)
            except Exception:  # noqa
                continue
            for sp in specs:
                n_single += 1
                consider_fixed(f"SELECT {name}(x, '{sp}')", d, f"timefmt:{name}:{sp}")
            pairs = [(a, b) for a in specs for b in specs]
            k = chk.pick(25, len(pairs))
            for a, b in (rng.sample(pairs, min(k, len(pairs))) if pairs else []):
                n_pair += 1
                consider_fixed(f"SELECT {name}(x, '{a}-{b}')", d, f"timefmt:{name}:{a}-{b}")
                if rng.random() < chk.pick(0.3, 1.0):
                    consider_fixed(f"SELECT {name}(x, '{a}{b}')", d, f"timefmt:{name}:{a}{b}")
        # generated spellings of every class with a format argument, canonical specifiers of every inverse mapping in reach
        inst = Dialect.get_or_raise(d or None)
        canon = set(inst.INVERSE_TIME_MAPPING)
        for attr in dir(type(inst)):
            if "INVERSE_TIME_MAPPING" in attr and isinstance(getattr(inst, attr, None), dict):
                canon |= set(getattr(inst, attr))
        canon |= {"%Y", "%m", "%d", "%H", "%M", "%S"}
        for cn in TIME_CLASSES:
            K = getattr(exp, cn, None)
            if K is None or "format" not in K.arg_types:
                continue
            for c in sorted(x for x in canon if "'" not in x):
                try:
                    txt = K(this=exp.column("x"), format=exp.Literal.string(c)).sql(dialect=d or None, unsupported_level=ErrorLevel.RAISE)
                except Exception:  # noqa
                    continue
                n_gen += 1
                consider_fixed("SELECT " + txt, d, f"timefmt-gen:{cn}:{c}")
    chk.cov["time_format_sweep"] = {"single_specifier_sources": n_single, "pair_sources": n_pair, "generated_spellings": n_gen}


# ------------------------------------------------------------------------------------------ engine / mode switches
def mode_switch_dialects() -> list:
    """dialects that decide an engine / mode per statement on BOTH sides: their Tokenizer.tokenize, Parser.parse or
    Generator.generate is overridden (today: athena, Hive vs Trino)"""
    _, _, Dialect, _, Generator, Parser = sg()
    from sqlglot.tokens import Tokenizer

    out = []
    for name in all_dialects():
        try:
            inst = Dialect.get_or_raise(name or None)
        except Exception:  # noqa
            continue
        if (getattr(inst.tokenizer_class, "tokenize", None) is not Tokenizer.tokenize
                or getattr(inst.parser_class, "parse", None) is not Parser.parse
                or getattr(inst.generator_class, "generate", None) is not Generator.generate):
            out.append(name)
    return out


ENGINE_S1 = "SELECT 'it''s' AS x, a[1] AS y, \"q c\", DATE_ADD('day', 1, d), CAST(z AS VARCHAR) || 'y' FROM \"b\""
ENGINE_S2 = "SELECT 'b', c[1], z, d, 'w' FROM d2"
ENGINE_BODIES = {
    "select": ENGINE_S1, "union": f"{ENGINE_S1} UNION ALL {ENGINE_S2}", "except": f"{ENGINE_S1} EXCEPT {ENGINE_S2}",
    "intersect": f"{ENGINE_S1} INTERSECT {ENGINE_S2}", "paren": f"({ENGINE_S1})", "paren-union": f"({ENGINE_S1} UNION {ENGINE_S2})",
    "with": f"WITH c AS ({ENGINE_S1}) SELECT * FROM c", "with-union": f"WITH c AS ({ENGINE_S2}) {ENGINE_S1} UNION SELECT * FROM c",
    "values": "VALUES (1, 'it''s')", "subquery": f"SELECT * FROM ({ENGINE_S1}) AS s", "subquery-union": f"SELECT * FROM ({ENGINE_S1} UNION {ENGINE_S2}) AS s",
}
ENGINE_WRAPPERS = ["CREATE TABLE t AS {b}", "CREATE TABLE IF NOT EXISTS t AS {b}", "CREATE TABLE t WITH (format='PARQUET') AS {b}",
                   "CREATE TABLE \"T 1\" AS {b}", "CREATE VIEW v AS {b}", "CREATE OR REPLACE VIEW v AS {b}", "INSERT INTO t {b}", "{b}"]


def engine_templates():
    """every Query kind as the body of CTAS / VIEW / INSERT / bare statement, carrying the constructs two engines spell
    differently (string with a quote, subscript, quoted identifier, DATE_ADD, ||)"""
    for w in ENGINE_WRAPPERS:
        for k, b in ENGINE_BODIES.items():
            yield w.format(b=b)


TEMPORAL_ARG_CLASSES = ["TsOrDsToDate", "TsOrDsToTimestamp", "LastDay", "CurrentDate", "CurrentTimestamp", "Date", "TimeStrToDate", "TimeStrToTime",
                        "DateTrunc", "TimestampTrunc", "UnixToTime", "DateFromParts", "StrToDate", "StrToTime", "CurrentTime", "Localtimestamp"]
TEMPORAL_ARG_TEXTS = ["x", "CAST(x AS DATE)", "CAST(x AS TIMESTAMP)", "TO_DATE(x)", "TO_TIMESTAMP(x)", "LAST_DAY(x)", "CURRENT_DATE", "CURRENT_TIMESTAMP",
                      "DATE_TRUNC('month', x)", "TO_DATE(x, 'YYYY-MM-DD')", "NOW()", "(CAST(x AS DATE))", "COALESCE(CAST(x AS DATE), CURRENT_DATE)"]


def temporal_first_args(d: str) -> list:
    """first-argument texts for a time-format function of dialect d: fixed spellings plus the text d's own generator produces for
    every temporal-returning function class (several of them come out as a CAST or another differently typed expression)"""
    _, exp, *_ = sg()
    from sqlglot.errors import ErrorLevel

    out = list(TEMPORAL_ARG_TEXTS)
    for cn in TEMPORAL_ARG_CLASSES:
        K = getattr(exp, cn, None)
        if K is None:
            continue
        try:
            node = K(this=exp.column("x")) if "this" in K.arg_types else K()
            if cn in ("DateTrunc", "TimestampTrunc"):
                node.set("unit", exp.Literal.string("MONTH") if cn == "DateTrunc" else exp.var("MONTH"))
            txt = node.sql(dialect=d or None, unsupported_level=ErrorLevel.IGNORE)
        except Exception:  # noqa
            continue
        if txt and txt not in out and "'" not in txt.replace("'MONTH'", ""):
            out.append(txt)
    return out


def noncanonical_formats(notation: str) -> list:
    """format strings in the notation's NON-canonical spellings (raw specifiers that do not come back from the inverse mapping),
    alone and as a date-like triple; plus the canonical triple as a control"""
    _, _, Dialect, *_ = sg()
    inst = Dialect.get_or_raise(notation or None)
    tm, inv = inst.TIME_MAPPING, inst.INVERSE_TIME_MAPPING
    non = sorted(k for k, v in tm.items() if inv.get(v) != k and "'" not in k and "\\" not in k)
    by_canon = {}
    for k in non:
        by_canon.setdefault(tm[k], k)
    triple = [by_canon.get(c) or inv.get(c) for c in ("%Y", "%m", "%d")]
    fmts = []
    if all(triple):
        fmts.append("-".join(triple))
    canon_triple = [inv.get(c) for c in ("%Y", "%m", "%d")]
    if all(canon_triple):
        fmts.append("-".join(canon_triple))
    fmts += non
    return fmts


def time_arg_sweep(chk: Check, dialects: list, consider_fixed, deadline: float) -> None:
    """time-format functions x first-argument kinds x non-canonical format spellings: s2 == s1 (the format must not be re-spelled
    on the second pass because the first argument changed shape on the first)"""
    n = 0
    for d in dialects:
        if time.time() > deadline:
            chk.note("time-format first-argument sweep cut short by the time budget")
            break
        try:
            fns = formatted_functions(d)
            args = temporal_first_args(d)
        except Exception:  # noqa
            continue
        if chk.quick:
            args = args[:10] + args[13:19]
        for name, notation, cls in fns:
            try:
                fmts = noncanonical_formats(notation)
            except Exception:  # noqa
                continue
            for f in fmts[: chk.pick(5, 40)]:
                for a in args:
                    n += 1
                    consider_fixed(f"SELECT {name}({a}, '{f}')", d, f"timefmt-arg:{name}:{a}:{f}")
    chk.cov["time_format_first_argument_sweep"] = {"sources": n}


# prefix operator x operand whose rendering can start with the same character in SOME dialect (calls that dialects print
# as infix/postfix operators with a signed first argument, signed literals)
PREFIXES = ["-", "- ", "~", "~ ", "NOT ", "+"]
OPERAND_FORMS = ["MOD({a}, b)", "POWER({a}, 2)", "POW({a}, 2)", "CONCAT({a}, b)", "CAST({a} AS INT)", "TRY_CAST({a} AS INT)", "DIV({a}, b)",
                 "BITWISE_AND({a}, b)", "BITWISE_OR({a}, b)", "BITWISE_XOR({a}, b)", "BITAND({a}, b)", "BITOR({a}, b)", "BITXOR({a}, b)",
                 "BITWISE_NOT({a})", "BITNOT({a})", "SAFE_DIVIDE({a}, b)", "COALESCE({a}, b)", "IFNULL({a}, b)", "NVL({a}, b)", "ABS({a})",
                 "{a} || b", "{a}::INT", "{a} % b", "{a} ** 2", "{a} DIV b", "{a} IS NULL", "{a} IN (1)", "{a} BETWEEN 1 AND 2", "{a}",
                 "({a})", "ARRAY_CONCAT({a}, b)", "DPIPE({a}, b)", "NEG({a})", "LEFT_SHIFT({a}, 1)", "SHIFTLEFT({a}, 1)", "{a} << 1",
                 "JSON_EXTRACT({a}, '$.x')", "GET_PATH({a}, 'x')", "{a}[0]", "{a}.b", "STRUCT_EXTRACT({a}, 'b')", "IF({a}, 1, 2)", "IIF({a}, 1, 2)"]
INNER = ["-a", "- a", "~a", "-1", "-1.5", "- -a", "~ ~a", "NOT a", "-(a)", "-f(a)"]


PAREN_FORMS = ["{x} % {y}", "MOD({x}, {y})", "{x} DIV {y}", "DIV({x}, {y})", "{x} ** {y}", "POWER({x}, {y})", "POW({x}, {y})", "{x} || {y}",
               "CONCAT({x}, {y})", "{x} & {y}", "BITWISE_AND({x}, {y})", "{x} | {y}", "{x} ^ {y}", "BITWISE_XOR({x}, {y})", "{x} << {y}",
               "{x} / {y}", "SAFE_DIVIDE({x}, {y})", "{x} + {y}", "{x} - {y}", "{x} * {y}", "-{x}", "~{x}", "NOT {x}", "{x} IS NULL",
               "{x} IN ({y})", "CAST({x} AS INT)", "{x}::INT", "COALESCE({x}, {y})", "IF({x}, 1, 2)", "{x} BETWEEN {y} AND 9", "ABS({x})",
               "{x} = {y}", "{x} AND {y}", "{x} LIKE {y}", "NULLIF({x}, {y})", "GREATEST({x}, {y})", "{x}[1]", "LOG({x}, {y})",
               "INTDIV({x}, {y})", "BITWISE_LEFT_SHIFT({x}, {y})", "SHIFTLEFT({x}, {y})", "ARRAY_CONCAT({x}, {y})"]


def wrap_parens(text: str, depth: int) -> str:
    return "(" * depth + text + ")" * depth


def paren_depth_product(full: bool):
    """redundant parenthesis depth (1-3 levels) around the operands of every operator / function that some dialect rewrites
    between infix and call form"""
    inners = ["a + 1", "a"] if not full else ["a + 1", "a", "-a", "f(a)", "a = 1"]
    for f in PAREN_FORMS:
        for inner in inners:
            for dx in (1, 2, 3):
                yield "SELECT " + f.format(x=wrap_parens(inner, dx), y="7")
            yield "SELECT " + f.format(x="b", y=wrap_parens(inner, 2))
            if full:
                yield "SELECT " + f.format(x=wrap_parens(inner, 2), y=wrap_parens(inner, 3))
                yield "SELECT 1 FROM t WHERE c = " + f.format(x=wrap_parens(inner, 2), y="7")


def prefix_product(full: bool):
    """quick tier: 3 prefixes x all operand forms x 4 signed first arguments; thorough: the whole product, two contexts"""
    prefixes = PREFIXES if full else ["-", "~", "NOT "]
    inner = INNER if full else ["-a", "~a", "-1", "NOT a"]
    for p in prefixes:
        for f in OPERAND_FORMS:
            for a in inner:
                yield "SELECT " + p + f.format(a=a)
                if full:
                    yield "SELECT 1 FROM t WHERE b = " + p + f.format(a=a)


# ------------------------------------------------------------------------------------------ search (property oracle)
TYPES = ["INT", "TEXT", "DECIMAL(10, 2)", "DATE", "BIGINT", "VARCHAR(10)", "TIMESTAMP"]
KNOWN_FUNCS = ["COALESCE({0}, {1})", "ABS({0})", "LOWER({0})", "UPPER({0})", "LENGTH({0})", "ROUND({0}, 2)", "NULLIF({0}, {1})",
               "CONCAT({0}, {1})", "MAX({0})", "MIN({0})", "SUM({0})", "COUNT(*)", "COUNT(DISTINCT {0})", "AVG({0})"]
TIME_FUNCS = ["TIME_TO_STR({0}, '{f}')", "STR_TO_TIME({0}, '{f}')", "STR_TO_DATE({0}, '{f}')", "TO_CHAR({0}, '{f}')",
              "DATE_FORMAT({0}, '{f}')", "STRFTIME({0}, '{f}')", "STRFTIME('{f}', {0})", "FORMAT_DATE('{f}', {0})",
              "TO_DATE({0}, '{f}')", "STR_TO_UNIX({0}, '{f}')", "PARSE_TIMESTAMP('{f}', {0})", "TO_TIMESTAMP({0}, '{f}')"]
TIME_FMTS = ["%Y-%m-%d", "%Y-%m-%d %H:%M:%S", "%d/%m/%y", "%H:%M", "yyyy-MM-dd", "YYYY-MM-DD HH24:MI:SS", "%Y%m%d", "%b %e, %Y",
             "%-d %B", "%j", "dd.MM.yyyy", "%Y-%m-%dT%H:%M:%S.%f", "%%Y", "%y%", "HH:mm:ss"]


class QGen:
    """richer grammar for the oracle on the real code: SELECT with joins / subqueries / CTEs / set ops / windows / casts"""

    def __init__(self, rng, base_tab):
        self.rng = rng
        self.g = Gen(rng, base_tab, "")
        self.g.scale = 0.55
        self.g.mark = True
        self.g.atom_base = self.g.atom0
        self.g.atom0 = self.atom

    def atom(self, depth):
        r = self.rng
        k = r.random()
        if depth > 0 and k < 0.07:
            return "CAST(" + self.g.level(0, depth - 1) + " AS " + r.choice(TYPES) + ")"
        if depth > 0 and k < 0.16:
            f = r.choice(KNOWN_FUNCS)
            return f.format(self.g.level(4, depth - 1), self.g.level(4, depth - 1))
        if depth > 0 and k < 0.21:
            return ("CASE WHEN " + self.g.level(0, depth - 1) + " THEN " + self.g.level(4, depth - 1)
                    + (" ELSE " + self.g.level(4, depth - 1) if r.random() < 0.6 else "") + " END")
        if depth > 0 and k < 0.25:
            return r.choice(TIME_FUNCS).format(self.g.level(8, depth - 1), f=r.choice(TIME_FMTS))
        if depth > 0 and k < 0.28:
            return ("SUM(" + self.g.level(5, depth - 1) + ") OVER (PARTITION BY " + self.g.level(4, depth - 1)
                    + (" ORDER BY " + self.order(depth - 1) if r.random() < 0.6 else "") + ")")
        if depth > 1 and k < 0.31:
            return "(" + self.select(depth - 2, single=True) + ")"
        if depth > 0 and k < 0.33:
            return "EXISTS (" + self.select(depth - 1) + ")"
        return self.g.atom_base(depth)

    def order(self, depth):
        r = self.rng
        s = self.g.level(r.choice([0, 4]), depth)
        if r.random() < 0.4:
            s += M_C0 + r.choice([" DESC", " ASC"]) + M_C1
        if r.random() < 0.35:
            s += M_C0 + r.choice([" NULLS FIRST", " NULLS LAST"]) + M_C1
        return s

    def source(self, depth):
        r = self.rng
        if depth > 0 and r.random() < 0.25:
            return "(" + self.query(depth - 1) + ") AS " + r.choice(["s", "q1"])
        t = r.choice(["t", "u1", "db.t"])
        return t + (M_C0 + " AS " + r.choice(["x", "y"]) + M_C1 if r.random() < 0.4 else "")

    def select(self, depth, single=False):
        return M_Q0 + self.select0(depth, single) + M_Q1

    def query(self, depth):
        return M_Q0 + self.query0(depth) + M_Q1

    def select0(self, depth, single=False):
        r = self.rng
        n = 1 if single else r.choice([1, 1, 2, 3])
        items = []
        for i in range(n):
            it = self.g.level(0, depth)
            if r.random() < 0.3:
                it += M_C0 + " AS " + r.choice(["c1", "c2", "z"]) + M_C1
            items.append(it)
        s = "SELECT " + (M_C0 + "DISTINCT " + M_C1 if r.random() < 0.1 else "") + items[0] + "".join(M_C0 + ", " + it + M_C1 for it in items[1:])
        if r.random() < 0.85:
            s += " FROM " + self.source(depth)
            while r.random() < 0.3:
                jk = r.choice(["JOIN", "LEFT JOIN", "INNER JOIN", "CROSS JOIN", "FULL JOIN"])
                j = " " + jk + " " + self.source(depth)
                if jk != "CROSS JOIN":
                    j += " ON " + self.g.level(0, depth)
                s += M_C0 + j + M_C1
            if r.random() < 0.45:
                s += M_C0 + " WHERE " + self.g.level(0, depth) + M_C1
            if r.random() < 0.2:
                gb = " GROUP BY " + ", ".join(self.g.level(4, depth) for _ in range(r.choice([1, 2])))
                if r.random() < 0.4:
                    gb += M_C0 + " HAVING " + self.g.level(0, depth) + M_C1
                s += M_C0 + gb + M_C1
            if r.random() < 0.3:
                s += M_C0 + " ORDER BY " + ", ".join(self.order(depth) for _ in range(r.choice([1, 1, 2]))) + M_C1
            if r.random() < 0.2:
                s += M_C0 + " LIMIT " + r.choice(["1", "10"]) + M_C1
        return s

    def query0(self, depth):
        r = self.rng
        s = self.select(depth)
        if depth > 0 and r.random() < 0.15:
            s += " " + r.choice(["UNION", "UNION ALL", "INTERSECT", "EXCEPT"]) + " " + self.select(depth - 1)
        if depth > 0 and r.random() < 0.15:
            s = "WITH cte AS (" + self.select(depth - 1) + ") " + s
        return s


def verdict(s: str, d: str):
    """None if the property holds for source text s in dialect d (or s does not parse in d), else (kind, detail)"""
    sqlglot, exp, *_ = sg()
    from sqlglot.errors import SqlglotError, ErrorLevel

    dd = d or None
    # generation that sqlglot itself flags as lossy (UnsupportedError under unsupported_level=RAISE) is not a
    # same-dialect rendering of s: such inputs are skipped, not counted as violations
    try:
        e = sqlglot.parse_one(s, dialect=dd)
        s1 = e.sql(dialect=dd, unsupported_level=ErrorLevel.RAISE)
    except SqlglotError:
        return None
    except Exception:  # noqa  (internal errors on the way in are C05's subject)
        return None
    try:
        e1 = sqlglot.parse_one(s1, dialect=dd)
    except Exception as ex:  # noqa
        return "noparse", f"generated text does not parse again: {s1!r}: {type(ex).__name__}"
    try:
        s2 = e1.sql(dialect=dd, unsupported_level=ErrorLevel.IGNORE)
    except Exception as ex:  # noqa
        return "noparse", f"re-parsed tree does not generate: {s1!r}: {type(ex).__name__}"
    if s2 != s1:
        return "text", f"not idempotent: {s1!r} -> {s2!r}"
    if d == "" and e1 != e:
        return "tree", f"base dialect: tree changed on re-parse of {s1!r}"
    return None


def skeleton(s: str, d: str) -> str:
    """identifiers -> id, numbers -> n, strings -> lit; keywords, operators and the names of called functions are kept"""
    try:
        toks = real_tokens(d, s)
    except Exception:  # noqa
        return "untokenizable"
    out = []
    for i, (ty, text) in enumerate(toks):
        nxt = toks[i + 1][0] if i + 1 < len(toks) else None
        if ty == "VAR" and nxt == "L_PAREN":
            out.append(text.upper())
        elif ty in ("VAR", "IDENTIFIER"):
            out.append("id")
        elif ty == "NUMBER":
            out.append("n")
        elif ty == "STRING":
            out.append("lit")
        else:
            out.append(text.upper())
    return " ".join(out)


def spans(m: str):
    out, st = [], []
    for i, ch in enumerate(m):
        if ch in (M_E0, M_Q0, M_C0):
            st.append((ch, i))
        elif ch in (M_E1, M_Q1, M_C1) and st:
            k, a = st.pop()
            out.append(("E" if k == M_E0 else "Q" if k == M_Q0 else "C", a, i))
    return out


def shrink(m: str, d: str, kind: str, deadline: float) -> str:
    """grammar-directed delta debugging on the marked derivation of the SOURCE text (candidates stay inside the core
    grammar): a span is replaced by one of its inner spans of the same kind or by the leaf `a`; a whole expression or
    query span is promoted to the statement.  A candidate is kept when the oracle gives the same verdict kind."""
    def ok(c):
        v = verdict(unmark(c), d)
        return v is not None and v[0] == kind

    cur = m
    progress = True
    while progress and time.time() < deadline:
        progress = False
        sp = spans(cur)
        cands = []
        for k, a, b in sp:
            if k == "C":
                cands.append(cur[:a] + cur[b + 1:])
                continue
            cands.append((M_Q0 + "SELECT " + cur[a:b + 1] + M_Q1) if k == "E" else cur[a:b + 1])
            for k2, a2, b2 in sp:
                if k2 == k and a < a2 and b2 < b:
                    cands.append(cur[:a] + cur[a2:b2 + 1] + cur[b + 1:])
            if k == "E" and unmark(cur[a:b + 1]) not in ("a", "1"):
                cands.append(cur[:a] + M_E0 + "a" + M_E1 + cur[b + 1:])
                cands.append(cur[:a] + M_E0 + "1" + M_E1 + cur[b + 1:])
        n0 = len(unmark(cur))
        cands = sorted(set(c for c in cands if len(unmark(c)) < n0), key=lambda c: len(unmark(c)))
        for c in cands:
            if time.time() > deadline:
                break
            if ok(c):
                cur = c
                progress = True
                break
    return unmark(cur)


SEARCH_TEMPLATES = [
    "SELECT a NOT IN (1) < b", "SELECT a LIKE b NOT LIKE c", "SELECT a IS NOT NULL IS NULL", "SELECT ~ ~ a", "SELECT - - a",
    "SELECT a FROM t ORDER BY x NOT LIKE y NULLS LAST", "SELECT (a - x) % b", "SELECT 1.5 IS NOT NULL IS NULL",
    "SELECT a FROM t ORDER BY a IS NULL NULLS LAST", "SELECT a NOT BETWEEN 1 AND 2 = b", "SELECT NOT a = b", "SELECT a - -b",
    "SELECT TIME_TO_STR(x, '%Y-%m-%d')", "SELECT STR_TO_TIME(x, '%Y%')", "SELECT a IS NULL IS NOT NULL",
]


def search(chk: Check, hints: list, tabs: dict, budget_s: float) -> None:
    t0 = time.time()
    rng = chk.rng
    dialects = sorted(tabs)
    qg = QGen(rng, tabs[""])
    tried = found = 0
    seen_keys: dict = {}

    def consider(s, d):
        nonlocal tried, found
        tried += 1
        m, s = s, unmark(s)
        v = verdict(s, d)
        chk.count("search:" + ("holds" if v is None else v[0]))
        if v is None:
            return
        found += 1
        small = shrink(m, d, v[0], time.time() + 10.0)
        v2 = verdict(small, d) or v
        key = v2[0] + ":" + skeleton(small, d)
        seen_keys.setdefault(key, set()).add(d)
        chk.report_violation(key, f"[{d or 'base'}] {v2[1]}", {"dialect": d, "sql": small, "original": s}, {"dialect": d})

    def consider_fixed(s, d, label=None):
        """deterministic sweep inputs: no shrinking (they are minimal); `label` replaces the skeleton in the key"""
        nonlocal tried, found
        tried += 1
        v = verdict(s, d)
        chk.count("sweep:" + ("holds" if v is None else v[0]))
        if v is None:
            return
        found += 1
        key = v[0] + ":" + (label if label else skeleton(s, d))
        seen_keys.setdefault(key, set()).add(d)
        chk.report_violation(key, f"[{d or 'base'}] {v[1]}", {"dialect": d, "sql": s}, {"dialect": d})

    for d, s in hints:
        consider(s if s.upper().startswith(("SELECT", "WITH")) else "SELECT " + s, d)
    for s in SEARCH_TEMPLATES:
        for d in dialects:
            consider(s, d)
    t1 = time.time()
    prod = list(prefix_product(not chk.quick))
    for d in dialects:
        for s in prod:
            consider_fixed(s, d)
    chk.cov["prefix_operator_product"] = {"sources": len(prod), "dialects": len(dialects), "wall_s": round(time.time() - t1, 1)}
    t1 = time.time()
    pprod = list(paren_depth_product(not chk.quick))
    for d in dialects:
        for s in pprod:
            consider_fixed(s, d)
    chk.cov["paren_depth_product"] = {"sources": len(pprod), "dialects": len(dialects), "wall_s": round(time.time() - t1, 1)}
    msd = mode_switch_dialects()
    chk.cov["mode_switch_dialects"] = msd
    for d in msd:
        for s in engine_templates():
            consider_fixed(s, d)
    t1 = time.time()
    time_sweep(chk, dialects, consider_fixed, time.time() + chk.pick(40, 600))
    chk.cov["time_format_sweep"]["wall_s"] = round(time.time() - t1, 1)
    t1 = time.time()
    time_arg_sweep(chk, dialects, consider_fixed, time.time() + chk.pick(25, 600))
    chk.cov["time_format_first_argument_sweep"]["wall_s"] = round(time.time() - t1, 1)
    t0 = time.time()  # the random search gets its own budget
    while time.time() - t0 < budget_s and len(chk.violations) < 5:
        depth = rng.choice([0, 1, 1, 2])
        s = qg.query(depth) if rng.random() < 0.7 else "SELECT " + qg.g.level(0, depth)
        chk.case(("search", s), nontrivial=True)
        ds = [""] + rng.sample(dialects, 6)
        for d in ds:
            consider(s, d)
            if time.time() - t0 > budget_s:
                break
    chk.search_info = {"ran": True, "budget_s": budget_s, "statement_dialect_pairs": tried, "violating": found,
                       "distinct_minimised_skeletons": {k: sorted(v) for k, v in sorted(seen_keys.items())},
                       "oracle": "s1 = gen(parse(s)) parses; gen(parse(s1)) == s1; base dialect: parse(s1) == parse(s)"}


# ------------------------------------------------------------------------------------------ run
def run(chk: Check) -> None:
    chk.trusted.append("C01: hand-written token-level model Model/{Expr,Parse,Gen,TimeFmt}.lean of the expression ladder of "
                       "sqlglot/parser.py, the matching Generator methods and sqlglot.time.format_time; the real tokenizer is "
                       "not modelled (token types/texts are shipped; the printed text is re-tokenised by the real tokenizer)")
    chk.assumptions += [
        "parse_gen_partial covers the expression core: atoms, dotted columns, Paren, unary, every ladder binary, IS [NOT] NULL, "
        "[NOT] IN (list), [NOT] BETWEEN, [NOT] LIKE (negate flag), calls of unknown functions with argument lists, in Fits "
        "(faithful) position; the image direction (every parser output is Fits or a known defect shape) is NOT proved, it is "
        "monitored per sample (model re-parse of every printed tree); SELECT/joins/CTEs/set operations/windows/casts are covered "
        "by the search oracle only",
        "string and identifier escaping is C04's subject: generated literals contain no quote characters",
    ]
    import logging

    logging.getLogger("sqlglot").setLevel(logging.ERROR)
    tabs = dialect_tables(chk)
    format_time_call_smells(chk)
    chk.write_generated(translate(chk, tabs))
    proved = chk.prove(MODULES, "Properties.C01", THEOREMS)
    hints = []
    try:
        hints = correspond(chk, tabs)
        correspond_time(chk)
    except HarnessError as e:
        if proved:
            raise
        chk.note(f"model driver unavailable ({e}); continuing with the search on the real code")
    budget = chk.pick(14, 300)
    if chk.broken:
        budget *= 2
    search(chk, hints, tabs, budget)


def replay(path: str) -> int:
    import sys

    sys.path.insert(0, REPO)
    rec = json.load(open(path))
    r = rec.get("replay")
    if not r:
        print(json.dumps(rec, indent=1))
        return 1
    v = verdict(r["sql"], r["dialect"])
    print("replay:", ("VIOLATES: " + v[1]) if v else "holds")
    return 1 if v else 0
