"""C10 — Qualification is complete, idempotent and faithful to dialect identifier rules (DESIGN.md §4 C10).

translate : per dialect NORMALIZATION_STRATEGY / ASCII_ONLY_NORMALIZATION / who overrides normalize_identifier / the
            qualify-relevant dialect flags; the decision table of Dialect.normalize_identifier probed on the live
            class (strategy x quoted -> keep/lower/upper); the call order inside qualify() and inside
            qualify_columns()'s per-scope loop (ast)
prove     : Properties/C10.lean
correspond: (1) normalize_identifier / case_sensitive / can_quote on the live dialects vs the Lean mirrors;
            (2) generated queries -> SQL -> real qualify -> parsed back to the flattened IR == qualifyModel,
                and the second application equals the first
search    : the statement itself on the real code (idempotence byte-for-byte, every table aliased, every column
            names a visible source or is an ORDER BY output name, stars = schema columns in schema order, output
            names unchanged, only OptimizeError may be raised), all dialects, mixed-case / quoted / non-ASCII
            identifiers, nested scopes, CTE column lists, USING joins, correlated subqueries, unions
"""

from __future__ import annotations

import ast
import json
import os
import time

from vf.core import Check, REPO, HarnessError, lean_str, lean_bool, lean_list

MODULES = ["Model.Ident", "Model.Qualify", "Proofs.Qualify", "Generated.C10", "Properties.C10"]
THEOREMS = [
    "SqlglotModel.Properties.C10.normalize_idempotent",
    "SqlglotModel.Properties.C10.normalize_preserves_case_sensitive",
    "SqlglotModel.Properties.C10.normalize_requote_stable",
    "SqlglotModel.Properties.C10.generated_fold_table_ok",
    "SqlglotModel.Properties.C10.generated_pipeline_ok",
    "SqlglotModel.Properties.C10.default_qualifier_case_preserved",
    "SqlglotModel.Properties.C10.generated_default_qualifier_ok",
    "SqlglotModel.Properties.C10.default_qualifier_needs_tag_first",
    "SqlglotModel.Properties.C10.normalizeT_base",
    "SqlglotModel.Properties.C10.normalizeT_table_sensitive",
    "SqlglotModel.Properties.C10.generated_name_is_fixpoint",
    "SqlglotModel.Properties.C10.generated_col_name_sites_ok",
    "SqlglotModel.Properties.C10.unnormalised_generated_name_witness",
    "SqlglotModel.Properties.C10.schema_name_memo_sound",
    "SqlglotModel.Properties.C10.generated_schema_memo_key_ok",
    "SqlglotModel.Properties.C10.schema_name_memo_without_role_witness",
    "SqlglotModel.Properties.C10.cte_sibling_independence",
    "SqlglotModel.Properties.C10.generated_cte_scoping_ok",
    "SqlglotModel.Properties.C10.cte_shared_dict_leak_witness",
    "SqlglotModel.Properties.C10.join_context_within_prefix",
    "SqlglotModel.Properties.C10.generated_join_context_ok",
    "SqlglotModel.Properties.C10.join_context_cached_order_witness",
    "SqlglotModel.Properties.C10.qualify_complete",
    "SqlglotModel.Properties.C10.qualify_complete_all",
    "SqlglotModel.Properties.C10.star_expansion_schema_order",
    "SqlglotModel.Properties.C10.star_expansion_using",
    "SqlglotModel.Properties.C10.star_expansion_using_merged",
    "SqlglotModel.Properties.C10.star_expansion_using_witness",
    "SqlglotModel.Properties.C10.star_using_drops_later_column_witness",
    "SqlglotModel.Properties.C10.star_order_tables_first_witness",
    "SqlglotModel.Properties.C10.unresolved_raises",
    "SqlglotModel.Properties.C10.unresolved_raises_witnesses",
    "SqlglotModel.Properties.C10.qualify_idempotent_scope",
    "SqlglotModel.Properties.C10.qualify_idempotent",
    "SqlglotModel.Properties.C10.having_bare_not_idempotent_counterexample",
    "SqlglotModel.Properties.C10.validate_sees",
    "SqlglotModel.Properties.C10.validate_having_blind_to_bare_names",
    "SqlglotModel.Properties.C10.qualify_idempotent_partial",
    "SqlglotModel.Properties.C10.qualify_idempotent_all_partial",
    "SqlglotModel.Properties.C10.output_names_preserved",
    "SqlglotModel.Properties.C10.output_names_partial",
    "SqlglotModel.Properties.C10.alias_ref_projection_renamed_counterexample",
    "SqlglotModel.Properties.C10.having_bare_counterexample",
]

FLAGS = ["PREFER_CTE_ALIAS_COLUMN", "FORCE_EARLY_ALIAS_REF_EXPANSION", "EXPAND_ONLY_GROUP_ALIAS_REF",
         "DISABLES_ALIAS_REF_EXPANSION", "PROJECTION_ALIASES_SHADOW_SOURCE_NAMES", "TABLES_REFERENCEABLE_AS_COLUMNS",
         "SUPPORTS_ALIAS_REFS_IN_JOIN_CONDITIONS", "ANNOTATE_ALL_SCOPES", "UNNEST_COLUMN_ONLY",
         "SUPPORTS_POSITIONAL_COLUMN_REFS", "EXCLUDES_PSEUDOCOLUMNS_FROM_STAR", "SUPPORTS_STRUCT_STAR_EXPANSION"]

STRATS = ["LOWERCASE", "UPPERCASE", "CASE_SENSITIVE", "CASE_INSENSITIVE", "CASE_INSENSITIVE_UPPERCASE"]
LEAN_STRAT = {"LOWERCASE": ".lowercase", "UPPERCASE": ".uppercase", "CASE_SENSITIVE": ".caseSensitive",
              "CASE_INSENSITIVE": ".caseInsensitive", "CASE_INSENSITIVE_UPPERCASE": ".caseInsensitiveUpper"}

EXPECTED_PIPELINE = ["normalize_identifiers", "qualify_tables", "isolate_table_selects", "qualify_columns_func",
                     "quote_identifiers_func", "validate_qualify_columns_func"]
EXPECTED_SCOPE_STEPS = ["_expand_using", "_qualify_columns", "_expand_alias_refs", "_expand_stars", "qualify_outputs",
                        "_expand_group_by", "_expand_order_by_and_distinct_on"]


class _DialectName:
    """stand-in for a `Dialects` enum member (only `.value` is used)"""

    def __init__(self, value):
        self.value = value

    def __repr__(self):
        return f"<dialect {self.value!r}>"


_ALL_DIALECTS = []


def all_dialects():
    """every dialect name: the `Dialects` enum UNION sqlglot.dialects.DIALECT_MODULE_NAMES (the enum has no entry for
    dialects that exist only as a lazily imported module, e.g. singlestore)"""
    if not _ALL_DIALECTS:
        import sqlglot.dialects as dmod
        from sqlglot.dialects.dialect import Dialect, Dialects

        names = {d.value for d in Dialects} | set(getattr(dmod, "DIALECT_MODULE_NAMES", ()))
        for n in sorted(names):
            try:
                Dialect.get_or_raise(n or None)
            except Exception:  # noqa
                continue
            _ALL_DIALECTS.append(_DialectName(n))
    return _ALL_DIALECTS


def sg():
    import sqlglot
    from sqlglot import exp
    from sqlglot.dialects.dialect import Dialect
    from sqlglot.errors import OptimizeError
    from sqlglot.optimizer.qualify import qualify
    from sqlglot.schema import MappingSchema

    # `Dialects` below is the full list of dialect names (enum ∪ module names), each with a `.value`
    return sqlglot, exp, Dialect, all_dialects(), OptimizeError, qualify, MappingSchema


# ------------------------------------------------------------------------------------------ translate
def dialect_rows():
    _, _, Dialect, Dialects, *_ = sg()
    base = Dialect()
    rows = []
    for d in Dialects:
        inst = Dialect.get_or_raise(d.value or None)
        rows.append({
            "name": d.value,
            "strategy": inst.NORMALIZATION_STRATEGY.value,
            "ascii_only": bool(inst.ASCII_ONLY_NORMALIZATION),
            "base_normalize": type(inst).normalize_identifier is Dialect.normalize_identifier,
            "flags": sorted(f for f in FLAGS if getattr(inst, f, None) != getattr(base, f, None)),
            "pseudocolumns": sorted(inst.PSEUDOCOLUMNS),
        })
    return sorted(rows, key=lambda r: r["name"])


def probe_fold_table():
    """Decision table of the live Dialect.normalize_identifier: (strategy, quoted) -> keep | lower | upper."""
    _, exp, Dialect, *_ = sg()
    rows = []
    for st in STRATS:
        d = Dialect(normalization_strategy=st)
        for quoted in (False, True):
            i = exp.to_identifier("aB", quoted=quoted)
            out = Dialect.normalize_identifier(d, i)
            act = {"aB": "keep", "ab": "lower", "AB": "upper"}.get(out.this, "other:" + out.this)
            if bool(out.args.get("quoted")) != quoted:
                act = "other:quoted-flag-changed"
            rows.append((st, quoted, act))
    return rows


def call_names(fn_node, wanted):
    out = []
    for node in ast.walk(fn_node):
        pass
    # source order: sort calls by (lineno, col)
    calls = [n for n in ast.walk(fn_node) if isinstance(n, ast.Call) and isinstance(n.func, ast.Name)]
    calls.sort(key=lambda n: (n.lineno, n.col_offset))
    for c in calls:
        if c.func.id in wanted:
            out.append(c.func.id)
    return out


def default_qualifier_tag_first(chk: Check) -> bool:
    """ast of qualify_tables.py: in every function that tags an identifier variable with meta["is_table"], is the tag
    assigned before that variable goes through normalize_identifiers(...)?  (BigQuery reads the tag while normalising)"""
    src = open(os.path.join(REPO, "sqlglot", "optimizer", "qualify_tables.py"), encoding="utf-8").read()
    tree = ast.parse(src)
    verdicts = []
    for fn in [n for n in ast.walk(tree) if isinstance(n, (ast.FunctionDef, ast.AsyncFunctionDef))]:
        own = [n for n in ast.walk(fn)]
        inner = {id(x) for sub in own if isinstance(sub, (ast.FunctionDef, ast.AsyncFunctionDef)) and sub is not fn for x in ast.walk(sub)}
        tags, norms = {}, {}
        for n in own:
            if id(n) in inner:
                continue
            if isinstance(n, ast.Assign) and len(n.targets) == 1 and isinstance(n.targets[0], ast.Subscript):
                t = n.targets[0]
                if isinstance(t.value, ast.Attribute) and t.value.attr == "meta" and isinstance(t.value.value, ast.Name) \
                        and isinstance(t.slice, ast.Constant) and t.slice.value == "is_table":
                    tags.setdefault(t.value.value.id, []).append(n.lineno)
            if isinstance(n, ast.Call) and isinstance(n.func, ast.Name) and n.func.id == "normalize_identifiers" and n.args \
                    and isinstance(n.args[0], ast.Name):
                norms.setdefault(n.args[0].id, []).append(n.lineno)
        for v, tl in tags.items():
            if v in norms:
                verdicts.append(min(tl) < min(norms[v]))
            else:
                verdicts.append(None)
    if not verdicts or any(v is None for v in verdicts):
        chk.broken.append({"kind": "translator", "what": "structure changed: qualify_tables no longer tags + normalises the default db/catalog in one function"})
        return False
    return all(verdicts)


def col_name_sites(chk: Check):
    """ast of qualify_outputs: every f-string that builds a `_col_<i>` name, and every normalize_identifier call;
    each construction needs its own normalisation (today: one for the Subquery branch, one for the generic branch)"""
    src = open(os.path.join(REPO, "sqlglot", "optimizer", "qualify_columns.py"), encoding="utf-8").read()
    tree = ast.parse(src)
    fn = next((n for n in tree.body if isinstance(n, ast.FunctionDef) and n.name == "qualify_outputs"), None)
    if fn is None:
        chk.broken.append({"kind": "translator", "what": "structure changed: qualify_outputs not found"})
        return 0, 0
    sites = sum(1 for n in ast.walk(fn) if isinstance(n, ast.JoinedStr)
                and any(isinstance(v, ast.Constant) and "_col_" in str(v.value) for v in n.values))
    sites += sum(1 for n in ast.walk(fn) if isinstance(n, ast.Constant) and isinstance(n.value, str) and "_col_" in n.value
                 and not any(isinstance(p, ast.JoinedStr) and n in p.values for p in ast.walk(fn)))
    norms = sum(1 for n in ast.walk(fn) if isinstance(n, ast.Call) and isinstance(n.func, ast.Attribute) and n.func.attr == "normalize_identifier")
    if sites == 0:
        chk.broken.append({"kind": "translator", "what": "structure changed: no _col_ name construction in qualify_outputs"})
    return sites, norms


def schema_memo_key(chk: Check) -> list:
    """ast of MappingSchema._normalize_name: the names in the `cache_key = (...)` tuple that indexes _normalized_name_cache"""
    src = open(os.path.join(REPO, "sqlglot", "schema.py"), encoding="utf-8").read()
    tree = ast.parse(src)
    key = None
    for cls in [n for n in tree.body if isinstance(n, ast.ClassDef) and n.name == "MappingSchema"]:
        for fn in [n for n in cls.body if isinstance(n, ast.FunctionDef) and n.name == "_normalize_name"]:
            params = {a.arg for a in fn.args.args}
            for n in ast.walk(fn):
                if isinstance(n, ast.Assign) and len(n.targets) == 1 and isinstance(n.targets[0], ast.Name) \
                        and n.targets[0].id == "cache_key" and isinstance(n.value, ast.Tuple):
                    if all(isinstance(e, ast.Name) for e in n.value.elts):
                        key = [e.id for e in n.value.elts]
            uses = any(isinstance(n, ast.Attribute) and n.attr == "_normalized_name_cache" for n in ast.walk(fn))
            if key is not None and not uses:
                key = None
    if key is None:
        chk.broken.append({"kind": "translator", "what": "structure changed: MappingSchema._normalize_name cache_key tuple not recognised"})
        return []
    return key


def join_context_definition_order(chk: Check) -> bool:
    """ast of Resolver._get_available_source_columns: which mapping / ordering the available sources are taken from"""
    src = open(os.path.join(REPO, "sqlglot", "optimizer", "resolver.py"), encoding="utf-8").read()
    tree = ast.parse(src)
    verdict = None
    for cls in [n for n in tree.body if isinstance(n, ast.ClassDef) and n.name == "Resolver"]:
        for fn in [n for n in cls.body if isinstance(n, ast.FunctionDef) and n.name == "_get_available_source_columns"]:
            text = ast.unparse(fn)
            uses_from = any(isinstance(n, ast.Subscript) and isinstance(n.slice, ast.Constant) and n.slice.value == "from_" for n in ast.walk(fn))
            slices_joins = any(isinstance(n, ast.Subscript) and isinstance(n.slice, ast.Slice) and isinstance(n.value, ast.Subscript)
                               and isinstance(n.value.slice, ast.Constant) and n.value.slice.value == "joins" for n in ast.walk(fn))
            uses_cached = any(isinstance(n, ast.Attribute) and n.attr in ("_get_all_source_columns", "selected_sources", "_source_columns")
                              for n in ast.walk(fn))
            if uses_from and slices_joins and not uses_cached:
                verdict = True
            elif uses_cached:
                verdict = False
    if verdict is None:
        chk.broken.append({"kind": "translator", "what": "structure changed: Resolver._get_available_source_columns not recognised"})
        return False
    return verdict


def cte_scoping_sites(chk: Check):
    """ast of sqlglot/optimizer/scope.py: (Scope.branch passes a freshly built dict as cte_sources, _traverse_ctes updates in place)"""
    src = open(os.path.join(REPO, "sqlglot", "optimizer", "scope.py"), encoding="utf-8").read()
    tree = ast.parse(src)
    copies = None
    in_place = None
    for cls in [n for n in tree.body if isinstance(n, ast.ClassDef) and n.name == "Scope"]:
        for fn in [n for n in cls.body if isinstance(n, ast.FunctionDef) and n.name == "branch"]:
            for call in [n for n in ast.walk(fn) if isinstance(n, ast.Call) and isinstance(n.func, ast.Name) and n.func.id == "Scope"]:
                for kw in call.keywords:
                    if kw.arg == "cte_sources":
                        v = kw.value
                        if isinstance(v, ast.Dict) and v.keys and all(k is None for k in v.keys) and any(
                                isinstance(x, ast.Attribute) and x.attr == "cte_sources" for x in v.values):
                            copies = True      # {**self.cte_sources, **(...)}: always a new mapping
                        elif isinstance(v, ast.Call) and ((isinstance(v.func, ast.Name) and v.func.id == "dict") or
                                                          (isinstance(v.func, ast.Attribute) and v.func.attr == "copy")):
                            copies = True
                        elif isinstance(v, (ast.IfExp, ast.BoolOp, ast.Attribute, ast.Name)):
                            copies = False     # the parent's own mapping can be handed through
    for fn in [n for n in tree.body if isinstance(n, ast.FunctionDef) and n.name == "_traverse_ctes"]:
        in_place = any(isinstance(n, ast.Call) and isinstance(n.func, ast.Attribute) and n.func.attr == "update"
                       and isinstance(n.func.value, ast.Attribute) and n.func.value.attr == "cte_sources"
                       for n in ast.walk(fn))
    if copies is None or in_place is None:
        chk.broken.append({"kind": "translator", "what": "structure changed: Scope.branch(cte_sources=…) / _traverse_ctes not recognised"})
    return bool(copies), bool(in_place)


def translate(chk: Check) -> str:
    rows = dialect_rows()
    chk.cov["dialects"] = len(rows)
    table = probe_fold_table()
    for st, q, act in table:
        if act.startswith("other"):
            chk.broken.append({"kind": "translator", "what": f"structure changed: normalize_identifier({st}, quoted={q}) -> {act}"})
    # call order in qualify() and in qualify_columns()
    src = open(os.path.join(REPO, "sqlglot", "optimizer", "qualify.py"), encoding="utf-8").read()
    fn = next((n for n in ast.parse(src).body if isinstance(n, ast.FunctionDef) and n.name == "qualify"), None)
    pipeline = call_names(fn, set(EXPECTED_PIPELINE)) if fn else []
    src2 = open(os.path.join(REPO, "sqlglot", "optimizer", "qualify_columns.py"), encoding="utf-8").read()
    fn2 = next((n for n in ast.parse(src2).body if isinstance(n, ast.FunctionDef) and n.name == "qualify_columns"), None)
    steps = []
    if fn2:
        loop = next((n for n in fn2.body if isinstance(n, ast.For)), None)
        if loop is not None:
            # with a non-empty schema the first (early) _expand_alias_refs call is skipped: keep the LAST one
            raw = call_names(loop, set(EXPECTED_SCOPE_STEPS))
            seen_alias = [i for i, x in enumerate(raw) if x == "_expand_alias_refs"]
            steps = [x for i, x in enumerate(raw) if x != "_expand_alias_refs" or i == seen_alias[-1]]
    if not fn or not fn2:
        chk.broken.append({"kind": "translator", "what": "structure changed: qualify()/qualify_columns() not found"})
    chk.cov["pipeline"] = pipeline
    chk.cov["scope_steps"] = steps
    L = []
    L.append("-- GENERATED by vf/props/c10.py from sqlglot/dialects/*, optimizer/qualify.py, optimizer/qualify_columns.py. Do not edit.")
    L.append("import SqlglotModel.Model.Ident")
    L.append("namespace SqlglotModel.Generated.C10")
    L.append("open SqlglotModel.Ident")
    L.append("/-- (dialect, NORMALIZATION_STRATEGY, ASCII_ONLY_NORMALIZATION, uses the base normalize_identifier) -/")
    L.append("def dialects : List (String × Strategy × Bool × Bool) := [")
    L.append(",\n".join(f"  ({lean_str(r['name'])}, {LEAN_STRAT[r['strategy']]}, {lean_bool(r['ascii_only'])}, {lean_bool(r['base_normalize'])})"
                        for r in rows))
    L.append("]")
    L.append("/-- dialect flags (differing from the base Dialect) that change what qualify does -/")
    L.append("def dialectFlags : List (String × List String) := [")
    L.append(",\n".join(f"  ({lean_str(r['name'])}, {lean_list(lean_str(f) for f in r['flags'])})" for r in rows))
    L.append("]")
    L.append("/-- live decision table of Dialect.normalize_identifier: (strategy, quoted, 0 keep | 1 lower | 2 upper | 9 other) -/")
    L.append("def foldTable : List (Strategy × Bool × Nat) := [")
    code = {"keep": 0, "lower": 1, "upper": 2}
    L.append(",\n".join(f"  ({LEAN_STRAT[st]}, {lean_bool(q)}, {code.get(act, 9)})" for st, q, act in table))
    L.append("]")
    L.append("/-- order of the stages inside qualify() -/")
    L.append(f"def pipeline : List String := {lean_list(lean_str(x) for x in pipeline)}")
    L.append("/-- order of the per-scope steps inside qualify_columns() (non-empty schema) -/")
    L.append(f"def scopeSteps : List String := {lean_list(lean_str(x) for x in steps)}")
    tag_first = default_qualifier_tag_first(chk)
    chk.cov["default_qualifier_tag_first"] = tag_first
    L.append("/-- qualify_tables: is the default db / catalog identifier tagged meta[\"is_table\"] BEFORE it is normalised? -/")
    L.append(f"def defaultQualifierTagFirst : Bool := {lean_bool(tag_first)}")
    copies, in_place = cte_scoping_sites(chk)
    chk.cov["scope_branch_copies_cte_sources"] = copies
    L.append("/-- scope.py: does Scope.branch always build a NEW cte_sources mapping for the inner scope? -/")
    L.append(f"def branchCopiesCteSources : Bool := {lean_bool(copies)}")
    L.append("/-- scope.py: does _traverse_ctes add a scope's own WITH definitions to its mapping in place (.update)? -/")
    L.append(f"def traverseCtesUpdatesInPlace : Bool := {lean_bool(in_place)}")
    sites, norms = col_name_sites(chk)
    chk.cov["qualify_outputs_col_name_sites"] = [sites, norms]
    L.append("/-- qualify_columns.py qualify_outputs: (number of `_col_<i>` name constructions, number of normalize_identifier calls) -/")
    L.append(f"def colNameSites : Nat × Nat := ({sites}, {norms})")
    mk = schema_memo_key(chk)
    chk.cov["schema_name_memo_key"] = mk
    L.append("/-- schema.py: the elements of MappingSchema._normalize_name's memo key tuple, in order -/")
    L.append(f"def schemaNameMemoKey : List String := {lean_list(lean_str(x) for x in mk)}")
    jc = join_context_definition_order(chk)
    chk.cov["join_context_definition_order"] = jc
    L.append("/-- resolver.py: does _get_available_source_columns collect the FROM source and the joins up to the current one")
    L.append("    by name, in FROM/JOIN definition order (rather than slicing the cached all-sources mapping)? -/")
    L.append(f"def joinContextDefinitionOrder : Bool := {lean_bool(jc)}")
    L.append("end SqlglotModel.Generated.C10")
    return "\n".join(L) + "\n"


# ------------------------------------------------------------------------------------------ IR  <->  sqlglot AST
class Outside(Exception):
    """the tree is outside the fragment the Lean model represents"""


OPS = {"Add": "add", "Sub": "sub", "Mul": "mul", "EQ": "eq", "GT": "gt", "And": "and"}


def ident_pair(i):
    _, exp, *_ = sg()
    if not isinstance(i, exp.Identifier):
        raise Outside("non-identifier name")
    return [i.this, bool(i.args.get("quoted"))]


def expr_ir(e):
    _, exp, *_ = sg()
    if isinstance(e, exp.Column):
        if e.args.get("db") or e.args.get("catalog"):
            raise Outside("column with db")
        t = e.args.get("table")
        return {"c": [ident_pair(t) if t is not None else None, ident_pair(e.this)]}
    if isinstance(e, exp.Literal) and e.is_int:
        return {"l": int(e.this)}
    if isinstance(e, exp.Paren):
        return {"p": expr_ir(e.this)}
    if isinstance(e, exp.Coalesce):
        args = [e.this] + list(e.expressions)
        if all(isinstance(a, exp.Column) and a.args.get("table") is not None and not a.args.get("db") for a in args):
            return {"f": [[ident_pair(a.args["table"]), ident_pair(a.this)] for a in args]}
        raise Outside("coalesce")
    k = type(e).__name__
    if k in OPS and type(e).__module__.startswith("sqlglot.expressions"):
        return {"b": [OPS[k], expr_ir(e.this), expr_ir(e.expression)]}
    raise Outside("expr " + k)


def ast_to_ir(root, dialect, star_quotes=False):
    """Flatten a query AST: scopes in post-order (CTE bodies, then FROM/JOIN subqueries, then the select)."""
    _, exp, Dialect, *_ = sg()
    d = Dialect.get_or_raise(dialect)
    scopes = []

    def key(i):
        return d.normalize_identifier(i.copy()).name

    def conv(sel, outer, env):
        if not isinstance(sel, exp.Select):
            raise Outside("not a select: " + type(sel).__name__)
        for k, v in sel.args.items():
            if v in (None, [], False):
                continue
            if k not in ("expressions", "from_", "joins", "where", "group", "having", "order", "with_", "kind", "hint"):
                raise Outside("select arg " + k)
        env = dict(env)
        w = sel.args.get("with_")
        if w is not None:
            if w.args.get("recursive"):
                raise Outside("recursive")
            for cte in w.expressions:
                al = cte.args["alias"]
                cols = [ident_pair(c) for c in (al.args.get("columns") or [])]
                idx = conv(cte.this, cols, env)
                env[key(al.this)] = idx
        srcs = []
        items = []
        f = sel.args.get("from_")
        if f is None:
            raise Outside("no from")
        items.append(f.this)
        joins_ir = []
        for j in sel.args.get("joins") or []:
            for k, v in j.args.items():
                if k not in ("this", "kind", "side", "method", "using", "on") and v not in (None, [], False):
                    raise Outside("join arg " + k)
            if j.args.get("kind") not in (None, "CROSS", "INNER", "OUTER"):
                raise Outside("join kind")  # SEMI / ANTI: the right side is not a selected source
            if j.args.get("method") not in (None, "NATURAL"):
                raise Outside("join method")
            us = j.args.get("using") or []
            if any(not isinstance(u, exp.Identifier) for u in us):
                raise Outside("using expr")
            on = j.args.get("on")
            joins_ir.append({"natural": j.args.get("method") == "NATURAL", "using": [ident_pair(u) for u in us],
                             "on": expr_ir(on) if on is not None else None})
            items.append(j.this)
        for it in items:
            if isinstance(it, exp.Table):
                for k, v in it.args.items():
                    if k not in ("this", "db", "catalog", "alias") and v not in (None, [], False):
                        raise Outside("table arg " + k)
                al = it.args.get("alias")
                if al is not None and (al.args.get("columns")):
                    raise Outside("table alias columns")
                ali = ident_pair(al.this) if al is not None and al.args.get("this") is not None else None
                parts = [ident_pair(p) for p in it.parts]
                if len(parts) == 1 and key(it.this) in env:
                    # a CTE reference: qualify_tables gives it its own name, verbatim, as alias
                    srcs.append({"idx": env[key(it.this)], "derived": False, "alias": ali or ident_pair(it.this)})
                else:
                    srcs.append({"parts": parts, "alias": ali})
            elif isinstance(it, exp.Subquery):
                for k, v in it.args.items():
                    if k not in ("this", "alias") and v not in (None, [], False):
                        raise Outside("subquery arg " + k)
                al = it.args.get("alias")
                if al is None or al.args.get("this") is None:
                    raise Outside("unaliased derived table")
                cols = [ident_pair(c) for c in (al.args.get("columns") or [])]
                idx = conv(it.this, cols, env)
                srcs.append({"idx": idx, "derived": True, "alias": ident_pair(al.this)})
            else:
                raise Outside("source " + type(it).__name__)
        seen_names = {}
        for x in srcs:
            implicit = x["alias"] is None
            nmx = key(exp.to_identifier(x["parts"][-1][0])) if implicit else key(exp.to_identifier(*x["alias"]))
            if nmx in seen_names and (implicit or seen_names[nmx]):
                raise Outside("duplicate-implicit-source-name")
            seen_names[nmx] = implicit or seen_names.get(nmx, False)
        projs = []
        for p in sel.expressions:
            if isinstance(p, exp.Star):
                for k, v in p.args.items():
                    if k != "except_" and v not in (None, [], False):
                        raise Outside("star arg " + k)
                projs.append({"star": None, "except": [ident_pair(x.this if isinstance(x, exp.Column) else x) for x in (p.args.get("except_") or [])]})
            elif isinstance(p, exp.Column) and isinstance(p.this, exp.Star):
                st = p.this
                for k, v in st.args.items():
                    if k != "except_" and v not in (None, [], False):
                        raise Outside("star arg " + k)
                if p.args.get("db"):
                    raise Outside("db.t.*")
                projs.append({"star": ident_pair(p.args["table"]),
                              "except": [ident_pair(x.this if isinstance(x, exp.Column) else x) for x in (st.args.get("except_") or [])]})
            elif isinstance(p, exp.Alias):
                projs.append({"e": expr_ir(p.this), "alias": ident_pair(p.args["alias"])})
            else:
                projs.append({"e": expr_ir(p), "alias": None})
        wh = sel.args.get("where")
        hv = sel.args.get("having")
        gr = sel.args.get("group")
        if gr is not None:
            for k, v in gr.args.items():
                if k != "expressions" and v not in (None, [], False):
                    raise Outside("group arg " + k)
        od = sel.args.get("order")
        if gr is not None and od is not None:
            # ORDER BY <projection expression> -> alias compares Column nodes INCLUDING quoted flags, which the
            # name-level model cannot see: only uniformly quoted / uniformly unquoted selects are representable
            flags = {bool(i.args.get("quoted")) for i in sel.find_all(exp.Identifier)}
            if len(flags) > 1:
                raise Outside("mixed-quoting-under-group-order")
            if star_quotes and False in flags and any(p.is_star for p in sel.expressions):
                # _expand_stars quotes the columns whose names the dialect deems case-sensitive: same blind spot
                raise Outside("star-quotes-case-sensitive-names-under-group-order")
        order = []
        if od is not None:
            for o in od.expressions:
                if o.args.get("desc") or o.args.get("with_fill"):
                    raise Outside("ordered args")
                order.append(expr_ir(o.this))
        scopes.append({
            "outer": outer, "srcs": srcs, "joins": joins_ir, "projs": projs,
            "where": expr_ir(wh.this) if wh is not None else None,
            "group": [expr_ir(g) for g in gr.expressions] if gr is not None else [],
            "having": expr_ir(hv.this) if hv is not None else None,
            "order": order,
        })
        return len(scopes) - 1

    conv(root, [], {})
    return scopes


def names_only(scopes):
    """drop the quoted flags (IR of a qualified tree, to compare with the model's output)"""
    def nm(p):
        return None if p is None else p[0]

    def ex(e):
        if e is None:
            return None
        if "c" in e:
            return {"c": [nm(e["c"][0]), nm(e["c"][1])]}
        if "l" in e:
            return {"l": e["l"]}
        if "p" in e:
            return {"p": ex(e["p"])}
        if "f" in e:
            return {"f": [[nm(a), nm(b)] for a, b in e["f"]]}
        return {"b": [e["b"][0], ex(e["b"][1]), ex(e["b"][2])]}

    out = []
    for s in scopes:
        srcs = []
        for x in s["srcs"]:
            if "parts" in x:
                srcs.append({"parts": [nm(p) for p in x["parts"]], "alias": nm(x["alias"])})
            else:
                srcs.append({"idx": x["idx"], "derived": x["derived"], "alias": nm(x["alias"])})
        projs = []
        for p in s["projs"]:
            if "star" in p:
                projs.append({"star": nm(p["star"]), "except": [nm(x) for x in p["except"]]})
            else:
                projs.append({"e": ex(p["e"]), "alias": nm(p["alias"])})
        joins = [{"natural": j["natural"], "using": [nm(u) for u in j["using"]], "on": ex(j["on"])} for j in s["joins"]]
        out.append({"outer": [nm(x) for x in s["outer"]], "srcs": srcs, "joins": joins, "projs": projs, "where": ex(s["where"]),
                    "group": [ex(g) for g in s["group"]], "having": ex(s["having"]), "order": [ex(o) for o in s["order"]]})
    return out


def all_quoted(tree):
    _, exp, *_ = sg()
    return all(i.args.get("quoted") for i in tree.find_all(exp.Identifier))


def flat_schema(ms):
    """normalized MappingSchema.mapping -> [[path, cols], ...]"""
    out = []

    def rec(d, path, depth):
        if depth == 0:
            out.append([path, list(d.keys())])
            return
        for k, v in d.items():
            rec(v, path + [k], depth - 1)

    depth = ms.depth()
    if ms.mapping:
        rec(ms.mapping, [], depth)
    return out


# ------------------------------------------------------------------------------------------ generator (nested IR -> SQL)
TABLE_NAMES = ["t", "u", "V", "Tab", "w"]
COL_NAMES = ["a", "b", "c", "D", "Ee", "k"]
NONASCII = ["ñ", "Ünï", "straße", "ÀB", "σΣ", "İi", "ǅx"]
ALIAS_NAMES = ["x", "y", "Z", "q1", "a", "b", "t", "d"]
DB_NAMES = ["db", "Db2"]
CAT_NAMES = ["cat", "C2"]


_SEMI = {}


def keeps_semi_join(dialect):
    """does the dialect's generator print SEMI/ANTI joins as such (otherwise it rewrites them to EXISTS subqueries)?"""
    if dialect not in _SEMI:
        sqlglot = sg()[0]
        try:
            _SEMI[dialect] = "SEMI" in sqlglot.parse_one("SELECT 1 FROM a SEMI JOIN b ON a.x = b.x", dialect=dialect).sql(dialect=dialect)
        except Exception:  # noqa
            _SEMI[dialect] = False
    return _SEMI[dialect]


class Gen:
    def __init__(self, rng, dialect, model_stream, unicode_ok=False):
        _, exp, Dialect, *_ = sg()
        self.rng = rng
        self.dialect = dialect
        self.d = Dialect.get_or_raise(dialect)
        self.exp = exp
        self.model = model_stream
        self.unicode_ok = unicode_ok
        self.features = set()

    # identifiers -----------------------------------------------------------------------------
    def isql(self, name, quoted):
        return self.exp.to_identifier(name, quoted=quoted).sql(dialect=self.dialect)

    def ref(self, name, p_variant=0.06):
        """spell a reference to `name`: mostly verbatim, sometimes another case / quoted"""
        r = self.rng.random()
        if r < p_variant / 3:
            self.features.add("case-variant")
            return self.isql(name.upper() if name != name.upper() else name.lower(), False)
        if r < 5 * p_variant / 6:
            self.features.add("quoted-ref")
            return self.isql(name, True)
        if r < p_variant:
            self.features.add("quoted-variant")
            return self.isql(name.swapcase(), True)
        return self.isql(name, False)

    def fresh_schema(self):
        rng = self.rng
        depth = rng.choice([1, 1, 2, 3])
        if getattr(self, "min_depth", 1) > 1:
            depth = rng.choice([2, 3])
        tabs = rng.sample(TABLE_NAMES, rng.choice([2, 3, 3]))
        flat = []
        for tname in tabs:
            pool = list(COL_NAMES)
            if self.unicode_ok and rng.random() < 0.5:
                pool += rng.sample(NONASCII, 2)
            cols = rng.sample(pool, rng.choice([1, 2, 3, 3]))
            path = [rng.choice(CAT_NAMES), rng.choice(DB_NAMES), tname][3 - depth:]
            flat.append((path, cols))
        # quoting of schema keys: quoted keys keep their case
        self.schema_quoted = rng.random() < 0.3
        nested = {}
        for path, cols in flat:
            dct = nested
            for p in path[:-1]:
                dct = dct.setdefault(self.isql(p, self.schema_quoted), {})
            dct[self.isql(path[-1], self.schema_quoted)] = {self.isql(c, self.schema_quoted): "INT" for c in cols}
        self.depth = depth
        self.flat = flat
        return nested

    # queries ---------------------------------------------------------------------------------
    def expr(self, cols, aliases, depth=0, allow_alias=True):
        """cols: list of (source alias, column name); aliases: earlier projection aliases"""
        rng = self.rng
        r = rng.random()
        if depth >= 2 or r < 0.55:
            r2 = rng.random()
            if r2 < 0.12:
                return str(rng.choice([1, 2, 7]))
            if allow_alias and aliases and r2 < 0.30:
                self.features.add("alias-ref")
                return self.ref(rng.choice(aliases))
            if not cols or r2 < 0.315:
                self.features.add("unknown-col")
                return self.ref(rng.choice(["zz", "k", "nope"]))
            src, c = rng.choice(cols)
            multi = sum(1 for _, cc in cols if cc.lower() == c.lower()) > 1
            if rng.random() < (0.92 if multi else 0.3):
                return self.ref(src, 0.06) + "." + self.ref(c)
            return self.ref(c)
        op = rng.choice(["+", "+", "-", "*", "=", ">", "AND"])
        l = self.expr(cols, aliases, depth + 1, allow_alias)
        rr = self.expr(cols, aliases, depth + 1, allow_alias)

        def wrap(s):
            if " " in s and rng.random() < 0.8:
                return "(" + s + ")"
            if rng.random() < 0.05:
                return "(" + s + ")"
            return s

        return f"{wrap(l)} {op} {wrap(rr)}"

    def select(self, level, ctes):
        """returns (sql, output names (approximate))"""
        rng = self.rng
        with_sql = ""
        ctes = dict(ctes)
        if level < (2 if self.model else 3) and rng.random() < 0.3:
            parts = []
            for _ in range(rng.choice([1, 1, 2])):
                name = rng.choice(["c1", "C2", "t", "cte"])
                sql, outs = self.select(level + 1, ctes)
                collist = ""
                if rng.random() < 0.3 and outs:
                    self.features.add("cte-column-list")
                    n = rng.randint(1, len(outs))
                    new = [rng.choice(["x", "y", "m", "N"]) + str(i) for i in range(n)]
                    collist = "(" + ", ".join(self.ref(x, 0.05) for x in new) + ")"
                    outs = new + outs[n:]
                parts.append(f"{self.ref(name, 0.05)}{collist} AS ({sql})")
                ctes[name] = outs
                self.features.add("cte")
            with_sql = "WITH " + ", ".join(parts) + " "
        # sources
        nsrc = rng.choice([1, 1, 1, 2, 2, 3])
        srcs = []  # (alias name, cols)
        from_sql = []
        using_cols = None
        for si in range(nsrc):
            r = rng.random()
            alias = None
            if r < 0.25 and level < (2 if self.model else 4):
                sql, outs = self.select(level + 1, ctes)
                alias = rng.choice(ALIAS_NAMES) if (self.model or rng.random() < 0.9) else None
                collist = ""
                if alias and rng.random() < 0.25 and outs:
                    self.features.add("derived-column-list")
                    n = rng.randint(1, len(outs))
                    new = [rng.choice(["x", "y", "m"]) + str(i) for i in range(n)]
                    collist = "(" + ", ".join(self.ref(x, 0.05) for x in new) + ")"
                    outs = new + outs[n:]
                s = f"({sql})" + (f" AS {self.ref(alias, 0.05)}{collist}" if alias else "")
                self.features.add("derived")
                srcs.append((alias or "_0", outs))
            elif r < 0.45 and ctes:
                name = rng.choice(list(ctes))
                if rng.random() < 0.4:
                    alias = rng.choice(ALIAS_NAMES)
                s = self.ref(name, 0.08) + (f" AS {self.ref(alias, 0.05)}" if alias else "")
                self.features.add("cte-ref")
                srcs.append((alias or name, ctes[name]))
            else:
                path, cols = rng.choice(self.flat)
                k = rng.randint(1, len(path)) if rng.random() < 0.4 else 1
                if getattr(self, "full_paths", False) and rng.random() < 0.85:
                    k = len(path)
                if rng.random() < 0.4:
                    alias = rng.choice(ALIAS_NAMES)
                s = ".".join(self.ref(p, 0.08) for p in path[len(path) - k:]) + (f" AS {self.ref(alias, 0.05)}" if alias else "")
                srcs.append((alias or path[-1], list(cols)))
            if si == 0:
                from_sql.append(s)
            else:
                jr = rng.random()
                prev_cols = [c for _, cs in srcs[:-1] for c in cs]
                common = [c for c in srcs[-1][1] if c in prev_cols]
                if self.model and jr < 0.3 and common:
                    self.features.add("using")
                    us = rng.sample(common, rng.choice([1, 1, min(2, len(common))]))
                    from_sql.append(f" {rng.choice(['', '', 'LEFT ', 'INNER '])}JOIN {s} USING ({', '.join(self.ref(u, 0.03) for u in us)})")
                elif self.model and jr < 0.36 and common:
                    self.features.add("natural")
                    from_sql.append(f" NATURAL JOIN {s}")
                elif self.model and jr < 0.5 and srcs[-1][1] and any(cs for _, cs in srcs[:-1]):
                    self.features.add("join-on-qualified")
                    la, lcs = rng.choice([(a, cs) for a, cs in srcs[:-1] if cs])
                    lc = rng.choice(lcs)
                    lhs = self.ref(lc, 0.03) if rng.random() < 0.35 else f"{self.ref(la, 0.03)}.{self.ref(lc, 0.03)}"
                    from_sql.append(f" JOIN {s} ON {lhs} = "
                                    f"{self.ref(srcs[-1][0], 0.03)}.{self.ref(rng.choice(srcs[-1][1]), 0.03)}")
                elif not self.model and jr < 0.3 and common:
                    self.features.add("using")
                    kind = ""
                    if rng.random() < 0.2:
                        kind = rng.choice(["SEMI ", "ANTI ", "LEFT ", "INNER "] if keeps_semi_join(self.dialect) else ["LEFT ", "INNER "])
                        self.features.add("using-" + kind.strip().lower())
                    from_sql.append(f" {kind}JOIN {s} USING ({self.ref(rng.choice(common), 0.05)})")
                elif not self.model and jr < 0.55:
                    self.features.add("join-on")
                    allc = [(a, c) for a, cs in srcs for c in cs]
                    from_sql.append(f" JOIN {s} ON {self.expr(allc, [], 1, False)} = {self.expr(allc, [], 1, False)}")
                elif jr < 0.75:
                    from_sql.append(f" CROSS JOIN {s}")
                else:
                    from_sql.append(f", {s}")
        allc = [(a, c) for a, cs in srcs for c in cs]
        # projections
        projs, outs, aliases = [], [], []
        nproj = rng.choice([1, 2, 2, 3, 4])
        for pi in range(nproj):
            r = rng.random()
            if r < 0.14 and not (self.model and any("EXCEPT" in p for p in projs)):
                exc = ""
                if rng.random() < 0.25 and allc and not any("*" in p for p in projs):
                    self.features.add("star-except")
                    exc = f" EXCEPT ({self.ref(rng.choice(allc)[1], 0.05)})"
                projs.append("*" + exc)
                outs += [c for _, c in allc]
                self.features.add("star")
            elif r < 0.22 and srcs and not (self.model and any("EXCEPT" in p for p in projs)):
                a, cs = rng.choice(srcs)
                projs.append(self.ref(a, 0.06) + ".*")
                outs += cs
                self.features.add("qualified-star")
            else:
                e = self.expr(allc, aliases, 0)
                if not self.model and level < 3 and rng.random() < 0.1:
                    sub, _ = self.select(level + 1, ctes)
                    e = f"({sub})"
                    self.features.add("scalar-subquery")
                elif not self.model and rng.random() < 0.08:
                    e = rng.choice(["ABS", "COALESCE", "LENGTH"]) + "(" + e + ")"
                    self.features.add("function-projection")
                if rng.random() < 0.5:
                    al = rng.choice(ALIAS_NAMES + ["a2", "s"])
                    projs.append(f"{e} AS {self.ref(al, 0.05)}")
                    aliases.append(al)
                    outs.append(al)
                else:
                    projs.append(e)
                    outs.append(e if e.isidentifier() else "_col_%d" % pi)
        sql = with_sql + "SELECT " + ", ".join(projs) + " FROM " + "".join(from_sql)
        if rng.random() < 0.4:
            w = self.expr(allc, aliases, 1)
            if not self.model and level < 3 and rng.random() < 0.2 and self.flat:
                sub, _ = self.select(level + 1, ctes)
                # correlated: the subquery may mention outer columns
                w = f"{self.expr(allc, [], 2, False)} IN ({sub})"
                self.features.add("in-subquery")
            sql += " WHERE " + w
            self.features.add("where")
        grouped = False
        if rng.random() < 0.3:
            gs = []
            for _ in range(rng.choice([1, 1, 2])):
                if rng.random() < 0.25:
                    gs.append(str(rng.choice([0, 1, 1, 2, 3, 5])))
                    self.features.add("group-positional")
                else:
                    gs.append(self.expr(allc, aliases, 1))
            sql += " GROUP BY " + ", ".join(gs)
            grouped = True
            self.features.add("group")
        if (grouped and rng.random() < 0.5) or rng.random() < 0.05:
            sql += " HAVING " + self.expr(allc, aliases, 1)
            self.features.add("having")
        if rng.random() < 0.35:
            os_ = []
            for _ in range(rng.choice([1, 1, 2])):
                r = rng.random()
                if r < 0.2:
                    os_.append(str(rng.choice([0, 1, 1, 2, 4])))
                    self.features.add("order-positional")
                elif r < 0.4 and projs and grouped:
                    # repeat a projection's expression
                    p = rng.choice(projs)
                    os_.append(p.split(" AS ")[0] if "*" not in p else "1")
                else:
                    os_.append(self.expr(allc, aliases, 1))
            sql += " ORDER BY " + ", ".join(os_)
            self.features.add("order")
        if not self.model and level == 0 and rng.random() < 0.08:
            other, _ = self.select(level + 1, ctes)
            sql = f"{sql} UNION ALL {other}" if "ORDER BY" not in sql else sql
            self.features.add("union")
        return sql, outs


# ------------------------------------------------------------------------------------------ the real side
def run_real(sql, schema, dialect):
    """returns dict(status=ok|optimize|parse|other, ...)"""
    sqlglot, exp, Dialect, Dialects, OptimizeError, qualify, MappingSchema = sg()
    from sqlglot.errors import SqlglotError

    try:
        tree = sqlglot.parse_one(sql, dialect=dialect)
    except SqlglotError as e:
        return {"status": "parse", "msg": str(e)[:120]}
    try:
        q1 = qualify(tree.copy(), schema=schema, dialect=dialect)
    except OptimizeError as e:
        return {"status": "optimize", "msg": str(e)[:120], "tree": tree}
    except Exception as e:  # noqa
        import re as _re

        msg = str(e)
        if " is not <class " in msg:
            msg = "is not " + msg.split(" is not <class ")[-1].rstrip(".'> ").split(".")[-1]
        cls = type(e).__name__ + ":" + "-".join(_re.sub(r"[^A-Za-z ]+", " ", msg).split()[:4])
        return {"status": "other", "msg": f"{type(e).__name__}: {str(e)[:160]}", "tree": tree, "cls": cls}
    return {"status": "ok", "tree": tree, "q1": q1}


def second_pass(q1, schema, dialect):
    sqlglot, exp, Dialect, Dialects, OptimizeError, qualify, MappingSchema = sg()
    s1 = q1.sql(dialect=dialect)
    try:
        t2 = sqlglot.parse_one(s1, dialect=dialect)
        q2 = qualify(t2.copy(), schema=schema, dialect=dialect)
    except Exception as e:  # noqa
        return s1, None, None, f"{type(e).__name__}: {str(e)[:160]}"
    return s1, t2, q2, None


# ------------------------------------------------------------------------------------------ the property's oracle
def select_nodes(tree):
    _, exp, *_ = sg()
    return [n for n in tree.walk() if isinstance(n, exp.Select)]


def own_sources(sel):
    """(alias_or_name, node) of the FROM / JOIN items of this select"""
    _, exp, *_ = sg()
    out = []
    f = sel.args.get("from_")
    if f is not None:
        out.append(f.this)
    for j in sel.args.get("joins") or []:
        out.append(j.this)
    return out


def enclosing_select(node):
    _, exp, *_ = sg()
    p = node.parent
    while p is not None and not isinstance(p, exp.Select):
        p = p.parent
    return p


def is_source_position(sel):
    """is this select the body of a derived table / CTE (cannot see the outer query's sources)?"""
    _, exp, *_ = sg()
    p = sel.parent
    while isinstance(p, (exp.Subquery, exp.Paren)):
        if isinstance(p.parent, (exp.From, exp.Join)):
            return True
        p = p.parent
    if isinstance(p, exp.CTE):
        return True
    if isinstance(p, exp.SetOperation):
        # a union branch: same visibility as the union itself
        q = p
        while isinstance(q.parent, exp.SetOperation):
            q = q.parent
        par = q.parent
        while isinstance(par, (exp.Subquery, exp.Paren)):
            if isinstance(par.parent, (exp.From, exp.Join)):
                return True
            par = par.parent
        return isinstance(par, exp.CTE) or par is None
    return p is None


def visible_names(sel):
    """aliases a column of `sel` may name: its own sources; for a (correlated) subquery also the enclosing selects'.
    The body of a derived table / CTE does not see its SIBLING sources (the select it is a source of), but a derived
    table nested inside a correlated subquery still sees the outer query (sqlglot: Scope.can_be_correlated)."""
    _, exp, *_ = sg()
    names = set()
    s = sel
    skip = False
    while s is not None:
        if not skip:
            for it in own_sources(s):
                names.add(it.alias_or_name)
        skip = is_source_position(s)
        p = s.parent
        while isinstance(p, (exp.Subquery, exp.Paren, exp.SetOperation)):
            p = p.parent
        if isinstance(p, exp.CTE):
            break
        s = enclosing_select(s)
    return names


def columns_of(sel):
    """Column nodes that belong to this select (not to a nested select)"""
    _, exp, *_ = sg()
    out = []

    def rec(n, clause):
        for k, v in n.args.items():
            vs = v if isinstance(v, list) else [v]
            for c in vs:
                if not isinstance(c, exp.Expr):
                    continue
                cl = clause
                if n is sel:
                    cl = k
                if isinstance(c, exp.Select):
                    continue
                if isinstance(c, (exp.Subquery, exp.CTE, exp.With, exp.SetOperation)) and c.find(exp.Select) is not None:
                    continue
                if isinstance(c, exp.Star):
                    continue
                if isinstance(c, exp.Column):
                    out.append((c, cl))
                rec(c, cl)

    rec(sel, None)
    return out


def schema_cols_for(ms, table):
    try:
        return list(ms.column_names(table))
    except Exception:  # noqa
        return None


def _align(reordered, s0, srcmap, d, exp):
    """expected names with bare stars expanded tables-first; non-star projections as wildcards (None), `t.*` expanded"""
    out = []
    it = iter(reordered)
    for p in s0.expressions:
        if isinstance(p, exp.Star):
            continue
    # `reordered` already holds star expansions inline and None per non-star projection; expand `t.*` wildcards
    res = []
    for p in s0.expressions:
        pass
    i = 0
    for p in s0.expressions:
        if isinstance(p, exp.Star):
            # consume this star's expansion: all entries until the next None boundary belonging to it
            while i < len(reordered) and reordered[i] is not None:
                res.append(reordered[i])
                i += 1
        elif isinstance(p, exp.Column) and isinstance(p.this, exp.Star):
            i += 1
            tname = d.normalize_identifier(p.args["table"].copy()).name
            exc = {d.normalize_identifier((x.this if isinstance(x, exp.Column) else x).copy()).name for x in (p.this.args.get("except_") or [])}
            res += [None for c in (srcmap.get(tname) or []) if c not in exc]
        else:
            i += 1
            res.append(None)
    return res


def oracle(sql, nested_schema, dialect):
    """The statement of C10 on the real code.  Returns None (holds / not applicable) or (kind, description)."""
    sqlglot, exp, Dialect, Dialects, OptimizeError, qualify, MappingSchema = sg()
    r = run_real(sql, nested_schema, dialect)
    if r["status"] in ("parse", "optimize"):
        return None
    if r["status"] == "other":
        return ("raises:" + r["cls"], f"qualify raised {r['msg']}")
    tree, q1 = r["tree"], r["q1"]
    s1, t2, q2, err = second_pass(q1, nested_schema, dialect)
    if err:
        kind_rq = "requalify-raises"
        if (dialect or "").split(",")[0].strip() == "bigquery":
            # BigQuery's shadow rule printed a GROUP BY / HAVING column bare because its qualifier equals a projection alias:
            # the recorded C10-bigquery-group-shadow-not-idempotent family, whatever the second pass then does (differs or raises)
            for sel_ in select_nodes(q1):
                for clause_ in ("group", "having"):
                    node_ = sel_.args.get(clause_)
                    if node_ is not None and any(c_.args.get("shadow") for c_ in node_.find_all(exp.Column)):
                        return ("not-idempotent:" + clause_, f"qualifying the result again raised {err} (a {clause_.upper()} column whose "
                                f"qualifier equals a projection alias was printed bare); first result: {s1}")
        if ("Unknown column" in err or "could not be resolved" in err) and "WITH" not in s1.upper() \
                and "USING" not in sql.upper() and "exasol" not in str(dialect):
            # (families with their own recorded signature — hoisted nested WITH, USING, exasol stars — keep the plain kind)
            # a correlated subquery whose own source carries the same alias as a source of an enclosing select: a column the
            # first pass qualified with the OUTER alias is captured by the inner one
            for sel_ in select_nodes(q1):
                if is_source_position(sel_):
                    continue
                outer_ = enclosing_select(sel_)
                inner_names = {it.alias_or_name for it in own_sources(sel_)}
                while outer_ is not None:
                    if inner_names & {it.alias_or_name for it in own_sources(outer_)}:
                        kind_rq = "requalify-raises:inner-alias-shadows-outer-source"
                        break
                    outer_ = enclosing_select(outer_)
        return (kind_rq, f"qualifying the result again raised {err}; first result: {s1}")
    s2 = q2.sql(dialect=dialect)
    if s1 != s2:
        clauses = set()
        # compare what the two TEXTS parse to (the first result's own tree can differ from its re-parsed text in
        # associativity only, e.g. 2 + (a + b) printed as 2 + a + b, which is no difference between the passes)
        try:
            a, b = select_nodes(sqlglot.parse_one(s1, dialect=dialect)), select_nodes(sqlglot.parse_one(s2, dialect=dialect))
        except Exception:  # noqa
            a, b = select_nodes(q1), select_nodes(q2)
        if len(a) == len(b):
            for x, y in zip(a, b):
                for k in set(x.args) | set(y.args):
                    if k in ("from_", "joins", "with_"):
                        continue
                    xv, yv = x.args.get(k), y.args.get(k)
                    if xv != yv:
                        nested = any(isinstance(v, exp.Expr) and v.find(exp.Select) is not None
                                     for v in (xv if isinstance(xv, list) else [xv]))
                        if not nested:
                            clauses.add(k)
        return ("not-idempotent:" + ",".join(sorted(clauses)), f"second qualify changed the query: {s1!r} -> {s2!r}")
    d = Dialect.get_or_raise(dialect)
    ms = MappingSchema(nested_schema, dialect=dialect)
    # every table / derived table has an alias
    for sel in select_nodes(q1):
        for it in own_sources(sel):
            if isinstance(it, (exp.Table, exp.Subquery)) and not it.alias:
                return ("source-without-alias", f"{it.sql(dialect=dialect)!r} has no alias in {s1!r}")
    # every column names a visible source (or is an ORDER BY reference to an output name)
    for sel in select_nodes(q1):
        vis = visible_names(sel)
        outs = {p.alias_or_name for p in sel.expressions}
        for c, clause in columns_of(sel):
            if isinstance(c.this, exp.Star):
                continue
            tname = c.table
            if tname:
                if tname not in vis:
                    kind = "column-source-not-visible"
                    # the body of a (non-lateral) derived table naming a SIBLING source of the select it is a source of
                    x = sel
                    while x is not None:
                        if is_source_position(x):
                            par = enclosing_select(x)
                            if par is not None and any(it.alias_or_name == tname for it in own_sources(par)):
                                kind = "column-names-sibling-source-of-derived-table"
                                break
                        x = enclosing_select(x)
                    if kind == "column-source-not-visible":
                        cte_anc = sel.find_ancestor(exp.CTE)
                        owner = cte_anc.find_ancestor(exp.Select) if cte_anc is not None else None
                        if owner is not None and enclosing_select(owner) is not None:
                            # a CTE defined inside a subquery: its unknown qualifiers are presumed correlated and never checked
                            kind = "unknown-qualifier-in-cte-of-subquery"
                    return (kind, f"column {c.sql(dialect=dialect)} names {tname!r}, visible sources {sorted(vis)} in {s1!r}")
            else:
                if clause == "order" and c.name in outs:
                    continue
                kind = "unqualified-column-in-" + str(clause)
                if c.name in outs:
                    kind += "-output-name"
                return (kind, f"column {c.sql(dialect=dialect)} is left without a source in {s1!r}")
    # a CTE whose body mentions a table of its own name (base table shadowed by the CTE being defined): which
    # object the inner name denotes is engine-specific; star / output-name expectations are not applied there
    for cte in tree.find_all(exp.CTE):
        if any(tb.name and d.normalize_identifier(tb.this.copy()).name == d.normalize_identifier(cte.args["alias"].this.copy()).name
               for tb in cte.this.find_all(exp.Table) if isinstance(tb.this, exp.Identifier)):
            return None
    # generated output names (`_col_<i>` of an unaliased, unnamed projection) are normalised like any other identifier
    sels0g, sels1g = select_nodes(tree), select_nodes(q1)
    if len(sels0g) == len(sels1g):
        for s0, s1n in zip(sels0g, sels1g):
            if any(p.is_star for p in s0.expressions) or len(s0.expressions) != len(s1n.expressions):
                continue
            par = s0.parent
            ncols = len(par.args["alias"].columns) if isinstance(par, (exp.Subquery, exp.CTE)) and par.args.get("alias") is not None else 0
            for i, (p0, p1) in enumerate(zip(s0.expressions, s1n.expressions)):
                if i < ncols or isinstance(p0, (exp.Alias, exp.Aliases)) or p0.alias_or_name or p0.output_name:
                    continue
                want = d.normalize_identifier(exp.to_identifier(f"_col_{i}")).name
                got_n = p1.alias_or_name
                if got_n != want:
                    kind_p = type(p0).__name__ if isinstance(p0, (exp.Subquery, exp.Literal)) else ("Func" if isinstance(p0, exp.Func) else "Expression")
                    return ("generated-output-name-not-normalised:" + kind_p,
                            f"projection {i} ({kind_p}) got the generated name {got_n!r}; the dialect's normalisation of _col_{i} is {want!r} in {s1!r}")
    # stars and output names, select by select
    sels0, sels1 = select_nodes(tree), select_nodes(q1)
    if len(sels0) != len(sels1):
        return None  # qualify restructured the query (join constructs): not comparable select by select
    for s0, s1n in zip(sels0, sels1):
        srcs1 = own_sources(s1n)
        # a star over a struct COLUMN (`alias.col.*`, a Dot) is not a table star: it needs type information to expand
        star_left = any(isinstance(p, exp.Star) or (isinstance(p, exp.Column) and isinstance(p.this, exp.Star))
                        for p in s1n.expressions)
        # columns each source exposes, from the qualified tree / the schema
        src_cols = []
        known = True
        for it in srcs1:
            if isinstance(it, exp.Table):
                cte = None
                anc = it
                # a CTE visible here?
                while anc is not None and cte is None:
                    anc = anc.parent
                    w = anc.args.get("with_") if anc is not None else None
                    if w is not None and not it.args.get("db"):
                        cands = list(w.expressions)
                        # inside one of this WITH's own definitions only the EARLIER ones are visible (not recursive)
                        for ci, cdef in enumerate(cands):
                            node = it
                            inside = False
                            while node is not None and node is not w:
                                if node is cdef:
                                    inside = True
                                    break
                                node = node.parent
                            if inside:
                                cands = cands[:ci]
                                break
                        for cdef in cands:
                            if cdef.alias == it.name:
                                cte = cdef
                if cte is not None:
                    body = cte.this
                    if not isinstance(body, exp.Select):
                        known = False
                        src_cols.append((it.alias_or_name, None))
                    elif any(isinstance(p, exp.Star) or (isinstance(p, exp.Column) and isinstance(p.this, exp.Star))
                             for p in body.expressions):
                        known = False
                        src_cols.append((it.alias_or_name, None))
                    else:
                        src_cols.append((it.alias_or_name, [p.alias_or_name for p in body.expressions]))
                else:
                    cols = schema_cols_for(ms, it)
                    src_cols.append((it.alias_or_name, cols))
                    if not cols:
                        known = False
            elif isinstance(it, exp.Subquery) and isinstance(it.this, exp.Select):
                if any(isinstance(p, exp.Star) or (isinstance(p, exp.Column) and isinstance(p.this, exp.Star))
                       for p in it.this.expressions):
                    # the derived table itself kept a star: its output columns are not known
                    known = False
                    src_cols.append((it.alias_or_name, None))
                else:
                    src_cols.append((it.alias_or_name, [p.alias_or_name for p in it.this.expressions]))
            else:
                known = False
                src_cols.append((it.alias_or_name, None))
        dup = any(cols is not None and len(cols) != len(set(cols)) for _, cols in src_cols)
        has_using = any(j.args.get("using") or j.method == "NATURAL" for j in (s0.args.get("joins") or []))
        if star_left:
            par0 = s0.parent
            had_collist = isinstance(par0, (exp.Subquery, exp.CTE)) and par0.args.get("alias") is not None \
                and bool(par0.args["alias"].args.get("columns"))
            if had_collist:
                par1 = s1n.parent
                kept = isinstance(par1, (exp.Subquery, exp.CTE)) and par1.args.get("alias") is not None \
                    and bool(par1.args["alias"].args.get("columns"))
                if not kept:
                    return ("column-list-alias-dropped-with-unexpanded-star",
                            f"the alias column list {[c.name for c in par0.args['alias'].columns]} of a derived table / CTE "
                            f"whose star could not be expanded was removed without renaming anything: {s1!r}")
            everything_excluded = False
            if known and len(s0.expressions) == 1 and isinstance(s0.expressions[0], exp.Star):
                exc0 = {d.normalize_identifier((x.this if isinstance(x, exp.Column) else x).copy()).name
                        for x in (s0.expressions[0].args.get("except_") or [])}
                everything_excluded = all(c in exc0 for _, cols in src_cols for c in (cols or []))
            if everything_excluded:
                continue  # an empty projection list cannot be written; the star is kept
            nst = sum(1 for p in s0.expressions if p.is_star)
            if known and nst >= 2 and any((p if isinstance(p, exp.Star) else p.this).args.get("except_") for p in s0.expressions if p.is_star):
                return ("star-except-leaks-to-other-star", f"an EXCEPT list emptied every star of the select (it applies to its own star only): {s1!r}")
            if known and not dup and not any(cols is not None and "*" in cols for _, cols in src_cols):
                return ("star-not-expanded", f"a star survives in {s1!r}")
            continue
        # JOIN … ON: a name that qualify itself bound must denote the FROM source or a join at or before this one
        joins1 = s1n.args.get("joins") or []
        joins0 = s0.args.get("joins") or []
        if len(joins1) == len(joins0) == len(src_cols) - 1:
            names_in_order = [a for a, _ in src_cols]
            for ji, (j0_, j1_) in enumerate(zip(joins0, joins1)):
                on0, on1 = j0_.args.get("on"), j1_.args.get("on")
                if on0 is None or on1 is None:
                    continue
                c0 = [c for c in on0.find_all(exp.Column) if c.find_ancestor(exp.Select) is s0]
                c1 = [c for c in on1.find_all(exp.Column) if c.find_ancestor(exp.Select) is s1n]
                if len(c0) != len(c1):
                    continue
                for a0, a1 in zip(c0, c1):
                    if a0.table or not a1.table or a1.table not in names_in_order:
                        continue
                    pos = names_in_order.index(a1.table)
                    if pos > ji + 1:
                        cand = [a for a, cols in src_cols[: ji + 2] if cols and a1.name in cols]
                        # exactly ONE visible owner: the join-context fallback had to pick it (the round-6 signature);
                        # none or several: the name is unresolvable / ambiguous among the visible sources and the recorded
                        # whole-scope behaviour applies (upstream binds instead of raising)
                        kind = "on-column-bound-to-later-join-despite-visible-candidate" if len(cand) == 1 else "on-column-bound-to-later-join"
                        return (kind, f"the bare name {a0.sql(dialect=dialect)} in the ON condition of join #{ji + 1} was bound to "
                                      f"{a1.table!r}, which is joined later (available there: {names_in_order[: ji + 2]}"
                                      + (f"; {cand} expose(s) {a1.name!r}" + ("" if len(cand) == 1 else " (ambiguous among them)") if cand else "")
                                      + f") in {s1!r}")
        if known and has_using and not dup:
            joins0 = s0.args.get("joins") or []
            simple = (len(s0.expressions) == 1 and isinstance(s0.expressions[0], exp.Star)
                      and not any(v not in (None, [], False) for v in s0.expressions[0].args.values())
                      and all(isinstance(it, exp.Table) for it in srcs1)
                      and not any(j.method == "NATURAL" for j in joins0)
                      and len(joins0) == len(src_cols) - 1)
            if simple:
                # SQL: a USING column appears once (from the left side); every other column of every joined
                # table appears, in FROM order; the right side of a SEMI/ANTI join contributes nothing
                want = list(src_cols[0][1])
                for j, (_, cols) in zip(joins0, src_cols[1:]):
                    if j.is_semi_or_anti_join:
                        continue
                    u = {d.normalize_identifier(x.copy()).name for x in (j.args.get("using") or []) if isinstance(x, exp.Identifier)}
                    want += [c for c in cols if c not in u]
                got_u = [p.alias_or_name for p in s1n.expressions]
                if got_u != want:
                    return ("star-with-using-wrong-columns", f"SELECT * over USING joins gives {got_u}, SQL gives {want} in {s1!r}")
        if known and has_using and not dup and all(isinstance(it, exp.Table) for it in srcs1):
            # `t.*` over a table that takes no part in any USING / NATURAL merge = exactly t's columns, as t.c
            joins0 = s0.args.get("joins") or []
            if len(joins0) == len(src_cols) - 1:
                def merged_cols(j, right_cols, left_cols):
                    if j.method == "NATURAL":
                        return {c for c in right_cols if c in left_cols}
                    return {d.normalize_identifier(x.copy()).name for x in (j.args.get("using") or []) if isinstance(x, exp.Identifier)}

                uses = []  # per join: the merged column names
                for ji, j in enumerate(joins0):
                    left_cols = {c for _, cs in src_cols[: ji + 1] for c in (cs or [])}
                    uses.append(merged_cols(j, src_cols[ji + 1][1] or [], left_cols))
                for p in s0.expressions:
                    if not (isinstance(p, exp.Column) and isinstance(p.this, exp.Star)) or p.args.get("db"):
                        continue
                    if any(v not in (None, [], False) for v in p.this.args.values()):
                        continue
                    tname = d.normalize_identifier(p.args["table"].copy()).name
                    pos = [i for i, (a, _) in enumerate(src_cols) if a == tname]
                    if len(pos) != 1 or not src_cols[pos[0]][1]:
                        continue
                    ti = pos[0]
                    tcols = src_cols[ti][1]
                    own = uses[ti - 1] if ti > 0 else set()
                    later = set().union(*uses[ti:]) if uses[ti:] else set()
                    if own or (later & set(tcols)):
                        continue  # t is (or may be) a side of a merge: engines differ on t.* there
                    run = [(tname, c) for c in tcols]
                    flat1 = [(e.table, e.name) if isinstance(e, exp.Column) else None for e in (x.unalias() for x in s1n.expressions)]
                    if not any(flat1[i:i + len(run)] == run for i in range(len(flat1) - len(run) + 1)):
                        earlier_star = any(q.is_star for q in s0.expressions[: s0.expressions.index(p)])
                        return ("star-with-using-wrong-columns" if earlier_star else "qualified-star-wrong-columns",
                                f"{tname}.* must list {tname}'s columns {tcols} ({tname} takes no part in a USING merge); got "
                                f"{[x.sql(dialect=dialect) for x in s1n.expressions]} in {s1!r}")
        if not known or has_using:
            continue
        # expected output names
        expected = []
        exact = True
        outer_cols = []
        par = s0.parent
        if isinstance(par, exp.Subquery) and par.args.get("alias") is not None:
            outer_cols = [d.normalize_identifier(c.copy()).name for c in par.args["alias"].columns]
        elif isinstance(par, exp.CTE):
            outer_cols = [d.normalize_identifier(c.copy()).name for c in par.args["alias"].columns]
        earlier_aliases = set()
        srcmap = dict(src_cols)
        star_seen_except = False
        for p in s0.expressions:
            if isinstance(p, exp.Star) or (isinstance(p, exp.Column) and isinstance(p.this, exp.Star)):
                st = p if isinstance(p, exp.Star) else p.this
                for k, v in st.args.items():
                    if k != "except_" and v not in (None, [], False):
                        exact = False
                exc = {d.normalize_identifier((x.this if isinstance(x, exp.Column) else x).copy()).name for x in (st.args.get("except_") or [])}
                if isinstance(p, exp.Star):
                    tabs = [a for a, _ in src_cols]
                else:
                    tabs = [d.normalize_identifier(p.args["table"].copy()).name]
                for tname in tabs:
                    if tname not in srcmap or srcmap[tname] is None:
                        exact = False
                        break
                    expected += [("star", c) for c in srcmap[tname] if c not in exc]
            elif isinstance(p, exp.Alias):
                al = p.args["alias"]
                nm = d.normalize_identifier(al.copy()).name if isinstance(al, exp.Identifier) else None
                expected.append(("alias", nm))
                if nm:
                    earlier_aliases.add(nm)
            elif isinstance(p, exp.Column):
                nm = d.normalize_identifier(p.this.copy()).name
                bare_alias_ref = not p.table and nm in earlier_aliases
                expected.append(("alias-ref-column" if bare_alias_ref else "column", nm))
            else:
                expected.append(("anon", None))
        if not exact:
            continue
        got = [p.alias_or_name for p in s1n.expressions]
        nstars = sum(1 for p in s0.expressions if p.is_star)
        any_exc = any((p if isinstance(p, exp.Star) else p.this).args.get("except_") for p in s0.expressions if p.is_star)
        if nstars >= 2 and any_exc and got != [n for _, n in expected]:
            return ("star-except-leaks-to-other-star", f"star expansion gives {got}, expected {[n for _, n in expected]} "
                    f"(an EXCEPT list applies to its own star only) in {s1!r}")
        tables_first = [a for a, _ in src_cols if any(isinstance(it, exp.Table) and it.alias_or_name == a for it in srcs1)] + \
                       [a for a, _ in src_cols if any(isinstance(it, exp.Subquery) and it.alias_or_name == a for it in srcs1)]
        if tables_first != [a for a, _ in src_cols] and any(isinstance(p, exp.Star) for p in s0.expressions):
            # the FROM clause mixes derived tables and tables, derived table first
            reordered = []
            for p in s0.expressions:
                if isinstance(p, exp.Star):
                    exc = {d.normalize_identifier((x.this if isinstance(x, exp.Column) else x).copy()).name for x in (p.args.get("except_") or [])}
                    for a in tables_first:
                        reordered += [c for c in srcmap[a] if c not in exc]
                else:
                    reordered.append(None)
            flat_expected = [n for _, n in expected]
            aligned = _align(reordered, s0, srcmap, d, exp)
            nout = len(outer_cols)
            if len(got) == len(flat_expected) and got[nout:] != flat_expected[nout:] and \
                    all(i < nout or r is None or r == g for i, (r, g) in enumerate(zip(aligned, got))):
                return ("star-expansion-order-derived-after-tables", f"SELECT * lists the tables' columns before the derived tables' "
                        f"although the derived table comes first in FROM: got {got}, FROM order gives {flat_expected} in {s1!r}")
        if len(got) != len(expected):
            if any(k == "star" for k, _ in expected):
                return ("star-expansion-wrong", f"star expansion gives {got}, the sources' columns in order are {[n for _, n in expected]} in {s1!r}")
            return ("projection-count-changed", f"{len(expected)} projections became {len(got)} in {s1!r}")
        for i, ((kind, nm), g) in enumerate(zip(expected, got)):
            if i < len(outer_cols):
                if g != outer_cols[i]:
                    return ("column-list-alias-not-applied", f"projection {i} should be named {outer_cols[i]!r} by the alias column list, is {g!r} in {s1!r}")
                continue
            if nm is None:
                continue
            if g != nm:
                if kind == "star":
                    return ("star-expansion-wrong", f"star expansion gives {got}, the sources' columns in order are {[n for _, n in expected]} in {s1!r}")
                return ("output-name-changed:" + kind, f"projection {i} was named {nm!r}, is named {g!r} after qualify: {s1!r}")
        # the expansions themselves: table.column pairs
        j = 0
        for p in s0.expressions:
            if isinstance(p, exp.Star) or (isinstance(p, exp.Column) and isinstance(p.this, exp.Star)):
                st = p if isinstance(p, exp.Star) else p.this
                exc = {d.normalize_identifier((x.this if isinstance(x, exp.Column) else x).copy()).name for x in (st.args.get("except_") or [])}
                tabs = [a for a, _ in src_cols] if isinstance(p, exp.Star) else [d.normalize_identifier(p.args["table"].copy()).name]
                for tname in tabs:
                    for c in srcmap[tname]:
                        if c in exc:
                            continue
                        e = s1n.expressions[j].unalias()
                        if not (isinstance(e, exp.Column) and e.table == tname and e.name == c):
                            return ("star-expansion-wrong", f"projection {j} should be {tname}.{c}, is {e.sql(dialect=dialect)} in {s1!r}")
                        j += 1
            else:
                j += 1
    return None


# ------------------------------------------------------------------------------------------ correspondence
def model_dialect_list():
    rows = dialect_rows()
    # exasol: its generator rewrites what it prints (`LOCAL.` prefixes, table-qualified stars), so the text handed to
    # the second application is not the first result; it stays in the search stream
    out = [r["name"] or None for r in rows if r["base_normalize"] and not r["flags"] and not r["pseudocolumns"]
           and r["name"] != "exasol"]
    out.append("trino, normalization_strategy=case_insensitive_uppercase")
    out.append("duckdb, normalization_strategy=uppercase")
    return out


def mk_dialect(name, st):
    """a dialect instance with an overridden normalization strategy ('' = the base Dialect)"""
    _, _, Dialect, *_ = sg()
    if name:
        return Dialect.get_or_raise(f"{name}, normalization_strategy={st.lower()}")
    return Dialect(normalization_strategy=st)


def strategy_of(dialect):
    _, _, Dialect, *_ = sg()
    return Dialect.get_or_raise(dialect).normalization_strategy.value


def correspond_idents(chk: Check):
    """normalize_identifier / case_sensitive / can_quote of every dialect vs the Lean mirrors"""
    _, exp, Dialect, Dialects, *_ = sg()
    rng = chk.rng
    names = ["a", "A", "aB", "Ab_1", "x y", "1a", "_z", "SELECT", "ABC", "abc", ""] + NONASCII
    lines, expect, info = [], [], []
    for d in Dialects:
        inst = Dialect.get_or_raise(d.value or None)
        base = type(inst).normalize_identifier is Dialect.normalize_identifier
        for st in [None] + STRATS:
            dd = inst if st is None else mk_dialect(d.value, st)
            stv = dd.normalization_strategy.value
            for nm in names:
                ascii_nm = nm.isascii()
                for quoted in (False, True):
                    if base and (ascii_nm or dd.ASCII_ONLY_NORMALIZATION):
                        i = exp.to_identifier(nm, quoted=quoted) if nm else exp.Identifier(this="", quoted=quoted)
                        out = dd.normalize_identifier(i)
                        lines.append(json.dumps({"op": "norm", "st": stv, "name": nm, "quoted": quoted}))
                        expect.append(f"{out.this}\t{'true' if out.args.get('quoted') else 'false'}")
                        info.append(("normalize_identifier", d.value, stv, nm, quoted))
                # case_sensitive: class bits shipped
                lines.append(json.dumps({"op": "cs", "st": stv, "bits": [[c.islower(), c.isupper()] for c in nm]}))
                expect.append("true" if dd.case_sensitive(nm) else "false")
                info.append(("case_sensitive", d.value, stv, nm, None))
                for quoted in (False, True):
                    for func in (False, True):
                        for identify in (True, "safe", "unsafe", False):
                            i = exp.to_identifier(nm, quoted=quoted) if nm else exp.Identifier(this="", quoted=quoted)
                            if func:
                                exp.Anonymous(this=i)
                                parent_func = isinstance(i.parent, exp.Func)
                            else:
                                exp.Column(this=i)
                                parent_func = False
                            got = dd.can_quote(i, identify)
                            lines.append(json.dumps({"op": "canq", "quoted": quoted, "func": parent_func,
                                                     "cs": dd.case_sensitive(nm), "re": bool(exp.SAFE_IDENTIFIER_RE.match(nm)),
                                                     "identify": {True: "true", False: "false"}.get(identify, identify)}))
                            expect.append("true" if got else "false")
                            info.append(("can_quote", d.value, stv, nm, (quoted, func, identify)))
            if st is None and not chk.quick:
                continue
    # de-duplicate identical lines (the driver is pure)
    uniq = {}
    for l, e, i in zip(lines, expect, info):
        if l in uniq and uniq[l][0] != e:
            chk.correspondence_broken("the same identifier question has two answers on the real code (dialect-specific override?)",
                                      {"line": l, "a": uniq[l], "b": (e, i)})
        uniq.setdefault(l, (e, i))
    ls = list(uniq)
    got = chk.driver("C10", ls)
    chk.corr_cases += len(ls)
    for l, g in zip(ls, got):
        e, i = uniq[l]
        chk.count("ident:" + i[0])
        if g != e:
            chk.correspondence_broken(f"{i[0]} differs from the Lean mirror", {"case": i, "model": g, "impl": e})


def correspond_table_sensitive(chk: Check):
    """BigQuery.normalize_identifier in its contexts, and qualify_tables' default db / catalog, vs normalizeT / defaultQualifier"""
    sqlglot, exp, Dialect, Dialects, *_ = sg()
    from sqlglot.optimizer.qualify_tables import qualify_tables

    rows = dialect_rows()
    lines, expect, info = [], [], []
    names = ["a", "MyDs", "ABC", "x_Y1"]
    for r in rows:
        d = r["name"] or None
        dd = Dialect.get_or_raise(d)
        ts = not r["base_normalize"]
        st = dd.normalization_strategy.value
        if ts:
            for nm in names:
                for quoted in (False, True):
                    for ctx in ("column", "table", "table.db:name", "table.db:db", "tag", "quoted_table", "maybe_column", "udf"):
                        i = exp.Identifier(this=nm, quoted=quoted)
                        c = {"udf": False, "twd": False, "qt": False, "mc": False, "tag": False}
                        if ctx == "column":
                            exp.Column(this=i)
                        elif ctx == "table":
                            exp.Table(this=i)
                        elif ctx == "table.db:name":
                            exp.Table(this=i, db=exp.to_identifier("d"))
                            c["twd"] = True
                        elif ctx == "table.db:db":
                            exp.Table(this=exp.to_identifier("t"), db=i)
                            c["twd"] = True
                        elif ctx == "tag":
                            i.meta["is_table"] = True
                            c["tag"] = True
                        elif ctx == "quoted_table":
                            t = exp.Table(this=i, db=exp.to_identifier("d"))
                            t.meta["quoted_table"] = True
                            t.meta["maybe_column"] = True
                            c.update(twd=True, qt=True, mc=True)
                        elif ctx == "maybe_column":
                            t = exp.Table(this=i, db=exp.to_identifier("d"))
                            t.meta["maybe_column"] = True
                            c.update(twd=True, mc=True)
                        else:
                            exp.UserDefinedFunction(this=exp.Dot(this=exp.to_identifier("p"), expression=i))
                            c["udf"] = True
                        out = dd.normalize_identifier(i)
                        lines.append(json.dumps({"op": "normt", "st": st, "ts": True, "name": nm, "quoted": quoted, **c}))
                        expect.append(f"{out.this}\t{'true' if out.args.get('quoted') else 'false'}")
                        info.append(("normalize_identifier(" + ctx + ")", d, nm, quoted))
        # the default db / catalog of qualify_tables (string and Identifier forms)
        for nm in names:
            for quoted in (False, True):
                node = exp.Identifier(this=nm, quoted=quoted)
                for form in ("text", "node"):
                    for which in ("db", "catalog"):
                        try:
                            tree = sqlglot.parse_one("SELECT 1 FROM tbl" if which == "db" else "SELECT 1 FROM d.tbl", dialect=d)
                        except Exception:  # noqa  (dialects without SELECT syntax: dax, prql)
                            continue
                        try:
                            arg = node.sql(dialect=d) if form == "text" else node.copy()
                            res = qualify_tables(tree, dialect=d, **{which: arg})
                            tb = res.find(exp.Table)
                            got = tb.args.get(which)
                            g = f"{got.this}\t{'true' if got.args.get('quoted') else 'false'}" if got is not None else "<none>"
                        except Exception as e:  # noqa
                            g = "<" + type(e).__name__ + ">"
                        lines.append(json.dumps({"op": "defq", "st": st, "ts": ts, "name": nm, "quoted": quoted}))
                        expect.append(g)
                        info.append((f"qualify_tables({which}=<{form}>)", d, nm, quoted))
    got = chk.driver("C10", lines)
    chk.corr_cases += len(lines)
    for g, e, i in zip(got, expect, info):
        chk.count("ident:" + i[0].split("(")[0])
        if g != e:
            chk.correspondence_broken(f"{i[0]} differs from the Lean mirror (normalizeT / defaultQualifier)",
                                      {"case": i, "model": g, "impl": e})


def gen_case(rng, dialect, model_stream, unicode_ok=False):
    g = Gen(rng, dialect, model_stream, unicode_ok)
    schema = g.fresh_schema()
    sql, _ = g.select(0, {})
    return sql, schema, sorted(g.features)


def correspond_queries(chk: Check):
    sqlglot, exp, Dialect, Dialects, OptimizeError, qualify, MappingSchema = sg()
    rng = chk.rng
    dialects = model_dialect_list()
    chk.cov["model_dialects"] = [d or "" for d in dialects]
    n = chk.pick(1500, 30000)
    lines, meta = [], []
    hints = []
    outside = 0
    t0 = time.time()
    for ci in range(n):
        if chk.quick and time.time() - t0 > 28:
            break
        dialect = rng.choice(dialects)
        rr = rng.random()
        if rr > 0.9:
            # bare ON names resolved through the join context, sources of every kind in every order
            sql, schema = gen_join_context_case(rng, dialect)
            feats = ["join-context-template"]
        elif rr < 0.1:
            # nested WITH shadowing an outer CTE / a schema table, siblings before and after
            sql, schema = gen_cte_shadow_case(rng, dialect)
            feats = ["cte-shadow-template"]
        elif rr < 0.3:
            # every join kind in every position over tables sharing column names, stars over each source
            sql, schema = gen_join_star_case(rng, dialect)
            feats = ["join-star-template"]
        else:
            sql, schema, feats = gen_case(rng, dialect, True)
        r = run_real(sql, schema, dialect)
        chk.count("corr:" + r["status"])
        if r["status"] == "parse":
            continue
        if r["status"] == "other":
            hints.append((sql, schema, dialect))
            continue
        ms0 = MappingSchema(schema, dialect=dialect)
        dd0 = Dialect.get_or_raise(dialect)
        star_quotes = any(dd0.case_sensitive(c) for _, cols in flat_schema(ms0) for c in cols)
        try:
            ir_in = ast_to_ir(r["tree"], dialect, star_quotes)
        except Outside as e:
            outside += 1
            chk.count("corr:outside:" + str(e).split(" ")[0])
            continue
        ms = MappingSchema(schema, dialect=dialect)
        st = strategy_of(dialect)
        fs = flat_schema(ms)
        line = json.dumps({"op": "qualify", "st": st, "schema": fs, "scopes": ir_in})
        if r["status"] == "optimize":
            lines.append(line)
            meta.append(("err optimize", sql, schema, dialect, "first"))
            chk.case(("q", sql, dialect), nontrivial=True)
            continue
        q1 = r["q1"]
        try:
            ir_out = names_only(ast_to_ir(q1, dialect))
        except Outside as e:
            outside += 1
            chk.count("corr:outside-result:" + str(e).split(" ")[0])
            continue
        if not all_quoted(q1):
            chk.correspondence_broken("quote_identifiers(identify=True) left an unquoted identifier", {"sql": sql, "dialect": dialect, "result": q1.sql(dialect=dialect)})
        lines.append(line)
        meta.append(("ok " + json.dumps(ir_out, sort_keys=True), sql, schema, dialect, "first"))
        for f in feats:
            chk.count("feature:" + f)
        chk.case(("q", sql, dialect), nontrivial=True,
                 sample={"sql": sql, "dialect": dialect, "qualified": q1.sql(dialect=dialect)} if ci % 211 == 0 else None)
        # second application: the model on the re-parsed first result must reproduce it
        s1, t2, q2, err = second_pass(q1, schema, dialect)
        if err is None:
            try:
                ir2_in = ast_to_ir(t2, dialect)
                ir2_out = names_only(ast_to_ir(q2, dialect))
            except Outside:
                continue
            lines.append(json.dumps({"op": "qualify", "st": st, "schema": fs, "scopes": ir2_in}))
            meta.append(("ok " + json.dumps(ir2_out, sort_keys=True), s1, schema, dialect, "second"))
    got = chk.driver("C10", lines) if lines else []
    chk.corr_cases += len(lines)
    chk.cov["corr_outside_fragment"] = outside
    for g, (e, sql, schema, dialect, which) in zip(got, meta):
        if g.startswith("ok "):
            g = "ok " + json.dumps(json.loads(g[3:]), sort_keys=True)
        chk.count("model:" + g.split(" ")[0] + (" " + g.split(" ")[1] if g.startswith("err") else ""))
        if g == "err unsupported":
            continue  # the model declares the input outside its fragment
        if g != e:
            chk.correspondence_broken(f"qualify ({which} application) differs from qualifyModel",
                                      {"sql": sql, "dialect": dialect, "schema": schema, "model": g[:400], "impl": e[:400]})
            hints.append((sql, schema, dialect))
    return hints


# ------------------------------------------------------------------------------------------ search
def skeleton(sql, dialect):
    """identifiers -> id, numbers -> n (on the token stream of the minimised SQL)"""
    sqlglot, *_ = sg()
    from sqlglot.tokens import TokenType

    out = []
    try:
        toks = sqlglot.tokenize(sql, read=dialect)
    except Exception:  # noqa
        return sql
    for t in toks:
        if t.token_type == TokenType.IDENTIFIER:
            out.append("qid")
        elif t.token_type == TokenType.VAR:
            out.append("id")
        elif t.token_type == TokenType.NUMBER:
            out.append("n")
        else:
            out.append(t.text.upper())
    return " ".join(out)


def minimise(sql, schema, dialect, kind):
    """AST-level delta debugging (drop list elements / optional clauses, hoist operands) keeping the verdict kind"""
    sqlglot, exp, *_ = sg()

    def still(s_):
        try:
            r = oracle(s_, schema, dialect)
        except Exception:  # noqa
            return False
        return r is not None and r[0] == kind

    try:
        tree = sqlglot.parse_one(sql, dialect=dialect)
    except Exception:  # noqa
        return sql
    cur_sql = sql
    t0 = time.time()
    progress = True
    while progress and time.time() - t0 < 8:
        progress = False
        nodes = list(tree.walk())
        cands = []
        for idx, node in enumerate(nodes):
            for k, v in node.args.items():
                if isinstance(v, list):
                    if len(v) == 1 and k == "expressions" and isinstance(node, exp.Select):
                        continue
                    for j in range(len(v)):
                        cands.append(("del", idx, k, j))
                elif isinstance(v, exp.Expr) and k in ("where", "group", "having", "order", "with_", "joins"):
                    cands.append(("drop", idx, k, 0))
            if node.parent is not None and isinstance(node, (exp.Binary, exp.Paren)):
                cands.append(("hoist", idx, "this", 0))
                if isinstance(node, exp.Binary):
                    cands.append(("hoist", idx, "expression", 0))
        # bigger cuts first: nodes near the root come first in walk order
        for act, idx, k, j in cands:
            if time.time() - t0 > 8:
                break
            t = tree.copy()
            n = list(t.walk())[idx]
            try:
                if act == "del":
                    lst = n.args[k]
                    n.set(k, lst[:j] + lst[j + 1:])
                elif act == "drop":
                    n.set(k, None)
                else:
                    child = n.args.get(k)
                    if not isinstance(child, exp.Expr):
                        continue
                    n.replace(child.copy())
                s_ = t.sql(dialect=dialect)
            except Exception:  # noqa
                continue
            if len(s_) < len(cur_sql) and still(s_):
                try:
                    tree = sqlglot.parse_one(s_, dialect=dialect)
                except Exception:  # noqa
                    continue
                cur_sql = s_
                progress = True
                break
    return cur_sql


WITNESSES = [
    ("SELECT * FROM t JOIN u USING (b) JOIN w ON t.a = w.c", {"t": {"a": "INT", "b": "INT"}, "u": {"b": "INT", "c": "INT"}, "w": {"b": "INT", "c": "INT"}}, None),
    ("SELECT b FROM t SEMI JOIN u USING (b)", {"t": {"a": "INT", "b": "INT"}, "u": {"b": "INT", "c": "INT"}}, None),
    # (sql, schema, dialect): the DESIGN §6 style templates + the Lean counter-example witnesses
    ("SELECT a FROM t GROUP BY a HAVING zzz > 1", {"t": {"a": "INT", "b": "INT"}}, None),
    ("SELECT 1 AS x FROM t GROUP BY x HAVING x > 1", {"t": {"a": "INT", "b": "INT"}}, None),
    ("SELECT a AS x, x FROM t", {"t": {"a": "INT", "b": "INT"}}, None),
    ("SELECT a + 1 FROM t GROUP BY a HAVING _col_0 > 1", {"t": {"a": "INT"}}, None),
    ("SELECT * EXCEPT (a), * FROM t", {"t": {"a": "INT", "b": "INT"}}, None),
    ("SELECT * FROM t, u", {"t": {"a": "INT", "b": "INT"}, "u": {"b": "INT", "c": "INT"}}, None),
    ("WITH c(x, y) AS (SELECT a, b FROM t) SELECT * FROM c, c AS c2 ORDER BY 1", {"t": {"a": "INT", "b": "INT"}}, "duckdb"),
    ('SELECT "A", a FROM T AS "T" WHERE A > 1', {"t": {"a": "INT"}}, "snowflake"),
]


def gen_join_star_case(rng, dialect):
    """every join kind in every position over tables that share column names; `t.*` over each source / `*`"""
    g = Gen(rng, dialect, False)
    names = rng.sample(["x", "y", "z", "w"], rng.choice([2, 3, 3, 4]))
    shared = rng.sample(["b", "c", "k"], 2)
    cols = {}
    for n in names:
        cs = [c for c in shared if rng.random() < 0.75] + rng.sample(["a", "d", "e", "f"], rng.choice([0, 1, 2]))
        rng.shuffle(cs)
        cols[n] = cs or ["a"]
    schema = {g.isql(n, False): {g.isql(c, False): "INT" for c in cs} for n, cs in cols.items()}
    aliases = {}
    parts = []
    for i, n in enumerate(names):
        al = rng.choice([None, None, "p%d" % i])
        aliases[n] = al or n
        src = n + (f" AS {al}" if al else "")
        if i == 0:
            parts.append(src)
            continue
        prev = [c for m in names[:i] for c in cols[m]]
        common = [c for c in cols[n] if c in prev]
        r = rng.random()
        kind = rng.choice(["", "", "LEFT ", "INNER "])
        if r < 0.4 and common:
            u = rng.sample(common, rng.choice([1, 1, len(common)]))
            parts.append(f" {kind}JOIN {src} USING ({', '.join(u)})")
        elif r < 0.5 and common:
            parts.append(f" NATURAL JOIN {src}")
        elif r < 0.8:
            m = rng.choice(names[:i])
            parts.append(f" {kind}JOIN {src} ON {aliases[m]}.{rng.choice(cols[m])} = {aliases[n]}.{rng.choice(cols[n])}")
        else:
            parts.append(f" CROSS JOIN {src}")
    r = rng.random()
    if r < 0.25:
        projs = ["*"]
    elif r < 0.6:
        projs = [aliases[rng.choice(names)] + ".*"]
    else:
        projs = [aliases[n] + ".*" for n in rng.sample(names, rng.randint(1, len(names)))]
    return "SELECT " + ", ".join(projs) + " FROM " + "".join(parts), schema


def role_sensitive_dialects():
    """dialects whose normalize_identifier depends on the identifier's ROLE (found by probing: a table-tagged and a plain
    identifier of the same mixed-case spelling normalise differently)"""
    _, exp, Dialect, Dialects, *_ = sg()
    out = []
    for d in Dialects:
        dd = Dialect.get_or_raise(d.value or None)
        a = exp.Identifier(this="TbL", quoted=False)
        a.meta["is_table"] = True
        b = exp.Identifier(this="TbL", quoted=False)
        exp.Column(this=b)
        if dd.normalize_identifier(a).this != dd.normalize_identifier(b).this:
            out.append(d.value or None)
    return out


def gen_role_collision_case(rng, dialect):
    """a schema whose COLUMN names coincide (same mixed-case spelling) with its table / db / catalog keys"""
    g = Gen(rng, dialect, False)
    depth = rng.choice([1, 2, 2, 3])
    names = rng.sample(["Tbl", "Ds", "Cat", "Orders", "MyT"], 3)
    tname, dname, cname = names
    cols = [tname] + rng.sample([dname, cname, "x", "Yy", "k"], rng.choice([1, 2, 3]))
    rng.shuffle(cols)
    q = rng.random() < 0.2
    body = {g.isql(c, q): "INT" for c in cols}
    path = [cname, dname, tname][3 - depth:]
    schema = body
    for p in reversed(path):
        schema = {g.isql(p, q): schema}
    tref = ".".join(g.isql(p, q) for p in path)
    al = rng.choice([None, "t1"])
    r = rng.random()
    if r < 0.4:
        proj = "*"
    elif r < 0.7:
        proj = ", ".join(g.isql(c, q) for c in rng.sample(cols, rng.randint(1, len(cols))))
    else:
        proj = (al or g.isql(tname, q)) + "." + g.isql(rng.choice(cols), q)
    sql = f"SELECT {proj} FROM {tref}" + (f" AS {al}" if al else "")
    if rng.random() < 0.3:
        sql += f" WHERE {g.isql(rng.choice(cols), q)} > 1"
    return sql, schema


def schema_fidelity_oracle(schema, dialect):
    """every key of MappingSchema(schema, dialect).mapping is the dialect's normalisation of the key as written, in ITS role:
    table / db / catalog parts as table parts, column names as columns (each normalised on a fresh identifier)"""
    _, exp, Dialect, Dialects, OptimizeError, qualify, MappingSchema = sg()
    dd = Dialect.get_or_raise(dialect)
    try:
        ms = MappingSchema(schema, dialect=dialect)
    except Exception as e:  # noqa
        return None
    depth = ms.depth()

    def norm(text, is_table):
        i = exp.parse_identifier(text, dialect=dialect)
        if is_table:
            i.meta["is_table"] = True
        return dd.normalize_identifier(i).name

    def rec(raw, got, level, path):
        if level == depth:
            want = [norm(k, False) for k in raw]
            if list(got.keys()) != want:
                return ("schema-column-not-normalised-in-its-role",
                        f"columns of {'.'.join(path)} are stored as {list(got.keys())}; normalising each as a COLUMN gives {want}")
            return None
        for k, v in raw.items():
            nk = norm(k, True)
            if nk not in got:
                return ("schema-table-key-not-normalised-in-its-role", f"table part {k!r} should be stored as {nk!r}; stored keys {list(got.keys())}")
            r = rec(v, got[nk], level + 1, path + [nk])
            if r:
                return r
        return None

    return rec(schema, ms.mapping, 0, [])


def correspond_generated_names(chk: Check):
    """the names qualify_outputs generates for unaliased projections of every kind, for every dialect class and every
    strategy setting, vs the Lean `Gen.colName` instantiation (Ident.normalize of the unquoted `_col_i`)"""
    sqlglot, exp, Dialect, Dialects, OptimizeError, qualify, MappingSchema = sg()
    rows = {r["name"]: r for r in dialect_rows()}
    lines, expect, meta = [], [], []
    sql = "SELECT (SELECT 1), a + 1, (SELECT a FROM t AS i), ABS(a), 1 = 1 FROM t"
    for d in Dialects:
        if not rows[d.value]["base_normalize"] or not d.value and False:
            continue
        for st in [None] + STRATS:
            spec = d.value or None
            if st is not None:
                if not d.value:
                    continue
                spec = f"{d.value}, normalization_strategy={st.lower()}"
            try:
                dd = Dialect.get_or_raise(spec)
                tree = sqlglot.parse_one(sql, dialect=spec)
                q1 = qualify(tree, schema={"t": {"a": "INT"}}, dialect=spec)
            except Exception:  # noqa
                continue
            for i, p in enumerate(q1.expressions):
                lines.append(json.dumps({"op": "norm", "st": dd.normalization_strategy.value, "name": f"_col_{i}", "quoted": False}))
                expect.append(p.alias_or_name)
                meta.append((spec, i, type(p.unalias()).__name__))
    got = chk.driver("C10", lines)
    chk.corr_cases += len(lines)
    for g, e, m in zip(got, expect, meta):
        chk.count("ident:generated-output-name")
        if g.split("\t")[0] != e:
            chk.correspondence_broken("generated output name differs from the normalised _col_i of the model",
                                      {"case": m, "model": g.split("\t")[0], "impl": e})


def correspond_name_memo(chk: Check):
    """MappingSchema._normalize_name call histories (fresh schema per history) vs normMemoRun"""
    _, exp, Dialect, Dialects, OptimizeError, qualify, MappingSchema = sg()
    rng = chk.rng
    rows = {r["name"]: r for r in dialect_rows()}
    lines, expect, meta = [], [], []
    names = ["Tbl", "tbl", "TBL", "x", "Ds"]
    for d in Dialects:
        dname = d.value or None
        dd = Dialect.get_or_raise(dname)
        ts = not rows[d.value]["base_normalize"]
        for _ in range(chk.pick(6, 60)):
            calls = [[rng.choice(names), rng.random() < 0.25, rng.random() < 0.5] for _ in range(rng.randint(2, 7))]
            ms = MappingSchema({}, dialect=dname)
            out = []
            for nm, quoted, is_table in calls:
                out.append(ms._normalize_name(exp.Identifier(this=nm, quoted=quoted), is_table=is_table))
            lines.append(json.dumps({"op": "normmemo", "st": dd.normalization_strategy.value, "ts": ts, "calls": calls}))
            expect.append("\t".join(out))
            meta.append((dname, calls))
    got = chk.driver("C10", lines)
    chk.corr_cases += len(lines)
    for g, e, m in zip(got, expect, meta):
        chk.count("ident:schema-name-memo")
        if g != e:
            chk.correspondence_broken("MappingSchema._normalize_name history differs from normMemoRun", {"case": m, "model": g, "impl": e})


def gen_join_context_case(rng, dialect):
    """multi-join FROM lists mixing derived tables / plain tables / CTE references in every order; one ON condition uses a
    bare name that is ambiguous over the whole scope but owned by exactly one source among those joined so far"""
    g = Gen(rng, dialect, False)
    with_c = {"z": ["c", "e"], "w": ["c", "f"], "v": ["g", "c"]}
    without_c = {"x": ["a", "k"], "y": ["d", "h"], "u": ["m", "b"]}
    schema = {g.isql(t, False): {g.isql(c, False): "INT" for c in cs} for t, cs in {**with_c, **without_c}.items()}
    n = rng.choice([3, 3, 4, 4, 5])
    j = rng.randint(0, n - 3)                       # the join whose ON holds the bare name; it brings in source j + 1
    p = rng.randint(0, j + 1)                       # the source (available there) that owns `c`
    later = rng.randint(j + 2, n - 1)               # another owner of `c`, joined later
    extra_later = [i for i in range(j + 2, n) if i != later and rng.random() < 0.2]
    holders = {p, later, *extra_later}
    kinds = [rng.choice(["table", "derived", "derived", "cte"]) for _ in range(n)]
    if "derived" not in kinds:
        kinds[rng.randrange(n)] = "derived"
    if "table" not in kinds:
        kinds[rng.choice([i for i in range(n) if kinds[i] != "derived"] or [0])] = "table"
    pool_c, pool_n = list(with_c), list(without_c)
    rng.shuffle(pool_c)
    rng.shuffle(pool_n)
    ctes, srcs = [], []                             # srcs: (sql text, alias, columns)
    for i in range(n):
        has_c = i in holders
        if kinds[i] == "table" and (pool_c if has_c else pool_n):
            t = (pool_c if has_c else pool_n).pop()
            al = rng.choice([None, "s%d" % i])
            srcs.append((t + (f" AS {al}" if al else ""), al or t, list((with_c if has_c else without_c)[t])))
        else:
            bt = rng.choice(list(without_c))
            cols = ["c", "r%d" % i] if has_c else ["n%d" % i, "r%d" % i]
            body = f"SELECT {without_c[bt][0]} AS {cols[0]}, {without_c[bt][1]} AS {cols[1]} FROM {bt}"
            if kinds[i] == "cte":
                ctes.append(f"c{i} AS ({body})")
                al = rng.choice([None, "s%d" % i])
                srcs.append((f"c{i}" + (f" AS {al}" if al else ""), al or f"c{i}", cols))
            else:
                srcs.append((f"({body}) AS q{i}", f"q{i}", cols))
    parts = [srcs[0][0]]
    for i in range(1, n):
        text, al, cols = srcs[i]
        own = [c for c in cols if c != "c"][0]
        if i == j + 1:
            side = rng.random() < 0.5
            cond = f"{al}.{own} = c" if side else f"c = {al}.{own}"
            parts.append(f" {rng.choice(['', 'LEFT ', 'INNER '])}JOIN {text} ON {cond}")
        elif rng.random() < 0.6:
            pa, pcols = srcs[rng.randrange(i)][1:]
            pown = [c for c in pcols if c != "c"][0]
            parts.append(f" JOIN {text} ON {pa}.{pown} = {al}.{own}")
        else:
            parts.append(f" CROSS JOIN {text}")
    proj = rng.choice(["*", f"{srcs[p][1]}.c", "1 AS one"])
    sql = ("WITH " + ", ".join(ctes) + " " if ctes else "") + f"SELECT {proj} FROM " + "".join(parts)
    return sql, schema


def gen_cte_shadow_case(rng, dialect):
    """a WITH nested inside an earlier sibling (derived table / CTE body / subquery) defines a name N that also denotes an
    outer CTE or a schema table; a LATER sibling selects from N.  Lexically the later sibling sees the outer CTE / the table."""
    g = Gen(rng, dialect, False)
    cols = {"t": ["a", "k"], "u": ["b", "k"], "c": ["x", "y"], "w": ["k", "d"], "o": ["e"]}
    schema = {g.isql(n, False): {g.isql(c, False): "INT" for c in cs} for n, cs in cols.items()}
    base = ["t", "u", "c", "w"]
    n = rng.choice(["c", "c", "t", "n1"])             # the contested name (a schema table for c / t; neither for n1)
    inner_tab = rng.choice([b for b in base if b != n])
    inner_body = f"SELECT {rng.choice(cols[inner_tab])} AS {rng.choice(['b', 'z', 'k'])} FROM {inner_tab}"
    outer_ctes = []
    outer_has_n = rng.random() < 0.5 or n == "n1"
    if outer_has_n:
        ot = rng.choice([b for b in base if b not in (n, inner_tab)] or base)
        outer_ctes.append(f"{n} AS (SELECT {rng.choice(cols[ot])} AS {rng.choice(['a', 'q'])} FROM {ot})")
    if rng.random() < 0.85 or not outer_ctes:
        outer_ctes.append(f"o AS (SELECT k FROM w)")
    if rng.random() < 0.3:
        rng.shuffle(outer_ctes)
    with_outer = rng.random() < 0.9
    early_kind = rng.choice(["derived", "derived", "cte", "subquery"])
    late_kind = rng.choice(["derived", "derived", "cte", "subquery"])
    nested = f"WITH {n} AS ({inner_body}) SELECT * FROM {n}"
    late = f"SELECT * FROM {n}"
    ctes = list(outer_ctes) if with_outer else []
    frm = []
    where = []
    def place(kind, body, alias):
        if kind == "derived":
            frm.append(f"({body}) AS {alias}")
        elif kind == "cte":
            ctes.append(f"{alias} AS ({body})")
            frm.append(alias)
        else:
            where.append(f"1 IN ({body})" if False else f"(SELECT 1 FROM ({body}) AS z{alias} LIMIT 1) = 1")
    order = [("e", early_kind, nested, "s1"), ("l", late_kind, late, "s2")]
    if rng.random() < 0.15:
        order.reverse()                                 # control: the nested WITH comes AFTER the plain reference
    for _, kind, body, alias in order:
        place(kind, body, alias)
    if not frm:
        frm.append("o" if with_outer and any(c.startswith("o AS") for c in ctes) else "w")
    sql = ("WITH " + ", ".join(ctes) + " " if ctes else "") + "SELECT * FROM " + " CROSS JOIN ".join(frm)
    if where:
        sql += " WHERE " + " AND ".join(where)
    return sql, schema


def cte_ops(tree, dialect):
    """linearise the scope building of a query into branch / update / resolve operations, in sqlglot's traversal order
    (_traverse_ctes, then _traverse_tables in FROM order, then subqueries); returns (ops, refs, defs) where refs lists the
    Table nodes resolved and defs maps CTE-definition id -> CTE node"""
    _, exp, Dialect, *_ = sg()
    ops, refs, defs = [], [], []
    counter = [1]   # scope 0 = root

    def new_scope(parent, extra):
        ops.append({"o": "branch", "p": parent, "x": [[k, v] for k, v in extra]})
        sid = counter[0]
        counter[0] += 1
        return sid

    def walk_query(q, sid):
        if isinstance(q, exp.Subquery):
            q = q.unnest()
        if isinstance(q, exp.SetOperation):
            raise Outside("set operation")
        if not isinstance(q, exp.Select):
            raise Outside("not a select")
        w = q.args.get("with_")
        if w is not None:
            if w.args.get("recursive"):
                raise Outside("recursive")
            acc = []
            for cte in w.expressions:
                child = new_scope(sid, list(acc))
                walk_query(cte.this, child)
                did = len(defs)
                defs.append(cte)
                acc.append((cte.alias, did))
            ops.append({"o": "update", "s": sid, "d": [[k, v] for k, v in reversed(acc)]})
        items = []
        f = q.args.get("from_")
        if f is not None:
            items.append(f.this)
        for j in q.args.get("joins") or []:
            items.append(j.this)
        for it in items:
            if isinstance(it, exp.Table):
                if not it.args.get("db") and isinstance(it.this, exp.Identifier):
                    ops.append({"o": "resolve", "s": sid, "n": it.name})
                    refs.append(it)
            elif isinstance(it, exp.Subquery):
                child = new_scope(sid, [])
                walk_query(it.this, child)
            else:
                raise Outside("source")
        # subqueries in projections / WHERE / ...: every Select / Subquery directly below this select that is not a source
        def subs(node):
            for k, v in node.args.items():
                if node is q and k in ("with_", "from_", "joins"):
                    continue
                for c in (v if isinstance(v, list) else [v]):
                    if not isinstance(c, exp.Expr):
                        continue
                    if isinstance(c, (exp.Select, exp.SetOperation)):
                        yield c
                    elif isinstance(c, exp.Subquery) and isinstance(c.this, (exp.Select, exp.SetOperation)):
                        yield c.this
                    else:
                        yield from subs(c)
        for sq in subs(q):
            child = new_scope(sid, [])
            walk_query(sq, child)

    walk_query(tree, 0)
    return ops, refs, defs


def correspond_cte_visibility(chk: Check):
    """which CTE definition (or schema table) every table reference denotes: real build_scope vs the Lean store model"""
    sqlglot, exp, Dialect, Dialects, *_ = sg()
    from sqlglot.optimizer.scope import Scope, traverse_scope
    from sqlglot.optimizer.normalize_identifiers import normalize_identifiers

    rng = chk.rng
    lines, expect, meta = [], [], []
    n = chk.pick(160, 3000)
    for ci in range(n):
        if rng.random() < 0.7:
            sql, schema = gen_cte_shadow_case(rng, None)
        else:
            sql, schema, _ = gen_case(rng, None, True)
        try:
            tree = normalize_identifiers(sqlglot.parse_one(sql))
            ops, refs, defs = cte_ops(tree, None)
            scopes = traverse_scope(tree)
        except Outside:
            continue
        except Exception:  # noqa
            continue
        if not refs:
            continue
        body_to_def = {id(d.this.unnest() if isinstance(d.this, exp.Subquery) else d.this): i for i, d in enumerate(defs)}
        real = {}
        ambiguous = False
        for sc in scopes:
            names = [tb.alias_or_name for tb in sc.tables] + [dt.alias for dt in sc.derived_tables]
            if len(names) != len(set(names)):
                ambiguous = True   # two sources of one select share a name: `sources[name]` cannot be attributed
            for tb in sc.tables:
                src = sc.sources.get(tb.alias_or_name)
                if isinstance(src, Scope):
                    real[id(tb)] = body_to_def.get(id(src.expression), -2)
                else:
                    real[id(tb)] = None
        if ambiguous or any(real.get(id(tb)) == -2 for tb in refs):
            continue  # a table shares its alias with a derived table of the same select: `sources[alias]` is not this table's
        want = " ".join("-" if real.get(id(tb)) is None else str(real[id(tb)]) for tb in refs)
        lines.append(json.dumps({"op": "ctes", "ops": ops}))
        expect.append(want)
        meta.append(sql)
        chk.count("ctes:resolved-references", len(refs))
        if ci % 97 == 0:
            chk.case(("ctes", sql), nontrivial=True, sample={"sql": sql, "resolves": want})
    got = chk.driver("C10", lines) if lines else []
    chk.corr_cases += len(lines)
    for g, e, sql in zip(got, expect, meta):
        if g != e:
            chk.correspondence_broken("CTE visibility: what each table reference denotes (build_scope vs the Lean scope store)",
                                      {"sql": sql, "model": g, "impl": e})


def db_default_oracle(sql, schema, dialect, as_text, use_catalog, pick):
    """qualify(<tables written without db>, db=D[, catalog=C]) must equal qualify(<the same tables hand-qualified D.t>, db=D[, catalog=C])"""
    sqlglot, exp, Dialect, Dialects, OptimizeError, qualify, MappingSchema = sg()
    try:
        full = sqlglot.parse_one(sql, dialect=dialect)
    except Exception:  # noqa
        return None
    tabs = [t for t in full.find_all(exp.Table) if isinstance(t.args.get("db"), exp.Identifier) and isinstance(t.this, exp.Identifier)]
    if use_catalog:
        tabs = [t for t in tabs if isinstance(t.args.get("catalog"), exp.Identifier)]
    else:
        tabs = [t for t in tabs if not t.args.get("catalog")]
    if not tabs:
        return None
    t0 = tabs[pick % len(tabs)]
    dbi, cati = t0.args["db"], (t0.args.get("catalog") if use_catalog else None)
    ctes = {c.alias.lower() for c in full.find_all(exp.CTE)}
    short = full.copy()
    stripped = 0
    dd = Dialect.get_or_raise(dialect)

    def name_stable(t):
        # BigQuery folds an UNQUALIFIED table name (it may be a CTE) and keeps a qualified one: by design
        bare = exp.Table(this=t.this.copy())
        return dd.normalize_identifier(bare.this).this == dd.normalize_identifier(t.copy().this).this

    for t in short.find_all(exp.Table):
        if t.args.get("db") == dbi and t.name.lower() not in ctes and name_stable(t) and \
                ((cati is None and not t.args.get("catalog")) or (cati is not None and t.args.get("catalog") == cati)):
            t.set("db", None)
            t.set("catalog", None)
            stripped += 1
    if not stripped:
        return None
    kw = {"db": dbi.sql(dialect=dialect) if as_text else dbi.copy()}
    if cati is not None:
        kw["catalog"] = cati.sql(dialect=dialect) if as_text else cati.copy()
    outs = []
    for tree in (full, short):
        try:
            outs.append(qualify(tree.copy(), schema=schema, dialect=dialect, **kw).sql(dialect=dialect))
        except Exception as e:  # noqa  (which of several errors is met first may differ; that both fail is what counts)
            outs.append(f"<error: {type(e).__name__}: {str(e)[:80]}>")
    if outs[0] != outs[1] and not (outs[0].startswith("<error") and outs[1].startswith("<error")):
        return ("default-db-differs-from-hand-qualified",
                f"{short.sql(dialect=dialect)!r} with {', '.join(k + '=' + repr(v if isinstance(v, str) else v.sql(dialect=dialect)) for k, v in kw.items())} "
                f"qualifies to {outs[1][:220]!r}; written out as {full.sql(dialect=dialect)!r} it qualifies to {outs[0][:220]!r}")
    return None


def db_arg_oracle(sql, schema, dialect, db_name, quoted):
    """qualify(db=<identifier text in the dialect's quoting>) must equal qualify(db=<the Identifier node>)"""
    sqlglot, exp, Dialect, Dialects, OptimizeError, qualify, MappingSchema = sg()
    node = exp.Identifier(this=db_name, quoted=quoted)
    text = node.sql(dialect=dialect)
    outs = []
    for arg in (text, node.copy()):
        try:
            tree = sqlglot.parse_one(sql, dialect=dialect)
        except Exception:  # noqa
            return None
        try:
            outs.append(qualify(tree, schema=schema, dialect=dialect, db=arg).sql(dialect=dialect))
        except OptimizeError:
            outs.append("<OptimizeError>")
        except Exception as e:  # noqa
            outs.append(f"<{type(e).__name__}>")
    if outs[0] != outs[1]:
        return ("db-argument-string-vs-identifier", f"qualify(db={text!r}) gives {outs[0][:200]!r}; qualify(db=Identifier({db_name!r}, quoted={quoted})) gives {outs[1][:200]!r}")
    return None


def consider(chk: Check, sql, schema, dialect, stats):
    try:
        res = oracle(sql, schema, dialect)
    except RecursionError:
        return
    stats["tried"] += 1
    if res is None:
        return
    kind = res[0]
    stats["violating"] += 1
    small = minimise(sql, schema, dialect, kind)
    res2 = oracle(small, schema, dialect) or res
    key = kind + "|" + skeleton(small, dialect)
    chk.report_violation(key, res2[1], {"sql": small, "schema": schema, "dialect": dialect, "original_sql": sql},
                         context={"kind": kind, "dialect": (dialect or "").split(",")[0].strip()})


def search_idents(chk: Check):
    """normalize_identifier on every dialect (incl. overrides): idempotent; case-sensitive identifiers untouched"""
    _, exp, Dialect, Dialects, *_ = sg()
    rng = chk.rng
    names = ["a", "A", "aB", "ABC", "x y", "Σσς", "ὈΔΥΣΣΕΎΣ", "İi", "straße", "ǅx", "ÀB", "ı", "ſ", "K"] + \
            ["".join(chr(rng.choice([rng.randint(0x41, 0x7a), rng.randint(0xc0, 0x24f), rng.randint(0x370, 0x3ff), 0x3a3]))
                     for _ in range(rng.randint(1, 5))) for _ in range(chk.pick(200, 3000))]
    bad = 0
    for d in Dialects:
        for st in [None] + STRATS:
            spec = d.value if st is None else (d.value or "") + ", normalization_strategy=" + st.lower()
            dd = Dialect.get_or_raise(d.value or None) if st is None else mk_dialect(d.value, st)
            strat = dd.normalization_strategy.value
            for nm in names:
                for quoted in (False, True):
                    for is_table in (False, True):
                        i = exp.Identifier(this=nm, quoted=quoted)
                        if is_table:
                            i.meta["is_table"] = True
                            exp.Table(this=i)
                        else:
                            exp.Column(this=i)
                        once = dd.normalize_identifier(i.copy() if not is_table else i)
                        n1, q1 = once.this, bool(once.args.get("quoted"))
                        twice = dd.normalize_identifier(once)
                        n2 = twice.this
                        what = None
                        if n2 != n1:
                            what = f"normalize_identifier is not idempotent: {nm!r} -> {n1!r} -> {n2!r}"
                            k = "normalize-not-idempotent"
                        elif q1 != quoted:
                            what = f"normalize_identifier changed the quoted flag of {nm!r}"
                            k = "normalize-changes-quoted"
                        elif n1 != nm and (strat == "CASE_SENSITIVE" or (quoted and strat in ("LOWERCASE", "UPPERCASE"))):
                            what = f"a case-sensitive identifier was altered: {'quoted ' if quoted else ''}{nm!r} -> {n1!r} under {strat}"
                            k = "case-sensitive-identifier-altered"
                        if what and bad < 3:
                            bad += 1
                            chk.report_violation(f"{k}|{strat}|quoted={quoted}", what,
                                                 {"ident": {"dialect": spec, "name": nm, "quoted": quoted, "is_table": is_table}},
                                                 context={"kind": k})
    chk.count("search:identifier-questions", len(names) * 4 * 6 * len(list(Dialects)))
    # string entry point: normalize_identifiers("<identifier in the dialect's own quoting>", dialect) must parse
    # the text with THAT dialect and agree with normalising the Identifier node
    from sqlglot.optimizer.normalize_identifiers import normalize_identifiers

    for d in Dialects:
        dd = Dialect.get_or_raise(d.value or None)
        for nm in ["a", "Ab", "AB", "x y", "Straße"]:
            for quoted in (False, True):
                if not quoted and not nm.isidentifier():
                    continue
                node = exp.Identifier(this=nm, quoted=quoted)
                text = node.sql(dialect=d.value or None)
                want = dd.normalize_identifier(node.copy())
                try:
                    got = normalize_identifiers(text, dialect=d.value or None)
                    g = (got.this, bool(got.args.get("quoted"))) if isinstance(got, exp.Identifier) else ("<" + type(got).__name__ + ">", None)
                except Exception as e:  # noqa
                    g = ("<" + type(e).__name__ + ">", None)
                w = (want.this, bool(want.args.get("quoted")))
                chk.count("search:identifier-string-entry")
                if g != w and bad < 3:
                    bad += 1
                    chk.report_violation(f"normalize-identifiers-string-entry|quoted={quoted}",
                                         f"normalize_identifiers({text!r}, dialect={d.value!r}) gives {g}, normalising the Identifier node gives {w}",
                                         {"ident": {"dialect": d.value, "name": nm, "quoted": quoted, "is_table": False}},
                                         context={"kind": "normalize-identifiers-string-entry", "dialect": d.value or ""})


def search(chk: Check, hints, budget_s):
    sqlglot, exp, Dialect, Dialects, OptimizeError, qualify, MappingSchema = sg()
    rng = chk.rng
    t0 = time.time()
    stats = {"tried": 0, "violating": 0}
    search_idents(chk)
    for sql, schema, dialect in WITNESSES + list(hints)[:20]:
        consider(chk, sql, schema, dialect, stats)
    all_d = [d.value or None for d in Dialects]
    role_d = role_sensitive_dialects()
    chk.cov["role_sensitive_dialects"] = [str(x) for x in role_d]
    while time.time() - t0 < budget_s:
        dialect = rng.choice(all_d)
        if rng.random() < 0.15:
            # the normalisation strategy given as a dialect SETTING (any class x any strategy)
            dialect = (dialect or "") + ", normalization_strategy=" + rng.choice(STRATS).lower() if dialect else rng.choice(all_d[1:]) + ", normalization_strategy=" + rng.choice(STRATS).lower()
            chk.count("search:strategy-as-setting")
        if rng.random() < 0.12:
            # unaliased projections of every kind side by side
            dq = dialect
            gq = Gen(rng, dq, False)
            schq = {gq.isql("t", False): {gq.isql("a", False): "INT", gq.isql("b", False): "INT"}}
            kinds = ["(SELECT 1)", "(SELECT a FROM t AS i)", "a + 1", "7", "ABS(a)", "a", "(a)", "1 = 1"]
            rng.shuffle(kinds)
            sqlq = "SELECT " + ", ".join(kinds[: rng.randint(2, 6)]) + " FROM t"
            if rng.random() < 0.3:
                sqlq = f"SELECT _col_0 FROM ({sqlq}) AS s" if not sqlq.startswith("SELECT a ") else sqlq
            chk.count("search:unaliased-projection-template")
            consider(chk, sqlq, schq, dq, stats)
        try:
            sql, schema, feats = gen_case(rng, dialect, False, unicode_ok=rng.random() < 0.3)
        except Exception:  # noqa
            raise
        for f in feats:
            chk.count("search-feature:" + f)
        chk.case(("s", sql, dialect), nontrivial=True)
        consider(chk, sql, schema, dialect, stats)
        if rng.random() < 0.15:
            dbn, qd = rng.choice(DB_NAMES), rng.random() < 0.6
            res = db_arg_oracle(sql, schema, dialect, dbn, qd)
            chk.count("search:db-argument-string-entry")
            if res:
                chk.report_violation(res[0] + "|" + skeleton(sql, dialect)[:80], res[1],
                                     {"sql": sql, "schema": schema, "dialect": dialect, "db": [dbn, qd]},
                                     context={"kind": res[0], "dialect": dialect or ""})
        if rng.random() < 0.3:
            # default db / catalog against depth-2/3 schemas keyed by (mixed-case) names; bigquery keeps table parts
            # case-sensitive, so it is drawn often
            d2 = rng.choice(["bigquery", "bigquery", None, "snowflake", "mysql"] + all_d)
            g2 = Gen(rng, d2, False)
            g2.min_depth, g2.full_paths = 2, True
            schema2 = g2.fresh_schema()
            if rng.random() < 0.7:
                # small valid queries: stars and known columns over fully written tables
                picks = rng.sample(g2.flat, min(len(g2.flat), rng.choice([1, 1, 2])))
                frm, sel = [], []
                for pi, (path, cols) in enumerate(picks):
                    q_ = rng.random() < 0.3
                    al = rng.choice([None, "s%d" % pi])
                    frm.append(".".join(g2.isql(p, q_) for p in path) + (f" AS {al}" if al else ""))
                    sel.append(rng.choice(["*", (al or g2.isql(path[-1], q_)) + ".*", (al or g2.isql(path[-1], q_)) + "." + g2.isql(rng.choice(cols), q_)]))
                if "*" in sel:
                    sel = ["*"]
                sql2 = "SELECT " + ", ".join(sel) + " FROM " + " CROSS JOIN ".join(frm)
            else:
                sql2, _ = g2.select(0, {})
            for _ in range(2):
                args = [rng.random() < 0.5, rng.random() < 0.4, rng.randint(0, 5)]
                res = db_default_oracle(sql2, schema2, d2, *args)
                chk.count("search:default-db-vs-hand-qualified")
                if res:
                    chk.report_violation(res[0] + "|" + str(d2) + "|" + skeleton(sql2, d2)[:60], res[1],
                                         {"sql": sql2, "schema": schema2, "dialect": d2, "dbdefault": args},
                                         context={"kind": res[0], "dialect": d2 or ""})
                    break
        if rng.random() < 0.25:
            d3 = rng.choice(all_d)
            sql3, schema3 = gen_join_star_case(rng, d3)
            chk.count("search:join-star-template")
            consider(chk, sql3, schema3, d3, stats)
        if rng.random() < 0.25:
            # column names spelled like table / db / catalog keys, mostly under role-sensitive dialects
            d6 = rng.choice(role_d) if role_d and rng.random() < 0.7 else rng.choice(all_d)
            sql6, schema6 = gen_role_collision_case(rng, d6)
            chk.count("search:role-collision-template")
            fr = schema_fidelity_oracle(schema6, d6)
            if fr:
                chk.report_violation(fr[0] + "|" + str(d6), fr[1], {"schema_only": True, "sql": sql6, "schema": schema6, "dialect": d6},
                                     context={"kind": fr[0], "dialect": d6 or ""})
            consider(chk, sql6, schema6, d6, stats)
        if rng.random() < 0.2:
            d5 = rng.choice(all_d)
            sql5, schema5 = gen_join_context_case(rng, d5)
            chk.count("search:join-context-template")
            consider(chk, sql5, schema5, d5, stats)
        if rng.random() < 0.2:
            d4 = rng.choice(all_d)
            sql4, schema4 = gen_cte_shadow_case(rng, d4)
            chk.count("search:cte-shadow-template")
            consider(chk, sql4, schema4, d4, stats)
        if len(chk.violations) >= 4:
            break
    chk.search_info = {"ran": True, "budget_s": budget_s, "queries": stats["tried"], "violating": stats["violating"],
                       "oracle": "qualify twice: byte-identical; all sources aliased; every column names a visible source "
                                 "(or ORDER BY output name); stars = source columns in schema order; output names unchanged; "
                                 "only OptimizeError raised"}


def validate_case_hypotheses(chk: Check) -> None:
    """CaseFns.Ok for str.lower/str.upper and for the ASCII translate tables, against CPython."""
    from sqlglot.dialects import dialect as dmod

    step = chk.pick(5, 1)
    bad = 0
    lo, up = dmod.ASCII_LOWER, dmod.ASCII_UPPER
    for cp in range(0, 0x110000, step):
        if 0xD800 <= cp <= 0xDFFF:
            continue
        c = chr(cp)
        l, u = c.lower(), c.upper()
        if l.lower() != l or u.upper() != u:
            bad += 1
        if c.translate(lo).translate(lo) != c.translate(lo) or c.translate(up).translate(up) != c.translate(up):
            bad += 1
    # str.lower is context-sensitive only for capital sigma; strings with sigmas, both maps, twice
    rng = chk.rng
    for _ in range(chk.pick(2000, 50000)):
        s = "".join(rng.choice("aAσΣς .-bİıſßǅ") for _ in range(rng.randint(0, 8)))
        if s.lower().lower() != s.lower() or s.upper().upper() != s.upper():
            bad += 1
    chk.cov["case_fn_hypotheses"] = {"code_points_checked": len(range(0, 0x110000, step)), "violations": bad}
    if bad:
        raise HarnessError("str.lower/upper (or ASCII table) idempotence hypothesis fails on this CPython")


def run(chk: Check) -> None:
    import logging

    logging.getLogger("sqlglot").setLevel(logging.CRITICAL)
    chk.trusted.append("C10: hand-written model Model/Qualify.lean of one select scope of qualify (steps A-G listed in the file), "
                       "the flattening of the AST into scopes (vf/props/c10.py: ast_to_ir), and the normalized MappingSchema "
                       "taken from the real code as the model's schema")
    chk.assumptions += [
        "CaseFns.Ok (lower/upper idempotent) validated against CPython (stride in quick, all code points in thorough)",
        "model correspondence uses dialects with base normalize_identifier and default qualify flags and ASCII identifiers; joins: "
        "CROSS / comma / USING / NATURAL / ON with qualified columns; SEMI/ANTI joins, ON conditions with bare names, correlated "
        "subqueries, unions, non-ASCII names and the other dialects are covered by the search oracle only "
        "(BigQuery.normalize_identifier and qualify_tables' default db/catalog are compared with normalizeT / defaultQualifier)",
        "pipeline idempotence and output-name preservation are proved for scopes without USING/NATURAL joins whose stars were expanded "
        "and (idempotence) with no bare name under HAVING; the rest is checked by correspondence (second application)",
        "a star over a source that exposes duplicate or unknown column names is left unexpanded by design (not counted as a violation)",
        "second-pass identity of the normalisation stage is proved per identifier (normalize_requote_stable), the scope stage on names",
    ]
    chk.write_generated(translate(chk))
    proved = chk.prove(MODULES, "Properties.C10", THEOREMS)
    validate_case_hypotheses(chk)
    hints = []
    try:
        correspond_idents(chk)
        correspond_table_sensitive(chk)
        correspond_cte_visibility(chk)
        correspond_name_memo(chk)
        correspond_generated_names(chk)
        hints = correspond_queries(chk)
    except HarnessError as e:
        if proved:
            raise
        chk.note(f"model driver unavailable ({e}); continuing with the search on the real code")
    budget = chk.pick(14, 240)
    if chk.broken:
        budget *= 3
    search(chk, hints, budget)


def replay(path: str) -> int:
    import sys

    sys.path.insert(0, REPO)
    rec = json.load(open(path))
    r = rec.get("replay")
    if not r:
        print(json.dumps(rec, indent=1)[:3000])
        return 1
    if "ident" in r:
        _, exp, Dialect, *_ = sg()
        i = r["ident"]
        dd = Dialect.get_or_raise(i["dialect"] or None)
        x = exp.Identifier(this=i["name"], quoted=i["quoted"])
        once = dd.normalize_identifier(x.copy()).this
        twice = dd.normalize_identifier(exp.Identifier(this=once, quoted=i["quoted"])).this
        print("replay:", i, "->", repr(once), "->", repr(twice))
        return 1
    if r.get("schema_only"):
        res = schema_fidelity_oracle(r["schema"], r["dialect"]) or oracle(r["sql"], r["schema"], r["dialect"])
        print("replay:", "VIOLATES: " + res[0] + ": " + res[1] if res else "holds")
        return 1 if res else 0
    if "dbdefault" in r:
        res = db_default_oracle(r["sql"], r["schema"], r["dialect"], *r["dbdefault"])
        print("replay:", "VIOLATES: " + res[0] + ": " + res[1] if res else "holds")
        return 1 if res else 0
    if "db" in r:
        res = db_arg_oracle(r["sql"], r["schema"], r["dialect"], r["db"][0], r["db"][1])
        print("replay:", "VIOLATES: " + res[0] + ": " + res[1] if res else "holds")
        return 1 if res else 0
    res = oracle(r["sql"], r["schema"], r["dialect"])
    if res:
        # a replay that now only shows a recorded known finding is reported as such (the finding it was written for is gone)
        import re as _re
        from vf.core import _load_known

        key = res[0] + "|" + skeleton(r["sql"], r["dialect"])
        for k in _load_known():
            m = k.get("match", {})
            if k.get("property") == "C10" and k.get("kind") == "known" and (
                    m.get("key") == key or ("key_regex" in m and _re.fullmatch(m["key_regex"], key, _re.S))):
                if all({"kind": res[0], "dialect": (r["dialect"] or "").split(",")[0].strip()}.get(ck) == cv for ck, cv in m.get("context", {}).items()):
                    print(f"replay: holds (only the recorded known finding {k['id']} shows: {res[0]})")
                    return 0
    print("replay:", "VIOLATES: " + res[0] + ": " + res[1] if res else "holds")
    return 1 if res else 0
