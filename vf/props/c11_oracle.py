#!/venv/bin/python
"""C11 differential search oracle: sqlglot.executor.execute vs SQLite and DuckDB.

Property: for every query of the supported fragment and every small database,
execute() returns the same column names and rows as SQLite/DuckDB (multiset of
rows; exact sequence when the query has a total ORDER BY) or raises ExecuteError.

IR (JSON-serialisable)
  query  := select | {"k":"setop","op":"UNION|INTERSECT|EXCEPT","all":bool,"l":select,"r":select,
                      "order":[okey]|None,"limit":int|None,"offset":int|None}
  select := {"k":"select","distinct":bool,"from":{"t":tbl,"as":alias},
             "joins":[{"side":"INNER|LEFT|RIGHT|FULL|CROSS","t":tbl,"as":alias,"on":pred|None}],
             "where":pred|None,"group":[expr],"having":pred|None,
             "proj":[{"e":expr,"as":alias|None}],
             "order":[okey]|None,"limit":int|None,"offset":int|None}
  okey   := {"e":expr | ["out",name],"desc":bool,"nf":bool}
  expr   := ["col",alias,name] | ["int",n] | ["str",s] | ["null"]
          | ["arith",op,l,r] | ["cmp",op,l,r] | ["and",l,r] | ["or",l,r] | ["not",p]
          | ["isnull",e,neg] | ["in",e,[lit..],neg] | ["between",e,lo,hi]
          | ["case",cond,then,else|None] | ["coalesce",a,b] | ["agg",name,arg|None]
          | ["insub",e,select,neg] | ["exists",select,neg] | ["scalar",select]

Choices made: AVG and division are never generated (exactness); boolean-valued
projections are generated rarely (~2%) and all values are canonicalised
(bool -> 0/1).  Ints are only compared with ints, texts with texts.
"""
from __future__ import annotations

import argparse
import collections
import copy
import json
import logging
import random
import sqlite3
import sys
import time
import warnings

import duckdb
from sqlglot.errors import ExecuteError, SqlglotError
from sqlglot.executor import execute as _sg_execute
from sqlglot.executor.table import Table

logging.getLogger("sqlglot").setLevel(logging.ERROR)
warnings.filterwarnings("ignore", category=SyntaxWarning)  # sqlglot's generated python: "-1 is None"

TABLES = ("x", "y", "z")
COLS = ("a", "b", "c")
COLTYPE = {"a": "int", "b": "int", "c": "text"}
SCHEMA = {t: {"a": "INT", "b": "INT", "c": "TEXT"} for t in TABLES}
INTS = [-1, 0, 1, 2, 3]
TEXTS = ["a", "b", ""]
CMP_OPS = ["=", "<>", "<", "<=", ">", ">="]
ARITH_OPS = ["+", "-", "*"]
SIDES = ["INNER", "LEFT", "RIGHT", "FULL", "CROSS"]
# probability that the two arms of a set operation may start from the same table alias
# (sqlglot's planner names an arm's root step after that alias; equal names collide -> see triage notes)
ARM_SAME_BASE_P = 0.25


# --------------------------------------------------------------------------- data
def gen_db(rng):
    db = {}
    for t in TABLES:
        n = 0 if rng.random() < 0.22 else rng.randint(1, 5)
        allnull = [rng.random() < 0.10 for _ in COLS]
        rows = []
        for _ in range(n):
            if rows and rng.random() < 0.30:
                rows.append(rng.choice(rows))
                continue
            row = []
            for i, c in enumerate(COLS):
                if allnull[i] or rng.random() < 0.25:
                    row.append(None)
                elif COLTYPE[c] == "int":
                    row.append(rng.choice(INTS))
                else:
                    row.append(rng.choice(TEXTS))
            rows.append(tuple(row))
        db[t] = rows
    return db


# --------------------------------------------------------------------------- generator
class _Gen:
    def __init__(self, rng):
        self.rng = rng
        self.nsub = 0

    # ---- scalar expressions
    def lit(self, typ):
        r = self.rng
        if r.random() < 0.04:
            return ["null"]
        return ["int", r.choice(INTS)] if typ == "int" else ["str", r.choice(TEXTS)]

    def col(self, scope, typ):
        r = self.rng
        return ["col", r.choice(scope), r.choice(["a", "b"]) if typ == "int" else "c"]

    def expr(self, scope, typ, depth):
        r = self.rng
        if depth <= 0 or r.random() < 0.5:
            return self.col(scope, typ) if r.random() < 0.8 else self.lit(typ)
        k = r.random()
        if typ == "int" and k < 0.5:
            return ["arith", r.choice(ARITH_OPS), self.expr(scope, "int", depth - 1),
                    self.expr(scope, "int", depth - 1)]
        if k < 0.75:
            return ["coalesce", self.col(scope, typ), self.expr(scope, typ, depth - 1)]
        els = self.expr(scope, typ, depth - 1) if r.random() < 0.75 else None
        return ["case", self.pred(scope, depth - 1, None), self.expr(scope, typ, depth - 1), els]

    def lits(self, typ):
        r = self.rng
        n = r.randint(1, 3)
        out = [["int", r.choice(INTS)] if typ == "int" else ["str", r.choice(TEXTS)] for _ in range(n)]
        if r.random() < 0.3:
            out.insert(r.randint(0, len(out)), ["null"])
        return out

    def pred(self, scope, depth, sub_outer):
        """sub_outer: None = no subqueries allowed, else list of aliases visible to a subquery."""
        r = self.rng
        if depth > 0 and r.random() < 0.35:
            k = r.random()
            if k < 0.4:
                return ["and", self.pred(scope, depth - 1, sub_outer), self.pred(scope, depth - 1, sub_outer)]
            if k < 0.8:
                return ["or", self.pred(scope, depth - 1, sub_outer), self.pred(scope, depth - 1, sub_outer)]
            return ["not", self.pred(scope, depth - 1, sub_outer)]
        typ = "int" if r.random() < 0.75 else "text"
        k = r.random()
        if sub_outer is not None and k < 0.22:
            return self.subpred(scope, sub_outer)
        k = r.random()
        if k < 0.5:
            return ["cmp", r.choice(CMP_OPS), self.expr(scope, typ, 1),
                    self.expr(scope, typ, 1) if r.random() < 0.5 else self.lit(typ)]
        if k < 0.68:
            return ["isnull", self.expr(scope, typ, 1), r.random() < 0.5]
        if k < 0.9:
            return ["in", self.expr(scope, typ, 1), self.lits(typ), r.random() < 0.4]
        lo, hi = self.lit(typ), self.lit(typ)
        return ["between", self.expr(scope, typ, 1), lo, hi]

    # ---- subqueries
    def subpred(self, scope, outer):
        r = self.rng
        k = r.random()
        typ = "int" if r.random() < 0.75 else "text"
        if k < 0.4:
            corr = r.random() < 0.15
            q = self.subselect(outer, "in", typ, corr)
            return ["insub", self.expr(scope, typ, 1), q, r.random() < 0.4]
        if k < 0.75:
            q = self.subselect(outer, "exists", typ, r.random() < 0.65)
            return ["exists", q, r.random() < 0.4]
        q = self.subselect(outer, "scalar", typ, False)
        return ["cmp", r.choice(CMP_OPS), self.expr(scope, typ, 1), ["scalar", q]]

    def subselect(self, outer, role, typ, corr):
        r = self.rng
        a0 = "s%d" % self.nsub
        self.nsub += 1
        q = _empty_select(r.choice(TABLES), a0)
        scope = [a0]
        if r.random() < 0.15:
            a1 = "s%d" % self.nsub
            self.nsub += 1
            side = r.choice(["INNER", "LEFT", "CROSS"])
            scope.append(a1)
            q["joins"].append({"side": side, "t": r.choice(TABLES), "as": a1,
                               "on": None if side == "CROSS" else self.on(scope[:-1], a1)})
        conj = []
        if corr and outer:
            t = "int" if r.random() < 0.8 else "text"
            op = "=" if r.random() < 0.8 else r.choice(CMP_OPS)
            conj.append(["cmp", op, self.col(scope, t), self.col(outer, t)])
        if r.random() < 0.5:
            conj.append(self.pred(scope, 1, None))
        if conj:
            q["where"] = conj[0] if len(conj) == 1 else ["and", conj[0], conj[1]]
        if role == "scalar":
            q["proj"] = [{"e": self.agg(scope, typ), "as": "c0"}]
        elif role == "exists":
            q["proj"] = [{"e": ["int", 1], "as": "c0"}] if r.random() < 0.7 else [{"e": self.col(scope, typ), "as": None}]
        else:
            e = self.expr(scope, typ, 1)
            q["proj"] = [{"e": e, "as": None if e[0] == "col" else "c0"}]
            if r.random() < 0.15:
                q["distinct"] = True
        return q

    # ---- joins
    def on(self, prev, new):
        r = self.rng
        k = r.random()
        if k < 0.8:
            typ = "int" if r.random() < 0.8 else "text"
            eq = ["cmp", "=", self.col(prev, typ), self.col([new], typ)]
            if r.random() < 0.5:
                eq = ["cmp", "=", eq[3], eq[2]]
            if r.random() < 0.3:
                res = self.pred(prev + [new], 0, None)
                return ["and", eq, res]
            if r.random() < 0.1:
                eq2 = ["cmp", "=", self.col(prev, "int"), self.col([new], "int")]
                return ["and", eq, eq2]
            return eq
        if k < 0.92:
            typ = "int" if r.random() < 0.8 else "text"
            return ["cmp", r.choice(CMP_OPS[1:]), self.col(prev, typ), self.col([new], typ)]
        return self.pred(prev + [new], 1, None)

    # ---- aggregates
    def agg(self, scope, typ):
        r = self.rng
        if typ == "text":
            return ["agg", r.choice(["MIN", "MAX"]), self.col(scope, "text")]
        k = r.random()
        if k < 0.2:
            return ["agg", "COUNT", None]
        if k < 0.4:
            return ["agg", "COUNT", self.col(scope, r.choice(["int", "text"]))]
        arg = self.col(scope, "int") if r.random() < 0.75 else self.expr(scope, "int", 1)
        return ["agg", r.choice(["SUM", "SUM", "MIN", "MAX"]), arg]

    def aggexpr(self, scope, typ):
        r = self.rng
        a = self.agg(scope, typ)
        if typ == "int" and r.random() < 0.15:
            if r.random() < 0.5:
                return ["coalesce", a, ["int", 0]]
            return ["arith", r.choice(ARITH_OPS), a, ["int", r.choice(INTS)]]
        return a

    def having(self, scope, keys):
        r = self.rng

        def leaf():
            if keys and r.random() < 0.3:
                k = r.choice(keys)
                t = _typeof_loose(k)
                if t in ("int", "text"):
                    return ["cmp", r.choice(CMP_OPS), k, self.lit(t)] if r.random() < 0.7 else ["isnull", k, r.random() < 0.5]
            a = self.agg(scope, "int")
            if r.random() < 0.2:
                return ["isnull", a, r.random() < 0.5]
            return ["cmp", r.choice(CMP_OPS), a, ["int", r.choice(INTS)]]

        p = leaf()
        if r.random() < 0.25:
            p = [r.choice(["and", "or"]), p, leaf()]
        return p

    def keyexpr(self, keys, typ):
        """A NON-INJECTIVE expression of the group keys with result type `typ` (different groups may collide:
        NULL vs the COALESCE default, values a CASE threshold or an arithmetic operator does not separate)."""
        r = self.rng
        same = [kx for kx in keys if _typeof_loose(kx) == typ]
        anyk = r.choice(keys)
        anyt = _typeof_loose(anyk)
        lit2 = (lambda: ["int", r.choice([0, 0, 1, -1])]) if typ == "int" else (lambda: ["str", r.choice(TEXTS)])
        k = r.random()
        if same and k < 0.35:
            return ["coalesce", r.choice(same), lit2()]
        if same and typ == "int" and k < 0.6:
            a = r.choice(same)
            others = [x for x in same if x != a]
            if others and r.random() < 0.6:
                return ["arith", r.choice(ARITH_OPS), a, r.choice(others)]
            return ["arith", r.choice(["*", "-"]), a, a if r.random() < 0.3 else ["int", r.choice([0, 0, 2])]] \
                if r.random() < 0.6 else ["arith", "*", a, a]
        if anyt in ("int", "text"):
            cond = ["isnull", anyk, r.random() < 0.5] if r.random() < 0.35 else \
                ["cmp", r.choice(CMP_OPS), anyk, ["int", r.choice([0, 1, 1])] if anyt == "int" else ["str", r.choice(TEXTS)]]
            return ["case", cond, lit2(), lit2() if r.random() < 0.7 else None]
        return ["coalesce", r.choice(same), lit2()] if same else lit2()

    # ---- select
    def select(self, role, types=None, avoid_base=None):
        """role: 'top' | 'arm'."""
        r = self.rng
        k = r.random()
        ntab = 1 if k < 0.35 else (2 if k < 0.88 else 3)
        aliases = []
        q = None
        for i in range(ntab):
            t = r.choice(TABLES)
            if i == 0 and avoid_base is not None:
                t = r.choice([x for x in TABLES if x != avoid_base])
            alias = t
            if alias in aliases:
                alias = t + str(i + 1)
            if i == 0:
                q = _empty_select(t, alias)
            else:
                side = r.choice(SIDES) if r.random() < 0.85 else "FULL"
                on = None if side == "CROSS" else self.on(list(aliases), alias)
                q["joins"].append({"side": side, "t": t, "as": alias, "on": on})
            aliases.append(alias)
        scope = aliases
        if r.random() < 0.6:
            q["where"] = self.pred(scope, 2 if r.random() < 0.3 else 1, list(scope))
        if types is None:
            types = ["int" if r.random() < 0.7 else "text" for _ in range(r.randint(1, 3))]
        m = r.random()
        mode = "plain" if m < 0.55 else ("group" if m < 0.8 else "global")
        proj = []
        if mode == "plain":
            for typ in types:
                k = r.random()
                if role == "top" and k < 0.02:
                    e = self.pred(scope, 1, None)
                elif k < 0.7:
                    e = self.col(scope, typ)
                elif k < 0.76:
                    q0 = self.subselect(list(scope), "scalar", typ, False)
                    e = ["scalar", q0]
                else:
                    e = self.expr(scope, typ, 2 if r.random() < 0.3 else 1)
                proj.append({"e": e, "as": None})
            q["distinct"] = r.random() < 0.2
        else:
            keys = []
            if mode == "group":
                for _ in range(r.randint(1, 2)):
                    if r.random() < 0.9:
                        kx = self.col(scope, "int" if r.random() < 0.7 else "text")
                    else:
                        kx = ["arith", r.choice(ARITH_OPS), self.col(scope, "int"), self.col(scope, "int")]
                    if kx not in keys:
                        keys.append(kx)
            q["group"] = keys
            # DISTINCT / HAVING / ORDER BY / LIMIT interactions over *expressions of the keys*: a third of the grouped
            # selects project only keys and non-injective functions of keys (no aggregate needed to be valid)
            keyish = mode == "group" and r.random() < 0.4
            n_keyexpr = 0
            for typ in types:
                cands = [kx for kx in keys if _typeof_loose(kx) == typ]
                u = r.random()
                if keys and u < (0.6 if keyish else 0.12):
                    e = self.keyexpr(keys, typ)
                    n_keyexpr += 1
                elif cands and u < (0.9 if keyish else 0.5):
                    e = r.choice(cands)
                elif keys and typ == "int" and u < 0.56:
                    e = ["arith", r.choice(ARITH_OPS), self.keyexpr(keys, "int"), self.agg(scope, "int")]
                    n_keyexpr += 1
                else:
                    e = self.aggexpr(scope, typ)
                proj.append({"e": e, "as": None})
            if r.random() < (0.35 if mode == "group" else 0.1):
                q["having"] = self.having(scope, keys)
                if keys and r.random() < 0.3:
                    q["having"] = [r.choice(["and", "or"]), q["having"],
                                   ["cmp", r.choice(CMP_OPS), self.keyexpr(keys, "int"), ["int", r.choice([0, 1])]]]
            if r.random() < (0.55 if n_keyexpr else (0.3 if keyish else 0.05)):
                q["distinct"] = True
        # aliases / unique names
        names = set()
        allow_dup = role == "top" and r.random() < 0.1
        for i, p in enumerate(proj):
            if p["e"][0] != "col" or (p["e"][2] in names and not allow_dup) or r.random() < 0.05:
                p["as"] = "c%d" % i
            elif role == "arm":
                p["as"] = p["e"][2]  # SQLite matches compound ORDER BY terms only against explicit aliases
            names.add(p["as"] or p["e"][2])
        q["proj"] = proj
        if role == "top":
            self.order(q, False)
        return q

    def order(self, q, is_setop):
        r = self.rng
        if r.random() >= 0.55:
            return
        refs = _out_refs(q)
        keys = []
        sel = q if not is_setop else None
        if sel is not None and not sel["distinct"] and not sel["group"] and not _has_agg_proj(sel) and r.random() < 0.2:
            scope = [sel["from"]["as"]] + [j["as"] for j in sel["joins"]]
            e = self.col(scope, "int" if r.random() < 0.7 else "text")
            if e not in refs:
                keys.append(e)
        some = [x for x in refs if r.random() < 0.5]
        r.shuffle(some)
        keys += some
        total = r.random() < 0.85
        if total:
            rest = [x for x in refs if x not in keys]
            r.shuffle(rest)
            keys += rest
        if not keys:
            return
        q["order"] = [{"e": k, "desc": r.random() < 0.5, "nf": r.random() < 0.5} for k in keys]
        if total and r.random() < 0.55:
            q["limit"] = r.randint(0, 4)
            if r.random() < 0.45:
                q["offset"] = r.randint(0, 3)

    def query(self):
        r = self.rng
        if r.random() < 0.18:
            left = self.select("arm")
            types = [_typeof_loose(p["e"]) for p in left["proj"]]
            types = [t if t in ("int", "text") else "int" for t in types]
            avoid = None if r.random() < ARM_SAME_BASE_P else left["from"]["as"]
            right = self.select("arm", types, avoid)
            q = {"k": "setop", "op": r.choice(["UNION", "INTERSECT", "EXCEPT"]), "all": r.random() < 0.45,
                 "l": left, "r": right, "order": None, "limit": None, "offset": None}
            self.order(q, True)
            return q
        return self.select("top")


def _empty_select(t, alias):
    return {"k": "select", "distinct": False, "from": {"t": t, "as": alias}, "joins": [], "where": None,
            "group": [], "having": None, "proj": [], "order": None, "limit": None, "offset": None}


def gen_query(rng):
    for _ in range(50):
        ir = _Gen(rng).query()
        if _valid(ir):
            return ir
    raise RuntimeError("generator could not produce a valid query")


# --------------------------------------------------------------------------- IR helpers
def _out_names(sel):
    return [p["as"] or (p["e"][2] if p["e"][0] == "col" else "?") for p in sel["proj"]]


def _out_refs(q):
    """Expressions usable in ORDER BY that denote each output column."""
    if q["k"] == "setop":
        return [["out", n] for n in _out_names(q["l"])]
    return [["out", p["as"]] if p["as"] else p["e"] for p in q["proj"]]


def is_ordered(ir):
    if not ir.get("order"):
        return False
    keys = [k["e"] for k in ir["order"]]
    return all(ref in keys for ref in _out_refs(ir))


def _subexprs(e):
    """Direct child expressions (not descending into subquery selects)."""
    k = e[0]
    if k in ("arith", "cmp"):
        return [e[2], e[3]]
    if k in ("and", "or", "coalesce"):
        return [e[1], e[2]]
    if k in ("not", "isnull"):
        return [e[1]]
    if k == "in":
        return [e[1]] + list(e[2])
    if k == "between":
        return [e[1], e[2], e[3]]
    if k == "case":
        return [e[1], e[2]] + ([e[3]] if e[3] is not None else [])
    if k == "agg":
        return [e[2]] if e[2] is not None else []
    if k == "insub":
        return [e[1]]
    return []


def _subquery(e):
    k = e[0]
    if k == "insub":
        return e[2]
    if k in ("exists", "scalar"):
        return e[1]
    return None


def _walk_expr(e, fe, fq):
    fe(e)
    for c in _subexprs(e):
        _walk_expr(c, fe, fq)
    sq = _subquery(e)
    if sq is not None:
        _walk_query(sq, fe, fq)


def _sel_exprs(sel):
    out = [j["on"] for j in sel["joins"] if j["on"] is not None]
    if sel["where"] is not None:
        out.append(sel["where"])
    out += sel["group"]
    if sel["having"] is not None:
        out.append(sel["having"])
    out += [p["e"] for p in sel["proj"]]
    return out


def _walk_query(q, fe, fq):
    fq(q)
    if q["k"] == "setop":
        _walk_query(q["l"], fe, fq)
        _walk_query(q["r"], fe, fq)
    else:
        for e in _sel_exprs(q):
            _walk_expr(e, fe, fq)
    for k in q.get("order") or []:
        if k["e"][0] != "out":
            _walk_expr(k["e"], fe, fq)


def _has_agg(e):
    found = []

    def fe(x):
        if x[0] == "agg":
            found.append(1)

    # do not descend into subqueries: aggregates there belong to them
    def rec(x):
        fe(x)
        for c in _subexprs(x):
            rec(c)

    rec(e)
    return bool(found)


def _has_agg_proj(sel):
    return any(_has_agg(p["e"]) for p in sel["proj"]) or (sel["having"] is not None)


def _typeof_loose(e):
    try:
        return _typeof(e, None, True)
    except _Invalid:
        return "?"


# --------------------------------------------------------------------------- validity / typing
class _Invalid(Exception):
    pass


def _unify(a, b):
    if a == "null":
        return b
    if b == "null" or a == b:
        return a
    raise _Invalid("type mismatch %s/%s" % (a, b))


def _scalar_t(t):
    if t == "bool":
        raise _Invalid("bool operand")
    return t


def _typeof(e, scope, agg_ok):
    """scope: set of visible aliases, or None to skip scope checks."""
    k = e[0]
    if k == "col":
        if scope is not None and e[1] not in scope:
            raise _Invalid("unknown alias " + e[1])
        return COLTYPE[e[2]]
    if k == "int":
        return "int"
    if k == "str":
        return "text"
    if k == "null":
        return "null"
    if k == "arith":
        for c in (e[2], e[3]):
            if _unify(_scalar_t(_typeof(c, scope, agg_ok)), "int") != "int":
                raise _Invalid("arith on non-int")
        return "int"
    if k == "cmp":
        _unify(_scalar_t(_typeof(e[2], scope, agg_ok)), _scalar_t(_typeof(e[3], scope, agg_ok)))
        return "bool"
    if k in ("and", "or"):
        if _typeof(e[1], scope, agg_ok) != "bool" or _typeof(e[2], scope, agg_ok) != "bool":
            raise _Invalid("and/or on non-bool")
        return "bool"
    if k == "not":
        if _typeof(e[1], scope, agg_ok) != "bool":
            raise _Invalid("not on non-bool")
        return "bool"
    if k == "isnull":
        _scalar_t(_typeof(e[1], scope, agg_ok))
        return "bool"
    if k == "in":
        t = _scalar_t(_typeof(e[1], scope, agg_ok))
        if not e[2]:
            raise _Invalid("empty IN list")
        for l in e[2]:
            if l[0] not in ("int", "str", "null"):
                raise _Invalid("non literal in IN list")
            t = _unify(t, _typeof(l, scope, agg_ok))
        return "bool"
    if k == "between":
        t = _scalar_t(_typeof(e[1], scope, agg_ok))
        t = _unify(t, _scalar_t(_typeof(e[2], scope, agg_ok)))
        _unify(t, _scalar_t(_typeof(e[3], scope, agg_ok)))
        return "bool"
    if k == "case":
        if _typeof(e[1], scope, agg_ok) != "bool":
            raise _Invalid("case cond")
        t = _scalar_t(_typeof(e[2], scope, agg_ok))
        if e[3] is not None:
            t = _unify(t, _scalar_t(_typeof(e[3], scope, agg_ok)))
        if t == "null":
            raise _Invalid("untyped case")
        return t
    if k == "coalesce":
        t = _unify(_scalar_t(_typeof(e[1], scope, agg_ok)), _scalar_t(_typeof(e[2], scope, agg_ok)))
        if t == "null":
            raise _Invalid("untyped coalesce")
        return t
    if k == "agg":
        if not agg_ok:
            raise _Invalid("aggregate not allowed here")
        name, arg = e[1], e[2]
        if arg is None:
            if name != "COUNT":
                raise _Invalid("star arg")
            return "int"
        t = _scalar_t(_typeof(arg, scope, False))
        if _has_subquery(arg):
            raise _Invalid("subquery in aggregate")
        if t == "null":
            raise _Invalid("agg of NULL literal")
        if name == "COUNT":
            return "int"
        if name == "SUM":
            if t != "int":
                raise _Invalid("SUM of text")
            return "int"
        if name in ("MIN", "MAX"):
            return t
        raise _Invalid("unknown agg")
    if k == "insub":
        t = _scalar_t(_typeof(e[1], scope, agg_ok))
        outs = _check_select(e[2], scope, "sub")
        if len(outs) != 1:
            raise _Invalid("IN subquery arity")
        _unify(t, _scalar_t(outs[0][1]))
        return "bool"
    if k == "exists":
        _check_select(e[1], scope, "sub")
        return "bool"
    if k == "scalar":
        q = e[1]
        outs = _check_select(q, scope, "sub")
        if len(outs) != 1 or q["group"] or not _has_agg(q["proj"][0]["e"]) or q["having"] is not None:
            raise _Invalid("scalar subquery must be a single global aggregate")
        return _scalar_t(outs[0][1])
    raise _Invalid("unknown expr kind %r" % (k,))


def _has_subquery(e):
    if _subquery(e) is not None:
        return True
    return any(_has_subquery(c) for c in _subexprs(e))


def _refs(e, acc):
    """aliases referenced by e including inside nested subqueries."""
    def fe(x):
        if x[0] == "col":
            acc.add(x[1])
    _walk_expr(e, fe, lambda q: None)
    return acc


def _group_valid(e, keys, scope):
    if e in keys:
        return True
    k = e[0]
    if k == "agg":
        return True
    if k == "col":
        return False
    sq = _subquery(e)
    if sq is not None:
        inner = set()
        _walk_query(sq, lambda x: inner.add(x[1]) if x[0] == "col" else None, lambda q: None)
        if inner & set(scope):
            return False
    return all(_group_valid(c, keys, scope) for c in _subexprs(e))


def _check_select(q, outer, role):
    """Returns [(name, type)] of the outputs; raises _Invalid.  role: top|arm|sub."""
    if q.get("k") != "select":
        raise _Invalid("not a select")
    aliases = [q["from"]["as"]] + [j["as"] for j in q["joins"]]
    if len(set(aliases)) != len(aliases) or (outer and set(aliases) & set(outer)):
        raise _Invalid("alias clash")
    for t in [q["from"]["t"]] + [j["t"] for j in q["joins"]]:
        if t not in TABLES:
            raise _Invalid("unknown table")
    seen = {aliases[0]}
    for j in q["joins"]:
        seen.add(j["as"])
        if j["side"] not in SIDES:
            raise _Invalid("side")
        if j["side"] == "CROSS":
            if j["on"] is not None:
                raise _Invalid("CROSS with ON")
        else:
            if j["on"] is None or _typeof(j["on"], set(seen), False) != "bool" or _has_subquery(j["on"]):
                raise _Invalid("bad ON")
    own = set(aliases)
    scope = own | set(outer or ())
    if q["where"] is not None:
        if _typeof(q["where"], scope, False) != "bool":
            raise _Invalid("where type")
        if role == "sub" and _has_subquery(q["where"]):
            raise _Invalid("nested subquery")
    if not q["proj"]:
        raise _Invalid("no projections")
    aggmode = bool(q["group"]) or q["having"] is not None or any(_has_agg(p["e"]) for p in q["proj"])
    for kx in q["group"]:
        t = _typeof(kx, own, False)
        if t not in ("int", "text") or _has_subquery(kx) or kx[0] in ("int", "str", "null"):
            raise _Invalid("group key")
    outs = []
    for p in q["proj"]:
        t = _typeof(p["e"], scope, aggmode)
        if t == "bool" and role != "top":
            raise _Invalid("bool projection in arm/sub")
        if aggmode and not _group_valid(p["e"], q["group"], own):
            raise _Invalid("projection not functionally dependent on group")
        if role == "sub" and _has_subquery(p["e"]):
            raise _Invalid("nested subquery")
        if p["as"] is None and p["e"][0] != "col":
            raise _Invalid("missing alias")
        outs.append((p["as"] or p["e"][2], t))
    if q["having"] is not None:
        if _typeof(q["having"], own, True) != "bool" or not _group_valid(q["having"], q["group"], own):
            raise _Invalid("having")
        if _has_subquery(q["having"]):
            raise _Invalid("subquery in having")
    names = [n for n, _ in outs]
    if role in ("arm", "sub"):
        if q["order"] or q["limit"] is not None or q["offset"] is not None:
            raise _Invalid("order/limit in arm or subquery")
        if role == "arm" and len(set(names)) != len(names):
            raise _Invalid("duplicate names in arm")
    else:
        _check_order(q, names, own, aggmode)
    return outs


def _check_order(q, names, own, aggmode):
    refs = _out_refs(q)
    for k in q.get("order") or []:
        e = k["e"]
        if e[0] == "out":
            if names.count(e[1]) != 1 or e not in refs:
                raise _Invalid("order ref")
        elif e in refs:
            pass
        else:
            if q["k"] == "setop" or aggmode or q["distinct"]:
                raise _Invalid("order key not in output")
            if e[0] != "col" or e[1] not in own:
                raise _Invalid("order key")
    if q.get("order") is not None and not q["order"]:
        raise _Invalid("empty order")
    if q["limit"] is not None:
        if not is_ordered(q) or not (0 <= q["limit"] <= 100):
            raise _Invalid("limit without total order")
    if q["offset"] is not None:
        if q["limit"] is None or q["offset"] < 0:
            raise _Invalid("offset without limit")


def _check(ir):
    if ir.get("k") == "setop":
        if ir["op"] not in ("UNION", "INTERSECT", "EXCEPT"):
            raise _Invalid("setop")
        lo = _check_select(ir["l"], None, "arm")
        ro = _check_select(ir["r"], None, "arm")
        if len(lo) != len(ro):
            raise _Invalid("arity")
        for (_, a), (_, b) in zip(lo, ro):
            _unify(a, b)
        _check_order(ir, [n for n, _ in lo], set(), False)
        return lo
    return _check_select(ir, None, "top")


def _valid(ir):
    try:
        _check(ir)
        return True
    except _Invalid:
        return False
    except (KeyError, IndexError, TypeError, AttributeError):
        return False


# --------------------------------------------------------------------------- render
def _sq(s):
    return "'" + s.replace("'", "''") + "'"


def _rx(e):
    k = e[0]
    if k == "col":
        return "%s.%s" % (e[1], e[2])
    if k == "out":
        return e[1]
    if k == "int":
        return str(e[1])
    if k == "str":
        return _sq(e[1])
    if k == "null":
        return "NULL"
    if k in ("arith", "cmp"):
        return "(%s %s %s)" % (_rx(e[2]), e[1], _rx(e[3]))
    if k in ("and", "or"):
        return "(%s %s %s)" % (_rx(e[1]), k.upper(), _rx(e[2]))
    if k == "not":
        return "(NOT %s)" % _rx(e[1])
    if k == "isnull":
        return "(%s IS %sNULL)" % (_rx(e[1]), "NOT " if e[2] else "")
    if k == "in":
        return "(%s %sIN (%s))" % (_rx(e[1]), "NOT " if e[3] else "", ", ".join(_rx(l) for l in e[2]))
    if k == "between":
        return "(%s BETWEEN %s AND %s)" % (_rx(e[1]), _rx(e[2]), _rx(e[3]))
    if k == "case":
        els = " ELSE %s" % _rx(e[3]) if e[3] is not None else ""
        return "CASE WHEN %s THEN %s%s END" % (_rx(e[1]), _rx(e[2]), els)
    if k == "coalesce":
        return "COALESCE(%s, %s)" % (_rx(e[1]), _rx(e[2]))
    if k == "agg":
        return "%s(%s)" % (e[1], "*" if e[2] is None else _rx(e[2]))
    if k == "insub":
        return "(%s %sIN (%s))" % (_rx(e[1]), "NOT " if e[3] else "", _rsel(e[2]))
    if k == "exists":
        return "(%sEXISTS (%s))" % ("NOT " if e[2] else "", _rsel(e[1]))
    if k == "scalar":
        return "(%s)" % _rsel(e[1])
    raise ValueError("cannot render %r" % (e,))


def _rtab(t):
    return t["t"] if t["t"] == t["as"] else "%s AS %s" % (t["t"], t["as"])


def _rtail(q):
    s = ""
    if q.get("order"):
        s += " ORDER BY " + ", ".join(
            "%s %s NULLS %s" % (_rx(k["e"]), "DESC" if k["desc"] else "ASC", "FIRST" if k["nf"] else "LAST")
            for k in q["order"])
    if q.get("limit") is not None:
        s += " LIMIT %d" % q["limit"]
        if q.get("offset") is not None:
            s += " OFFSET %d" % q["offset"]
    return s


def _rsel(q):
    s = "SELECT " + ("DISTINCT " if q["distinct"] else "")
    s += ", ".join(_rx(p["e"]) + (" AS " + p["as"] if p["as"] else "") for p in q["proj"])
    s += " FROM " + _rtab(q["from"])
    for j in q["joins"]:
        if j["side"] == "CROSS":
            s += " CROSS JOIN " + _rtab(j)
        else:
            s += " %s JOIN %s ON %s" % (j["side"], _rtab(j), _rx(j["on"]))
    if q["where"] is not None:
        s += " WHERE " + _rx(q["where"])
    if q["group"]:
        s += " GROUP BY " + ", ".join(_rx(k) for k in q["group"])
    if q["having"] is not None:
        s += " HAVING " + _rx(q["having"])
    return s + _rtail(q)


def render(ir):
    if ir["k"] == "setop":
        return "%s %s%s %s%s" % (_rsel(ir["l"]), ir["op"], " ALL" if ir["all"] else "", _rsel(ir["r"]), _rtail(ir))
    return _rsel(ir)


# --------------------------------------------------------------------------- features
def _is_equi(on):
    conj = []

    def flat(p):
        if p[0] == "and":
            flat(p[1])
            flat(p[2])
        else:
            conj.append(p)

    flat(on)
    return any(c[0] == "cmp" and c[1] == "=" and c[2][0] == "col" and c[3][0] == "col" and c[2][1] != c[3][1]
               for c in conj)


def features(ir):
    f = set()

    def fq(q):
        if q["k"] == "setop":
            f.add("setop:%s%s" % (q["op"], "_ALL" if q["all"] else ""))
        else:
            for j in q["joins"]:
                f.add("join:" + j["side"])
                if j["on"] is not None and not _is_equi(j["on"]):
                    f.add("on:nonequi")
            if q["where"] is not None:
                f.add("where")
            if q["group"]:
                f.add("group")
            if q["having"] is not None:
                f.add("having")
            if q["distinct"]:
                f.add("distinct")
        if q.get("order"):
            f.add("order")
        if q.get("limit") is not None:
            f.add("limit")
        if q.get("offset"):
            f.add("offset")

    def fe(e):
        k = e[0]
        if k in ("cmp", "arith", "and", "or", "not", "isnull", "in", "between", "case", "coalesce"):
            f.add("op:" + k)
        elif k == "null":
            f.add("lit:null")
        elif k == "agg":
            f.add("agg:" + e[1] + ("*" if e[2] is None else ""))
        elif k == "insub":
            f.add("sub:in")
            _corr(e[2])
        elif k == "exists":
            f.add("sub:exists")
            _corr(e[1])
        elif k == "scalar":
            f.add("sub:scalar")

    def _corr(sq):
        own = {sq["from"]["as"]} | {j["as"] for j in sq["joins"]}
        used = set()
        _walk_query(sq, lambda x: used.add(x[1]) if x[0] == "col" else None, lambda q: None)
        if used - own:
            f.add("sub:corr")

    _walk_query(ir, fe, fq)
    return sorted(f)


def skeleton(ir):
    return "|".join(["setop" if ir["k"] == "setop" else "select"] + features(ir))


# --------------------------------------------------------------------------- engines
_ENG = {}


def _lit(v):
    if v is None:
        return "NULL"
    if isinstance(v, bool):
        return str(int(v))
    if isinstance(v, int):
        return str(v)
    return _sq(str(v))


def _engines(db):
    key = json.dumps(db, sort_keys=True)
    if not _ENG:
        s = sqlite3.connect(":memory:")
        d = duckdb.connect(":memory:")
        for t in TABLES:
            s.execute("CREATE TABLE %s (a INTEGER, b INTEGER, c TEXT)" % t)
            d.execute("CREATE TABLE %s (a BIGINT, b BIGINT, c VARCHAR)" % t)
        _ENG.update(sqlite=s, duckdb=d, key=None)
    if _ENG["key"] != key:
        for name in ("sqlite", "duckdb"):
            con = _ENG[name]
            for t in TABLES:
                con.execute("DELETE FROM %s" % t)
                rows = db.get(t) or []
                if rows:
                    con.execute("INSERT INTO %s VALUES %s" % (
                        t, ", ".join("(" + ", ".join(_lit(v) for v in row) + ")" for row in rows)))
        _ENG["sqlite"].commit()
        _ENG["key"] = key
    return _ENG["sqlite"], _ENG["duckdb"]


def _canon(v):
    if isinstance(v, bool):
        return int(v)
    return v


def _canon_rows(rows):
    return [tuple(_canon(v) for v in row) for row in rows]


def _sort_key(row):
    return tuple((v is None, type(v).__name__, v) for v in row)


def _norm(cols, rows, ordered):
    rows = _canon_rows(rows)
    if not ordered:
        rows = sorted(rows, key=_sort_key)
    return {"columns": list(cols), "rows": [list(r) for r in rows]}


def _needs_duckdb_only(ir):
    found = []
    _walk_query(ir, lambda e: None,
                lambda q: found.append(1) if q["k"] == "setop" and q["all"] and q["op"] != "UNION" else None)
    return bool(found)


def _sg_tables(db):
    return {t: Table(columns=COLS, rows=[tuple(r) for r in (db.get(t) or [])]) for t in TABLES}


def run_case(db, ir, execute=None, repeat=1):
    """repeat > 1 re-runs execute() until a non-"agree" outcome shows up (the executor's
    step scheduling iterates over sets of Step objects, so some defects are nondeterministic)."""
    r = None
    for _ in range(max(1, repeat)):
        r = _run_case(db, ir, execute)
        if r["status"] != "agree":
            break
    return r


def _run_case(db, ir, execute=None):
    execute = execute or _sg_execute
    sql = render(ir)
    ordered = is_ordered(ir)
    res = {"status": None, "detail": "", "sql": sql, "got": {}, "want": {}}
    s, d = _engines(db)
    answers = {}
    errors = {}
    engines = ["duckdb"] if _needs_duckdb_only(ir) else ["sqlite", "duckdb"]
    for name in engines:
        try:
            if name == "sqlite":
                cur = s.execute(sql)
                rows = cur.fetchall()
                cols = [c[0] for c in cur.description]
            else:
                cur = d.execute(sql)
                cols = [c[0] for c in cur.description]
                rows = cur.fetchall()
            answers[name] = _norm(cols, rows, ordered)
        except Exception as e:  # engine rejected the query
            errors[name] = "%s: %s" % (type(e).__name__, str(e).splitlines()[0][:200])
    if errors:
        name = sorted(errors)[0]
        res.update(status="engine_error", detail="engine_error:" + name, want={"errors": errors, **answers})
        return res
    if len(answers) == 2 and answers["sqlite"] != answers["duckdb"]:
        res.update(status="engines_disagree", detail="engines_disagree", want=answers)
        return res
    want = answers[engines[0]]
    res["want"] = want
    tag = "" if len(engines) == 2 else "duckdb_only"
    try:
        out = execute(sql, schema=copy.deepcopy(SCHEMA), tables=_sg_tables(db))
        got = _norm(out.columns, out.rows, ordered)
    except ExecuteError as e:
        cause = type(e.__cause__).__name__ if e.__cause__ is not None else ""
        res.update(status="execute_error", detail="execute_error:" + cause, got={"error": str(e)[:300]})
        return res
    except SqlglotError as e:
        res.update(status="sqlglot_error", detail="sqlglot_error:" + type(e).__name__, got={"error": str(e)[:300]})
        return res
    except Exception as e:  # raw python exception leaking out of execute()
        res.update(status="leak", detail="leak:" + type(e).__name__, got={"error": str(e)[:300]})
        return res
    res["got"] = got
    if got["columns"] != want["columns"]:
        res.update(status="violation", detail="columns")
    elif got["rows"] != want["rows"]:
        res.update(status="violation", detail="rows")
    else:
        res.update(status="agree", detail=tag)
    return res


def replay(rec):
    return run_case(rec["db"], rec["ir"], repeat=_repeat_for(rec["ir"]))


def _repeat_for(ir):
    """Set operations are where nondeterministic answers were observed: give them 4 tries."""
    return 3 if ir.get("k") == "setop" else 1


# --------------------------------------------------------------------------- shrinking
def _e_variants(e):
    """Candidate simpler replacements for expression e (validity is checked by the caller)."""
    k = e[0]
    # structural children of compatible kind
    if k == "arith":
        yield e[2]
        yield e[3]
    elif k in ("and", "or", "coalesce"):
        yield e[1]
        yield e[2]
    elif k == "not":
        yield e[1]
    elif k == "case":
        yield e[2]
        if e[3] is not None:
            yield e[3]
            yield ["case", e[1], e[2], None]
    elif k == "isnull" and e[2]:
        yield ["isnull", e[1], False]
    elif k == "in":
        if e[3]:
            yield ["in", e[1], e[2], False]
        if len(e[2]) > 1:
            for i in range(len(e[2])):
                yield ["in", e[1], e[2][:i] + e[2][i + 1:], e[3]]
    elif k == "between":
        yield ["cmp", ">=", e[1], e[2]]
        yield ["cmp", "<=", e[1], e[3]]
    elif k == "insub" and e[3]:
        yield ["insub", e[1], e[2], False]
    elif k == "exists" and e[2]:
        yield ["exists", e[1], False]
    elif k == "int":
        if e[1] != 0:
            yield ["int", 0]
        if e[1] not in (0, 1):
            yield ["int", 1]
    elif k == "str":
        if e[1] != "a":
            yield ["str", "a"]
    elif k == "agg":
        if e[2] is not None and e[1] == "COUNT":
            yield ["agg", "COUNT", None]
        if e[1] in ("MAX", "SUM"):
            yield ["agg", "MIN", e[2]]
    if k not in ("int", "str", "null", "col", "out", "and", "or", "not", "cmp", "isnull", "in", "between",
                 "insub", "exists", "agg"):
        yield ["int", 0]
        yield ["int", 1]
        yield ["str", "a"]
    if k == "scalar":
        yield ["null"]
    # recurse
    idx = {"arith": [2, 3], "cmp": [2, 3], "and": [1, 2], "or": [1, 2], "coalesce": [1, 2], "not": [1],
           "isnull": [1], "in": [1], "between": [1, 2, 3], "case": [1, 2, 3], "agg": [2], "insub": [1]}.get(k, [])
    for i in idx:
        if e[i] is None:
            continue
        for v in _e_variants(e[i]):
            n = list(e)
            n[i] = v
            yield n
    if k == "in":
        for i, l in enumerate(e[2]):
            for v in _e_variants(l):
                yield ["in", e[1], e[2][:i] + [v] + e[2][i + 1:], e[3]]
    si = {"insub": 2, "exists": 1, "scalar": 1}.get(k)
    if si is not None:
        for v in _q_variants(e[si]):
            n = list(e)
            n[si] = v
            yield n


def _with(q, **kw):
    n = dict(q)
    n.update(kw)
    return n


def _order_variants(q):
    if q.get("limit") is not None:
        yield _with(q, limit=None, offset=None)
        if q.get("offset") is not None:
            yield _with(q, offset=None)
    if q.get("order"):
        if q.get("limit") is None:
            yield _with(q, order=None)
            for i in range(len(q["order"])):
                o = q["order"][:i] + q["order"][i + 1:]
                yield _with(q, order=o or None)
        for i, k in enumerate(q["order"]):
            if k["desc"]:
                yield _with(q, order=q["order"][:i] + [dict(k, desc=False)] + q["order"][i + 1:])
            if not k["nf"]:
                yield _with(q, order=q["order"][:i] + [dict(k, nf=True)] + q["order"][i + 1:])
    if q.get("limit") is not None:
        if q["limit"] > 1:
            yield _with(q, limit=1)
        if q.get("offset") and q["offset"] > 1:
            yield _with(q, offset=1)


def _drop_proj(sel, i):
    p = sel["proj"][i]
    ref = ["out", p["as"]] if p["as"] else p["e"]
    n = _with(sel, proj=sel["proj"][:i] + sel["proj"][i + 1:])
    if sel.get("order"):
        o = [k for k in sel["order"] if k["e"] != ref]
        n["order"] = o or None
        if not o:
            n["limit"] = None
            n["offset"] = None
    return n


def _q_variants(q):
    if q["k"] == "setop":
        yield q["l"]
        yield q["r"]
        for v in _order_variants(q):
            yield v
        if q["all"]:
            yield _with(q, all=False)
        if q["op"] != "UNION":
            yield _with(q, op="UNION")
        n = len(q["l"]["proj"])
        if n > 1 and len(q["r"]["proj"]) == n:
            names = _out_names(q["l"])
            for i in range(n):
                v = _with(q, l=_drop_proj(q["l"], i), r=_drop_proj(q["r"], i))
                if q.get("order"):
                    o = [k for k in q["order"] if k["e"] != ["out", names[i]]]
                    v["order"] = o or None
                    if not o:
                        v["limit"] = None
                        v["offset"] = None
                yield v
        for side in ("l", "r"):
            for v in _q_variants(q[side]):
                yield _with(q, **{side: v})
        return
    # ---- select: big cuts first
    if q["where"] is not None:
        yield _with(q, where=None)
    if q["having"] is not None:
        yield _with(q, having=None)
    for v in _order_variants(q):
        yield v
    if q["distinct"]:
        yield _with(q, distinct=False)
    joins = q["joins"]
    for i in range(len(joins)):
        yield _with(q, joins=joins[:i] + joins[i + 1:])
    if joins:
        j0 = joins[0]
        yield _with(q, **{"from": {"t": j0["t"], "as": j0["as"]}, "joins": joins[1:]})
    if len(q["proj"]) > 1:
        for i in range(len(q["proj"])):
            yield _drop_proj(q, i)
    for i in range(len(q["group"])):
        yield _with(q, group=q["group"][:i] + q["group"][i + 1:])
    for i, j in enumerate(joins):
        alts = {"FULL": ["INNER", "LEFT", "RIGHT"], "LEFT": ["INNER"], "RIGHT": ["INNER", "LEFT"], "INNER": [], "CROSS": []}
        for s in alts[j["side"]]:
            yield _with(q, joins=joins[:i] + [dict(j, side=s)] + joins[i + 1:])
        if j["side"] == "INNER":
            yield _with(q, joins=joins[:i] + [dict(j, side="CROSS", on=None)] + joins[i + 1:])
    # ---- expression-level
    for i, j in enumerate(joins):
        if j["on"] is not None:
            for v in _e_variants(j["on"]):
                yield _with(q, joins=joins[:i] + [dict(j, on=v)] + joins[i + 1:])
    if q["where"] is not None:
        for v in _e_variants(q["where"]):
            yield _with(q, where=v)
    if q["having"] is not None:
        for v in _e_variants(q["having"]):
            yield _with(q, having=v)
    for i, p in enumerate(q["proj"]):
        for v in _e_variants(p["e"]):
            alias = p["as"] or (None if v[0] == "col" else "c%d" % i)
            n = _with(q, proj=q["proj"][:i] + [{"e": v, "as": alias}] + q["proj"][i + 1:])
            if q.get("order") and not p["as"]:
                new_ref = ["out", alias] if alias else v
                n["order"] = [dict(k, e=new_ref) if k["e"] == p["e"] else k for k in q["order"]]
            yield n
        if p["as"] and p["e"][0] == "col":
            # drop a redundant alias
            n = _with(q, proj=q["proj"][:i] + [{"e": p["e"], "as": None}] + q["proj"][i + 1:])
            if q.get("order"):
                n["order"] = [dict(k, e=p["e"]) if k["e"] == ["out", p["as"]] else k for k in q["order"]]
            yield n


def _db_variants(db):
    for t in TABLES:
        rows = db.get(t) or []
        if len(rows) > 1:
            yield dict(db, **{t: []})
    for t in TABLES:
        rows = db.get(t) or []
        for i in range(len(rows)):
            yield dict(db, **{t: rows[:i] + rows[i + 1:]})
    for t in TABLES:
        rows = db.get(t) or []
        for i, row in enumerate(rows):
            for c, v in enumerate(row):
                if v is None:
                    continue
                canon = 0 if COLTYPE[COLS[c]] == "int" else "a"
                cands = [None] if v == canon else [None, canon]
                if COLTYPE[COLS[c]] == "int" and v not in (0, 1):
                    cands.append(1)
                for nv in cands:
                    nr = list(row)
                    nr[c] = nv
                    yield dict(db, **{t: rows[:i] + [tuple(nr)] + rows[i + 1:]})


def shrink(db, ir, pred, max_calls=3000):
    db = {t: [tuple(r) for r in (db.get(t) or [])] for t in TABLES}
    ir = json.loads(json.dumps(ir))
    seen = {json.dumps([db, ir], sort_keys=True)}
    calls = [0]

    def attempt(ndb, nir):
        key = json.dumps([ndb, nir], sort_keys=True)
        if key in seen or calls[0] >= max_calls:
            return False
        seen.add(key)
        calls[0] += 1
        try:
            return bool(pred(ndb, nir))
        except Exception:
            return False

    changed = True
    while changed and calls[0] < max_calls:
        changed = False
        progress = True
        while progress:
            progress = False
            for v in _q_variants(ir):
                if v == ir or not _valid(v):
                    continue
                v = json.loads(json.dumps(v))
                if attempt(db, v):
                    ir = v
                    progress = changed = True
                    break
        progress = True
        while progress:
            progress = False
            for v in _db_variants(db):
                if attempt(v, ir):
                    db = v
                    progress = changed = True
                    break
    return db, ir


# --------------------------------------------------------------------------- main
def _jsonable_db(db):
    return {t: [list(r) for r in (db.get(t) or [])] for t in TABLES}


def main(argv=None):
    ap = argparse.ArgumentParser()
    ap.add_argument("--seed", type=int, default=0)
    ap.add_argument("--n", type=int, default=2000)
    ap.add_argument("--no-shrink", action="store_true")
    ap.add_argument("--max-shrink", type=int, default=10000, help="max number of violations to minimise")
    ap.add_argument("--examples", type=int, default=3)
    ap.add_argument("--json", help="write violation records (db, ir) to this file")
    a = ap.parse_args(argv)
    rng = random.Random(a.seed)
    status = collections.Counter()
    detail = collections.Counter()
    feat_total = collections.Counter()
    feat_viol = collections.Counter()
    examples = collections.defaultdict(list)
    violations = []
    t0 = time.time()
    for i in range(a.n):
        db = gen_db(rng)
        ir = gen_query(rng)
        r = run_case(db, ir, repeat=_repeat_for(ir))
        status[r["status"]] += 1
        if r["detail"]:
            detail[r["status"] + "/" + r["detail"] if not r["detail"].startswith(r["status"]) else r["detail"]] += 1
        fs = features(ir)
        for f in fs:
            feat_total[f] += 1
        if r["status"] == "violation":
            for f in fs:
                feat_viol[f] += 1
            violations.append((db, ir))
        elif r["status"] != "agree" and len(examples[r["detail"]]) < a.examples:
            examples[r["detail"]].append({"sql": r["sql"], "db": _jsonable_db(db), "got": r["got"], "want": r["want"]})
    t1 = time.time()
    print("seed=%d n=%d  %.1f cases/s (generation + 2 engines + sqlglot)" % (a.seed, a.n, a.n / (t1 - t0)))
    print("\n== status ==")
    for k, v in status.most_common():
        print("  %-18s %6d" % (k, v))
    print("\n== detail ==")
    for k, v in sorted(detail.items()):
        print("  %-40s %6d" % (k, v))
    print("\n== features (cases / violations) ==")
    for k in sorted(feat_total):
        print("  %-22s %6d %6d" % (k, feat_total[k], feat_viol[k]))
    print("\n== non-violation examples ==")
    for k in sorted(examples):
        for ex in examples[k][:a.examples]:
            print("  [%s] %s\n      db=%s\n      got=%s\n      want=%s" % (
                k, ex["sql"], json.dumps(ex["db"]), json.dumps(ex["got"])[:300], json.dumps(ex["want"])[:300]))
    classes = collections.OrderedDict()
    ts = time.time()
    for n, (db, ir) in enumerate(violations):
        if not a.no_shrink and n < a.max_shrink:
            db, ir = shrink(db, ir, lambda d, q: run_case(d, q, repeat=_repeat_for(q))["status"] == "violation")
        sk = skeleton(ir)
        ent = classes.setdefault(sk, {"count": 0, "best": None})
        ent["count"] += 1
        size = len(json.dumps([_jsonable_db(db), ir]))
        if ent["best"] is None or size < ent["best"][0]:
            ent["best"] = (size, db, ir)
    print("\n== violations: %d cases, %d skeletons (shrink time %.1fs) ==" % (
        len(violations), len(classes), time.time() - ts))
    recs = []
    for sk, ent in sorted(classes.items(), key=lambda kv: -kv[1]["count"]):
        _, db, ir = ent["best"]
        r = run_case(db, ir, repeat=2 * _repeat_for(ir))
        print("\n[%d] %s" % (ent["count"], sk))
        print("    sql : %s" % r["sql"])
        print("    db  : %s" % json.dumps(_jsonable_db(db)))
        print("    got : %s" % json.dumps(r["got"]))
        print("    want: %s" % json.dumps(r["want"]))
        print("    (%s%s)" % (r["detail"], ", ordered" if is_ordered(ir) else ""))
        recs.append({"skeleton": sk, "count": ent["count"], "db": _jsonable_db(db), "ir": ir, "sql": r["sql"]})
    if a.json:
        with open(a.json, "w") as fh:
            json.dump(recs, fh, indent=1)
    return 0


if __name__ == "__main__":
    sys.exit(main())
