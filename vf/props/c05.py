"""C05 — tokenize, parse and generate terminate with a result or a sqlglot error (DESIGN.md §4 C05; PARTIAL by design).

translate : ast facts of sqlglot/tokenizer_core.py (every `_advance` call site with a negative / not syntactically
            non-negative argument and its enclosing guards, every write to `self._current`, the `_scan` loop test and
            offset expression) and of sqlglot/parser.py (`_retreat`, the `finally:` of `_try_parse`, the loop test of
            `_parse_csv`, the body of `_parse_wrapped`) -> Generated/C05.lean, pinned by `decide` in Properties/C05.lean
prove     : Properties/C05.lean (cursor discipline: restoration, loop termination, polynomial step bound, no
            IndexError; `_scan` progress with rewinds; linear iteration bound)
correspond: (A) random combinator programs interpreted with the REAL Parser primitives (`_advance`, `_retreat`, `_match`,
                `_match_set`, `_match_pair`, `raise_error`, `_try_parse`, `_parse_csv`, `_parse_wrapped`) on random token
                lists x 4 error levels vs the Lean `run` (outcome, index, step count, recorded errors, error level)
            (B) real parses of generated SQL with every `_try_parse` / `_parse_csv` / `_parse_wrapped` activation
                recorded (index before/after, result, inner results) and replayed through the model glue; the
                Sound / Restoring contracts (hypotheses of the `…_any_method` theorems) are checked on each activation
            (C) the `_current` trace of the real tokenizer (every `_advance`, every direct assignment) replayed through
                the `_scan` progress model
search    : the property's own statement on the real code: tokenize / parse / generate (transpile) of grammar-valid
            statements, token-level mutations, truncations, keyword soups and random Unicode x all dialects x 4 error
            levels finish within K·(n+1)² parser steps (harness-side counter on Parser._advance, SIGALRM backstop) and
            raise nothing outside the sqlglot.errors.SqlglotError family
"""

from __future__ import annotations

import ast
import json
import os
import signal
import sys
import time
import traceback

from vf.core import Check, REPO, HarnessError, lean_str

MODULES = ["Model.Cursor", "Model.ScanProgress", "Proofs.Cursor", "Proofs.ScanProgress", "Generated.C05", "Properties.C05"]
_P = "SqlglotModel.Properties.C05."
THEOREMS = [_P + n for n in [
    "comb_restores", "comb_restores_needs_guard",
    "try_parse_restores_any_method", "try_parse_level_restored", "try_parse_swallows_parse_error",
    "csv_terminates", "csv_needs_monotone_element",
    "many_terminates", "many_needs_consuming",
    "run_total", "run_steps_bound", "run_steps_polynomial", "run_outcome_not_internal", "run_cursor_in_range",
    "run_outcome_needs_wf", "parse_top_outcome",
    "match_text_seq_restores", "match_text_seq_peek_still",
    "table_loop_terminates", "table_loop_needs_progress", "table_loop_peek_needs_consuming",
    "wrapped_id_vars_terminates", "wrapped_csv_wf", "command_fallback_consumes_chunk", "statement_command_fallback",
    "parse_batch_terminates", "Scan.lex_progress", "Scan.forward_only_disciplined",
    "Scan.scan_progress", "Scan.scan_iterations_linear", "Scan.suffix_rewind_disciplined", "Scan.heredoc_rewind_disciplined",
    "Scan.rewind_needs_discipline",
    "Scan.tokenizer_rewind_sites_known", "Scan.tokenizer_guarded_sites_guarded", "Scan.tokenizer_current_writes_known",
    "Scan.tokenizer_scan_loop_shape", "Scan.parser_glue_shape",
    "Scan.tokenizer_funnel_catches_exception", "Scan.tokenize_outcome", "Scan.tokenize_outcome_current_source",
    "Scan.tokenize_funnel_needs_broad_catch",
]]

# step budgets for the search oracle, calibrated on the clean tree with ≥ 10x margin (cov["calibration"] in the evidence
# reports the maxima of every run).  Observed maxima over ~150k pipeline runs (terminating inputs): Parser._advance calls
# ≤ 5.8·(n+1) and ≤ 2.0·(n+1)² (n = number of tokens; the quadratic ratio peaks at n = 1), parser work units
# ≤ 67.5·(n+1) (135 units at n = 1), TokenizerCore._advance calls ≤ 1.9·(len+1), Generator.sql calls ≤ 16·(nodes+1).
K_PARSE = 40          # Parser._advance calls ≤ K_PARSE · (n+1)²
K_TOKENIZE = 20       # TokenizerCore._advance calls ≤ K_TOKENIZE · (len(sql)+1)
K_GENERATE = 400      # Generator.sql activations ≤ K_GENERATE · (nodes+1)
K_WORK = 60           # parser _match/_match_set/expression/raise_error activations ≤ K_WORK · (n+1)² + WORK_CONST (catches
WORK_CONST = 3000     # loops that spin without ever calling _advance)
WATCHDOG_S = 8.0


# =========================================================================================== translate
def _src(node) -> str:
    return ast.unparse(node)


def _class_funcs(tree, cls_name):
    for cls in tree.body:
        if isinstance(cls, ast.ClassDef) and cls.name == cls_name:
            return {n.name: n for n in cls.body if isinstance(n, ast.FunctionDef)}
    return {}


def _walk_guards(fn):
    """yields (node, guards) for every node in fn with the chain of enclosing if/while tests"""
    def rec(stmts, guards):
        for st in stmts:
            if isinstance(st, ast.If):
                yield from expr_nodes(st.test, guards)
                yield from rec(st.body, guards + [_src(st.test)])
                yield from rec(st.orelse, guards + ["not (" + _src(st.test) + ")"])
            elif isinstance(st, ast.While):
                yield from expr_nodes(st.test, guards)
                yield from rec(st.body, guards + ["while " + _src(st.test)])
                yield from rec(st.orelse, guards)
            elif isinstance(st, ast.For):
                yield from rec(st.body, guards + ["for"])
            elif isinstance(st, ast.Try):
                yield from rec(st.body, guards)
                for h in st.handlers:
                    yield from rec(h.body, guards + ["except"])
                yield from rec(st.orelse, guards)
                yield from rec(st.finalbody, guards + ["finally"])
            elif isinstance(st, (ast.FunctionDef, ast.ClassDef)):
                continue
            else:
                yield st, guards
                yield from expr_nodes(st, guards)

    def expr_nodes(node, guards):
        for n in ast.walk(node):
            if isinstance(n, (ast.Call,)):
                yield n, guards

    yield from rec(fn.body, [])


def _is_self_attr(node, attr):
    return isinstance(node, ast.Attribute) and node.attr == attr and isinstance(node.value, ast.Name) and node.value.id == "self"


def _arg_kind(call: ast.Call):
    """'plain' (syntactically ≥ 0), 'rewind' (syntactically negative) or 'guarded' (needs its guards)"""
    if not call.args:
        return "plain", "1"
    a = call.args[0]
    s = _src(a)
    if isinstance(a, ast.Constant) and isinstance(a.value, int):
        return ("plain" if a.value >= 0 else "rewind"), s
    if isinstance(a, ast.UnaryOp) and isinstance(a.op, ast.USub):
        return "rewind", s
    if isinstance(a, ast.Call) and isinstance(a.func, ast.Name) and a.func.id == "len":
        return "plain", s
    return "guarded", s


def tokenizer_facts(chk: Check):
    path = os.path.join(REPO, "sqlglot", "tokenizer_core.py")
    tree = ast.parse(open(path, encoding="utf-8").read())
    funcs = _class_funcs(tree, "TokenizerCore")
    if "_scan" not in funcs or "_advance" not in funcs:
        chk.broken.append({"kind": "translator", "what": "C05 translator: structure changed: TokenizerCore._scan/_advance not found"})
        return {"rewind": [], "guarded": [], "plain": 0, "writes": [], "while": "?", "offset": "?"}
    rewind, guarded, plain, writes = [], [], 0, []
    for name, fn in sorted(funcs.items()):
        seen = set()
        for node, guards in _walk_guards(fn):
            if isinstance(node, ast.Call) and _is_self_attr(node.func, "_advance") and id(node) not in seen:
                seen.add(id(node))
                kind, s = _arg_kind(node)
                if kind == "plain":
                    plain += 1
                elif kind == "rewind":
                    rewind.append((name, s, guards))
                else:
                    guarded.append((name, s, guards))
            if isinstance(node, ast.Assign):
                for tg in node.targets:
                    if _is_self_attr(tg, "_current"):
                        writes.append((name, "= " + _src(node.value)))
            if isinstance(node, ast.AugAssign) and _is_self_attr(node.target, "_current"):
                writes.append((name, type(node.op).__name__ + "= " + _src(node.value)))
    # the error funnel of TokenizerCore.tokenize: which exception types the `try: self._scan()` catches and what it raises
    funnel = {"handlers": [], "raises": [], "guards_scan": False}
    if "tokenize" in funcs:
        for tr in [n for n in funcs["tokenize"].body if isinstance(n, ast.Try)]:
            funnel["guards_scan"] = any(isinstance(c, ast.Call) and _is_self_attr(c.func, "_scan") for st in tr.body for c in ast.walk(st))
            for h in tr.handlers:
                if h.type is None:
                    funnel["handlers"].append("BaseException")
                elif isinstance(h.type, ast.Tuple):
                    funnel["handlers"] += [_src(e) for e in h.type.elts]
                else:
                    funnel["handlers"].append(_src(h.type))
                for st in h.body:
                    for r in ast.walk(st):
                        if isinstance(r, ast.Raise) and r.exc is not None:
                            funnel["raises"].append(_src(r.exc.func) if isinstance(r.exc, ast.Call) else _src(r.exc))
    else:
        chk.broken.append({"kind": "translator", "what": "C05 translator: structure changed: TokenizerCore.tokenize not found"})
    scan = funcs["_scan"]
    wh = [n for n in scan.body if isinstance(n, ast.While)]
    while_test = _src(wh[0].test) if wh else "?"
    offset = "?"
    if wh:
        for st in wh[0].body:
            if isinstance(st, ast.Assign) and any(isinstance(tg, ast.Name) and tg.id == "offset" for tg in st.targets):
                offset = _src(st.value)
    return {"rewind": rewind, "guarded": guarded, "plain": plain, "writes": writes, "while": while_test, "offset": offset,
            "funnel": funnel}


def wrapper_facts(chk: Check):
    """the thin wrappers between the public API and TokenizerCore.tokenize / Parser.parse: their bodies must stay
    pass-through (a try/except added there would be a second funnel the pin above does not see)"""
    out = {}
    for rel, cls, fn in [("tokens.py", "_TokenizerBase", "tokenize"), ("tokens.py", "Tokenizer", "tokenize"),
                         ("dialects/dialect.py", "Dialect", "tokenize"), ("dialects/dialect.py", "Dialect", "parse"),
                         ("parser.py", "Parser", "parse")]:
        path = os.path.join(REPO, "sqlglot", rel)
        try:
            funcs = _class_funcs(ast.parse(open(path, encoding="utf-8").read()), cls)
        except Exception:  # noqa
            funcs = {}
        if fn in funcs:
            out[f"{cls}.{fn}"] = sum(1 for n in ast.walk(funcs[fn]) if isinstance(n, ast.Try))
    return out


def parser_facts(chk: Check):
    path = os.path.join(REPO, "sqlglot", "parser.py")
    tree = ast.parse(open(path, encoding="utf-8").read())
    funcs = _class_funcs(tree, "Parser")
    out = {}
    need = ["_retreat", "_try_parse", "_parse_csv", "_parse_wrapped", "_match_r_paren"]
    for n in need:
        if n not in funcs:
            chk.broken.append({"kind": "translator", "what": f"C05 translator: structure changed: Parser.{n} not found"})
            return {"retreat": [], "try_finally": [], "try_handlers": [], "csv_while": "?", "wrapped": [], "r_paren": []}

    def body_src(fn):
        stmts = fn.body
        if stmts and isinstance(stmts[0], ast.Expr) and isinstance(stmts[0].value, ast.Constant) and isinstance(stmts[0].value.value, str):
            stmts = stmts[1:]
        return [" ".join(_src(s).split()) for s in stmts]

    out["retreat"] = body_src(funcs["_retreat"])
    tries = [n for n in funcs["_try_parse"].body if isinstance(n, ast.Try)]
    out["try_finally"] = [" ".join(_src(s).split()) for s in tries[0].finalbody] if tries else []
    out["try_handlers"] = [(_src(h.type) if h.type else "*") for h in tries[0].handlers] if tries else []
    wh = [n for n in funcs["_parse_csv"].body if isinstance(n, ast.While)]
    out["csv_while"] = _src(wh[0].test) if wh else "?"
    out["wrapped"] = body_src(funcs["_parse_wrapped"])
    out["r_paren"] = body_src(funcs["_match_r_paren"])
    return out


def _lean_sites(name, sites):
    rows = ["  ⟨%s, %s, [%s]⟩" % (lean_str(f), lean_str(a), ", ".join(lean_str(g) for g in gs)) for f, a, gs in sites]
    return f"def {name} : List Site := [\n" + ",\n".join(rows) + "]\n" if rows else f"def {name} : List Site := []\n"


def _lean_strs(name, xs):
    return f"def {name} : List String := [" + ", ".join(lean_str(x) for x in xs) + "]\n"


def translate(chk: Check) -> str:
    tf = tokenizer_facts(chk)
    pf = parser_facts(chk)
    chk.cov["tokenizer_advance_sites"] = {"plain": tf["plain"], "rewind": len(tf["rewind"]), "guarded": len(tf["guarded"]),
                                          "current_writes": len(tf["writes"])}
    chk._c05_rewind_sites = {(f, a) for f, a, _ in tf["rewind"]}
    out = [
        "-- GENERATED by vf/props/c05.py from sqlglot/tokenizer_core.py and sqlglot/parser.py (ast). Do not edit.\n",
        "namespace SqlglotModel.Generated.C05\n",
        "structure Site where\n  fn : String\n  arg : String\n  guards : List String\n  deriving DecidableEq, Repr\n",
        "-- TokenizerCore: `self._advance(<syntactically negative>)`\n",
        _lean_sites("rewindSites", tf["rewind"]),
        "-- TokenizerCore: `self._advance(<expr>)` whose sign depends on the enclosing guards\n",
        _lean_sites("guardedSites", tf["guarded"]),
        f"def plainSites : Nat := {tf['plain']}\n",
        "-- TokenizerCore: every write to `self._current`\n",
        "def currentWrites : List (String × String) := [" + ", ".join(f"({lean_str(f)}, {lean_str(v)})" for f, v in tf["writes"]) + "]\n",
        f"def scanWhileTest : String := {lean_str(tf['while'])}\n",
        f"def scanOffset : String := {lean_str(tf['offset'])}\n",
        "-- TokenizerCore.tokenize: exception types caught around `self._scan()` and what the handler raises\n",
        _lean_strs("tokenizeHandlers", tf.get("funnel", {}).get("handlers", [])),
        _lean_strs("tokenizeHandlerRaises", tf.get("funnel", {}).get("raises", [])),
        f"def tokenizeTryGuardsScan : Bool := {'true' if tf.get('funnel', {}).get('guards_scan') else 'false'}\n",
        "-- number of try statements in the pass-through wrappers between the public API and the two funnels\n",
        "def wrapperTryCounts : List (String × Nat) := [" + ", ".join(f"({lean_str(k)}, {v})" for k, v in sorted(wrapper_facts(chk).items())) + "]\n",
        "-- Parser glue\n",
        _lean_strs("retreatBody", pf["retreat"]),
        _lean_strs("tryParseFinally", pf["try_finally"]),
        _lean_strs("tryParseHandlers", pf["try_handlers"]),
        f"def csvWhileTest : String := {lean_str(pf['csv_while'])}\n",
        _lean_strs("wrappedBody", pf["wrapped"]),
        _lean_strs("matchRParenBody", pf["r_paren"]),
        "end SqlglotModel.Generated.C05\n",
    ]
    return "".join(out)


# =========================================================================================== the real side
def sg():
    import logging
    import sqlglot
    logging.getLogger("sqlglot").disabled = True
    from sqlglot import exp, parser, tokens, errors, generator
    from sqlglot import tokenizer_core
    from sqlglot.dialects.dialect import Dialect, Dialects

    return sqlglot, exp, parser, tokens, errors, generator, tokenizer_core, Dialect, Dialects


LEVELS = ["IGNORE", "WARN", "RAISE", "IMMEDIATE"]


_USABLE: list = []


def load_dialects(chk=None) -> list:
    """import every dialect under the watchdog (dialect modules parse type strings while they are imported, so a
    broken parser can hang right there); a dialect that cannot be loaded is reported and left out"""
    *_, Dialect, Dialects = sg()
    if _USABLE:
        return _USABLE
    import sqlglot.dialects as dialects_pkg
    # the Dialects enum has no entry for every dialect module (singlestore): enum ∪ DIALECT_MODULE_NAMES
    names = {d.value for d in Dialects} | set(getattr(dialects_pkg, "DIALECT_MODULE_NAMES", ()) or ())
    for name in sorted(names):
        try:
            with_watchdog(lambda: Dialect.get_or_raise(name or None).tokenizer_class.KEYWORDS, 15.0)
            _USABLE.append(name)
        except BaseException as e:  # noqa
            if chk is not None:
                chk.broken.append({"kind": "correspondence", "what": f"dialect {name!r} cannot be loaded: {type(e).__name__}: {str(e)[:120]}"})
                chk.note(f"dialect {name!r} cannot be loaded ({type(e).__name__}); left out")
    return _USABLE


def all_dialects():
    return list(load_dialects())


DISPATCH_TABLES = ["RANGE_PARSERS", "COLUMN_OPERATORS", "QUERY_MODIFIER_PARSERS", "STATEMENT_PARSERS", "FUNCTION_PARSERS",
                   "NO_PAREN_FUNCTION_PARSERS", "PROPERTY_PARSERS", "CONSTRAINT_PARSERS", "ALTER_PARSERS", "ALTER_ALTER_PARSERS",
                   "UNARY_PARSERS", "PRIMARY_PARSERS", "STRING_PARSERS", "NUMERIC_PARSERS", "PLACEHOLDER_PARSERS",
                   "PIPE_SYNTAX_TRANSFORM_PARSERS", "SET_PARSERS", "SHOW_PARSERS", "ANALYZE_EXPRESSION_PARSERS", "TYPE_LITERAL_PARSERS"]
PEEKED_TABLES = {"QUERY_MODIFIER_PARSERS"}   # the caller only peeks at the key (`_match_set(…, advance=False)`)
# tables and token sets whose keys drive a `while` loop of the parser (continuation depends on the entry's result)
LOOP_TABLES = ["RANGE_PARSERS", "COLUMN_OPERATORS", "QUERY_MODIFIER_PARSERS", "UNARY_PARSERS", "NO_PAREN_FUNCTION_PARSERS",
               "PLACEHOLDER_PARSERS", "PIPE_SYNTAX_TRANSFORM_PARSERS"]
LOOP_TOKEN_SETS = ["JOIN_KINDS", "JOIN_SIDES", "JOIN_METHODS", "SET_OPERATIONS", "TABLE_INDEX_HINT_TOKENS", "CONJUNCTION", "DISJUNCTION",
                   "EQUALITY", "COMPARISON", "BITWISE", "TERM", "FACTOR", "EXPONENT", "ASSIGNMENT"]


class StepBudget(BaseException):
    """raised by the harness' own counter (never by sqlglot) when a step budget is exhausted"""


class _Watchdog(BaseException):
    pass


class Monitor:
    """Harness-side instrumentation (monkeypatching; no source hooks)."""

    def __init__(self):
        self.installed = False
        self.p_steps = 0
        self.p_cap = None
        self.t_steps = 0
        self.t_cap = None
        self.g_calls = 0
        self.g_cap = None
        self.w_units = 0          # parser "work": _match/_match_set/expression/raise_error activations
        self.w_cap = None
        self.table_breaches = []  # dispatch-table entries that returned a truthy result without progress
        self.table_calls = 0
        self.acts = None          # list of activation records when recording
        self.stack = []
        self.ttrace = None        # tokenizer trace when recording
        self._last_current = None

    # ---- install / remove
    def install(self):
        if self.installed:
            return
        _, _, parser, _, _, generator, tc, *_ = sg()
        P = parser.Parser
        T = tc.TokenizerCore
        G = generator.Generator
        self.orig = {
            "adv": P._advance, "try": P._try_parse, "csv": P._parse_csv, "wrapped": P._parse_wrapped,
            "tadv": T._advance, "gsql": G.sql, "ttok": T.tokenize,
            "match": P._match, "match_set": P._match_set, "expression": P.expression, "raise_error": P.raise_error,
        }
        mon = self
        o_adv, o_try, o_csv, o_wr, o_tadv, o_gsql = (self.orig[k] for k in ("adv", "try", "csv", "wrapped", "tadv", "gsql"))

        def _advance(self, times=1):
            mon.p_steps += 1
            if mon.p_cap is not None and mon.p_steps > mon.p_cap:
                raise StepBudget("parser")
            return o_adv(self, times)

        def work(orig):
            def w(self, *a, **kw):
                mon.w_units += 1
                if mon.w_cap is not None and mon.w_units > mon.w_cap:
                    raise StepBudget("parser-work")
                return orig(self, *a, **kw)
            return w

        def _tadvance(self, i=1, alnum=False):
            mon.t_steps += 1
            if mon.t_cap is not None and mon.t_steps > mon.t_cap:
                raise StepBudget("tokenizer")
            if mon.ttrace is None:
                return o_tadv(self, i, alnum)
            before = self._current
            caller = sys._getframe(1).f_code.co_name
            try:
                return o_tadv(self, i, alnum)
            finally:
                mon.ttrace.append((caller, i, before, self._current, self._start))

        o_ttok = self.orig["ttok"]

        def _ttokenize(self, sql):
            if mon.ttrace is not None:
                mon.ttrace.append(("<tokenize>", len(sql), 0, 0, 0))
            return o_ttok(self, sql)

        def _gsql(self, *a, **kw):
            mon.g_calls += 1
            if mon.g_cap is not None and mon.g_calls > mon.g_cap:
                raise StepBudget("generator")
            return o_gsql(self, *a, **kw)

        def classify(v):
            if v is None:
                return "none"
            try:
                return "truthy" if v else "falsy"
            except Exception:  # noqa
                return "truthy"

        def inner_wrap(psr, rec, method):
            def call():
                i0, st0, er0 = psr._index, mon.p_steps, len(psr.errors)
                e = {"i0": i0, "lvl": psr.error_level.name}
                try:
                    r = method()
                except errors_mod.ParseError:
                    e.update(out="raised", i1=psr._index, steps=mon.p_steps - st0, errs=len(psr.errors) - er0)
                    rec["inner"].append(e)
                    raise
                except (StepBudget, _Watchdog):
                    raise
                except Exception:  # noqa
                    e.update(out="internal", i1=psr._index, steps=mon.p_steps - st0, errs=len(psr.errors) - er0)
                    rec["inner"].append(e)
                    raise
                e.update(out=classify(r), i1=psr._index, steps=mon.p_steps - st0, errs=len(psr.errors) - er0)
                rec["inner"].append(e)
                return r
            return call

        errors_mod = sg()[4]

        def activation(kind, orig_call, psr, method, extra):
            if mon.acts is None:
                return orig_call(method)
            rec = {"kind": kind, "i0": psr._index, "lvl0": psr.error_level.name, "st0": mon.p_steps,
                   "errs0": len(psr.errors), "inner": [], "toks": id(psr._tokens), **extra}
            mon._tokens_by_id[id(psr._tokens)] = psr._tokens
            try:
                r = orig_call(inner_wrap(psr, rec, method))
            except errors_mod.ParseError:
                rec.update(out="raised")
                raise
            except (StepBudget, _Watchdog):
                rec.update(out="budget")
                raise
            except Exception:  # noqa
                rec.update(out="internal")
                raise
            else:
                rec.update(out=classify(r))
                return r
            finally:
                rec.update(i1=psr._index, lvl1=psr.error_level.name, steps=mon.p_steps - rec.pop("st0"),
                           errs=len(psr.errors) - rec.pop("errs0"))
                if len(mon.acts) < mon.acts_cap:
                    mon.acts.append(rec)

        def _try_parse(self, parse_method, retreat=False):
            return activation("try", lambda m: o_try(self, m, retreat), self, parse_method, {"rt": bool(retreat)})

        def _parse_csv(self, parse_method, sep=None):
            if sep is None:
                return activation("csv", lambda m: o_csv(self, m), self, parse_method, {"sep": "COMMA"})
            return activation("csv", lambda m: o_csv(self, m, sep), self, parse_method, {"sep": sep.name})

        def _parse_wrapped(self, parse_method, optional=False):
            return activation("wrapped", lambda m: o_wr(self, m, optional), self, parse_method, {"optional": bool(optional)})

        self.wrapped_tables = []
        self._wrap_tables(P)
        P._advance = _advance
        P._match = work(self.orig["match"])
        P._match_set = work(self.orig["match_set"])
        P.expression = work(self.orig["expression"])
        P.raise_error = work(self.orig["raise_error"])
        P._try_parse = _try_parse
        P._parse_csv = _parse_csv
        P._parse_wrapped = _parse_wrapped
        T._advance = _tadvance
        T.tokenize = _ttokenize
        G.sql = _gsql
        self.installed = True
        self.acts_cap = 4000
        self._tokens_by_id = {}

    def _wrap_tables(self, P):
        """wrap every entry of every parser dispatch table (of the base parser and of every dialect's parser class) in place:
        a truthy result must not leave the cursor before the point the entry started from (the key token is consumed by
        the caller), and for tables whose key is only peeked the cursor must have moved forward.  Those are the per-entry
        hypotheses of `table_loop_terminates`."""
        *_, Dialect, Dialects = sg()
        mon = self
        classes = [P]
        for d in list(_USABLE) or load_dialects():
            try:
                pc = Dialect.get_or_raise(d or None).parser_class
            except Exception:  # noqa
                continue
            for c in pc.__mro__:
                if isinstance(c, type) and issubclass(c, P) and c not in classes:
                    classes.append(c)
        seen = set()

        def mk(table, key, fn):
            peeked = table in PEEKED_TABLES
            pair = table == "QUERY_MODIFIER_PARSERS"

            def w(psr, *a, **kw):
                if not isinstance(psr, P):
                    return fn(psr, *a, **kw)
                mon.w_units += 1
                mon.table_calls += 1
                if mon.w_cap is not None and mon.w_units > mon.w_cap:
                    raise StepBudget("parser-work")
                i0 = psr._index
                r = fn(psr, *a, **kw)
                v = r[1] if pair and isinstance(r, tuple) and len(r) == 2 else r
                try:
                    truthy = bool(v)
                except Exception:  # noqa
                    truthy = True
                i1 = psr._index
                if truthy and (i1 < i0 or (peeked and i1 == i0)) and len(mon.table_breaches) < 50:
                    mon.table_breaches.append({"table": table, "key": getattr(key, "name", str(key)), "parser": type(psr).__name__,
                                               "index_before": i0, "index_after": i1})
                return r
            return w

        for c in classes:
            for table in DISPATCH_TABLES:
                dct = c.__dict__.get(table)
                if not isinstance(dct, dict) or id(dct) in seen:
                    continue
                seen.add(id(dct))
                for k, fn in list(dct.items()):
                    if callable(fn):
                        self.wrapped_tables.append((dct, k, fn))
                        dct[k] = mk(table, k, fn)

    def remove(self):
        if not self.installed:
            return
        for dct, k, fn in self.wrapped_tables:
            dct[k] = fn
        self.wrapped_tables = []
        _, _, parser, _, _, generator, tc, *_ = sg()
        parser.Parser._advance = self.orig["adv"]
        parser.Parser._match = self.orig["match"]
        parser.Parser._match_set = self.orig["match_set"]
        parser.Parser.expression = self.orig["expression"]
        parser.Parser.raise_error = self.orig["raise_error"]
        parser.Parser._try_parse = self.orig["try"]
        parser.Parser._parse_csv = self.orig["csv"]
        parser.Parser._parse_wrapped = self.orig["wrapped"]
        tc.TokenizerCore._advance = self.orig["tadv"]
        tc.TokenizerCore.tokenize = self.orig["ttok"]
        generator.Generator.sql = self.orig["gsql"]
        self.installed = False

    def reset(self):
        self.p_steps = self.t_steps = self.g_calls = self.w_units = 0
        self.p_cap = self.t_cap = self.g_cap = self.w_cap = None
        self.table_breaches = []


MON = Monitor()


def with_watchdog(fn, timeout=WATCHDOG_S):
    def handler(signum, frame):
        raise _Watchdog()

    old = signal.signal(signal.SIGALRM, handler)
    signal.setitimer(signal.ITIMER_REAL, timeout)
    try:
        return fn()
    finally:
        signal.setitimer(signal.ITIMER_REAL, 0)
        signal.signal(signal.SIGALRM, old)


def innermost_sqlglot_frame(e: BaseException) -> str:
    tb = traceback.extract_tb(e.__traceback__)
    for fr in reversed(tb):
        if "sqlglot" in fr.filename and "/vf/" not in fr.filename:
            return os.path.basename(fr.filename)[:-3] + "." + fr.name
    return "?"


GENERIC_PARSE_HELPERS = {"_parse_var", "_parse_placeholder", "_parse_wrapped", "_parse_csv", "_parse_wrapped_csv", "_parse_id_var",
                         "_parse_string", "_parse_field", "_parse_unquoted_field", "_parse_bracket", "_parse_primary", "_parse_var_or_string",
                         "_parse_identifier", "_parse_number", "_parse_star", "_parse_null", "_parse_boolean", "_parse_parameter"}


def cycle_frame(e: BaseException) -> str:
    """for a RecursionError: the (alphabetically first) most frequent sqlglot function on the stack"""
    cnt: dict = {}
    for fr in traceback.extract_tb(e.__traceback__):
        if "sqlglot" in fr.filename and "/vf/" not in fr.filename and fr.name.startswith("_parse_"):
            k = os.path.basename(fr.filename)[:-3] + "." + fr.name
            cnt[k] = cnt.get(k, 0) + 1
    if not cnt:
        return "?"
    m = max(cnt.values())
    return sorted(k for k, v in cnt.items() if v >= m - 2)[0]


def stack_names(e: BaseException) -> list:
    return [os.path.basename(fr.filename)[:-3] + "." + fr.name for fr in traceback.extract_tb(e.__traceback__)
            if "sqlglot" in fr.filename and "/vf/" not in fr.filename]


def loop_frame(e: BaseException) -> str:
    """for an exhausted step budget: the deepest non-generic `_parse_*` method on the stack (the owner of the loop)"""
    tb = traceback.extract_tb(e.__traceback__)
    for fr in reversed(tb):
        if "sqlglot" in fr.filename and "/vf/" not in fr.filename and fr.name.startswith("_parse_") and fr.name not in GENERIC_PARSE_HELPERS:
            return os.path.basename(fr.filename)[:-3] + "." + fr.name
    return innermost_sqlglot_frame(e)


# ------------------------------------------------------------------------------------------- the property oracle
def run_pipeline(sql: str, dialect: str, level: str, write: str | None = None, caps: bool = True, scale: float = 1.0) -> dict:
    """tokenize -> parse -> generate on the real code under the step counters. Returns a verdict record:
    {"ok": bool, "phase", "exc", "frame", "msg", "steps": {...}, "n_tokens", "parser_errors": bool}"""
    _, exp, parser, tokens, errors, generator, tc, Dialect, _ = sg()
    MON.install()
    MON.reset()
    lvl = errors.ErrorLevel[level]
    d = Dialect.get_or_raise(dialect or None)
    res = {"ok": True, "phase": None, "exc": None, "frame": None, "msg": None, "parser_errors": False,
           "n_tokens": 0, "steps": {}, "running": "tokenize"}

    def fail(phase, e):
        res.update(ok=False, phase=phase, exc=type(e).__name__, frame=innermost_sqlglot_frame(e), msg=str(e)[:200])
        return res

    def body():
        # ---- tokenize
        if caps:
            MON.t_cap = K_TOKENIZE * (len(sql) + 1)
        try:
            toks = d.tokenize(sql)
        except errors.SqlglotError:
            res["steps"]["tokenize"] = MON.t_steps
            return res
        except StepBudget as e:
            res.update(ok=False, phase="tokenize", exc="StepBudget", frame="tokenizer_core._scan",
                       msg=f"more than {MON.t_cap} TokenizerCore._advance calls for {len(sql)} characters")
            return res
        except Exception as e:  # noqa
            return fail("tokenize", e)
        res["steps"]["tokenize"] = MON.t_steps
        res["running"] = "parse"
        n = len(toks)
        res["n_tokens"] = n
        # ---- parse
        if caps:
            MON.p_cap = int(scale * K_PARSE * (n + 1) * (n + 1))
            MON.w_cap = int(scale * (K_WORK * (n + 1) * (n + 1) + WORK_CONST))
        p = d.parser(error_level=lvl)
        trees = None
        res["running"] = "parse"
        try:
            trees = p.parse(toks, sql)
        except errors.SqlglotError:
            res["steps"]["parse"] = MON.p_steps
            res["steps"]["work"] = MON.w_units
            return res
        except StepBudget as e:
            fr = loop_frame(e)
            res["stack"] = stack_names(e)
            res.update(ok=False, phase="parse", exc="StepBudget", frame=fr,
                       msg=(f"more than {MON.p_cap} Parser._advance calls" if str(e) == "parser" else
                            f"more than {MON.w_cap} _match/_match_set/expression/raise_error calls") + f" for {n} tokens (loop in {fr})")
            return res
        except RecursionError as e:
            res.update(ok=False, phase="parse", exc="RecursionError", frame=cycle_frame(e),
                       msg=f"unbounded recursion on {n} tokens after {MON.p_steps} Parser._advance calls")
            return res
        except Exception as e:  # noqa
            return fail("parse", e)
        res["steps"]["parse"] = MON.p_steps
        res["steps"]["work"] = MON.w_units
        res["running"] = "generate"
        has_err = bool(p.errors)
        if not has_err and lvl in (errors.ErrorLevel.IGNORE, errors.ErrorLevel.WARN):
            # IGNORE skips validate_expression: a tree with missing required arguments is what the other levels would
            # have recorded an error for.  (WARN: dialects that delegate to an inner parser, e.g. athena, keep the
            # recorded errors on the inner parser object.)
            try:
                for tr in trees:
                    if tr is not None and any(nd.error_messages() for nd in tr.walk()):
                        has_err = True
                        break
            except Exception:  # noqa
                has_err = True
        res["parser_errors"] = has_err
        # ---- generate (transpile = parse + write-dialect generate)
        wd = Dialect.get_or_raise(write or None) if write is not None else d
        nodes = 0
        for tr in trees:
            if tr is None:
                continue
            try:
                nodes = sum(1 for _ in tr.walk())
            except Exception:  # noqa
                nodes = 1000
            if caps:
                MON.g_calls = 0
                MON.g_cap = K_GENERATE * (nodes + 1)
            try:
                wd.generate(tr, copy=True, unsupported_level=lvl)
            except errors.SqlglotError:
                pass
            except StepBudget:
                res.update(ok=False, phase="generate", exc="StepBudget", frame="generator.sql",
                           msg=f"more than {MON.g_cap} Generator.sql calls for {nodes} nodes")
                return res
            except RecursionError as e:
                if nodes < 150:
                    res.update(ok=False, phase="generate", exc="RecursionError", frame=cycle_frame(e),
                               msg=f"unbounded recursion generating a tree of {nodes} nodes")
                    return res
            except Exception as e:  # noqa
                return fail("generate", e)
            res["steps"]["generate"] = max(res["steps"].get("generate", 0), MON.g_calls)
            res["nodes"] = max(res.get("nodes", 0), nodes)
        return res

    try:
        return with_watchdog(body)
    except _Watchdog:
        res.update(ok=False, phase=res.get("running") or "?", exc="Timeout", frame="?", msg=f"still running after {WATCHDOG_S}s")
        return res
    finally:
        res["table_breaches"] = MON.table_breaches[:3]
        MON.reset()


# =========================================================================================== generators
IDS = ["a", "b", "c", "x", "y", "t", "u", "col1", "tbl", "db", "k", "v"]
FUNCS = ["COUNT", "SUM", "MAX", "COALESCE", "LOWER", "ABS", "SUBSTRING", "DATE_TRUNC", "IF", "CONCAT", "ROUND", "NULLIF"]
TYPES = ["INT", "TEXT", "DECIMAL(10, 2)", "VARCHAR(20)", "DATE", "TIMESTAMP", "BOOLEAN", "ARRAY<INT>", "DOUBLE"]
BINOPS = ["+", "-", "*", "/", "%", "=", "<>", "<", "<=", ">", ">=", "AND", "OR", "||", "LIKE", "IS", "IN", "&", "|", "^", "<<", "->", "::"]


class Gen:
    def __init__(self, rng):
        self.r = rng

    def ident(self):
        r = self.r
        x = r.choice(IDS)
        q = r.random()
        if q < 0.08:
            return '"' + x + '"'
        if q < 0.12:
            return "`" + x + "`"
        if q < 0.14:
            return "[" + x + "]"
        return x

    def lit(self):
        r = self.r
        k = r.random()
        if k < 0.3:
            return str(r.choice([0, 1, 2, 10, 1.5, 100, "1e3", "0x1F", "1_000", "12L", "3.", ".5"]))
        if k < 0.55:
            return "'" + r.choice(["", "a", "it''s", "x y", "%a%", "2020-01-01", "\\n", "é"]) + "'"
        if k < 0.65:
            return r.choice(["NULL", "TRUE", "FALSE", "CURRENT_DATE", "CURRENT_TIMESTAMP"])
        if k < 0.72:
            return r.choice(["DATE '2020-01-01'", "INTERVAL '1' DAY", "INTERVAL 2 MONTH", "TIMESTAMP '2020-01-01 00:00:00'"])
        if k < 0.78:
            return r.choice(["?", ":p", "@v", "$1", "{{x}}", "@@g"])
        if k < 0.84:
            return r.choice(["[1, 2]", "ARRAY[1, 2]", "{'a': 1}", "MAP(1, 2)", "STRUCT(1 AS a)", "(1, 2)"])
        return self.col()

    def col(self):
        r = self.r
        if r.random() < 0.4:
            return self.ident() + "." + self.ident()
        return self.ident()

    def expr(self, d=0):
        r = self.r
        k = r.random()
        if d > 3 or k < 0.28:
            return self.lit() if r.random() < 0.5 else self.col()
        if k < 0.5:
            op = r.choice(BINOPS)
            if op == "IN":
                return f"{self.expr(d + 1)} {r.choice(['IN', 'NOT IN'])} ({', '.join(self.expr(d + 2) for _ in range(r.randint(1, 3)))})"
            if op == "IS":
                return f"{self.expr(d + 1)} IS {r.choice(['NULL', 'NOT NULL', 'TRUE', 'DISTINCT FROM 1'])}"
            if op == "::":
                return f"{self.expr(d + 1)}::{r.choice(TYPES)}"
            if op == "LIKE":
                return f"{self.expr(d + 1)} {r.choice(['LIKE', 'NOT LIKE', 'ILIKE', 'RLIKE', 'SIMILAR TO'])} {self.lit()}" + (" ESCAPE '!'" if r.random() < 0.2 else "")
            return f"{self.expr(d + 1)} {op} {self.expr(d + 1)}"
        if k < 0.58:
            return f"({self.expr(d + 1)})"
        if k < 0.68:
            f = r.choice(FUNCS)
            args = ", ".join(self.expr(d + 1) for _ in range(r.randint(0, 3)))
            if f == "COUNT" and r.random() < 0.5:
                args = r.choice(["*", "DISTINCT " + self.col()])
            s = f"{f}({args})"
            if r.random() < 0.25:
                s += " OVER (" + r.choice(["", "PARTITION BY " + self.col(), "ORDER BY " + self.col() + " DESC",
                                          "PARTITION BY a ORDER BY b ROWS BETWEEN 1 PRECEDING AND CURRENT ROW"]) + ")"
            if r.random() < 0.08:
                s += " FILTER (WHERE " + self.expr(d + 2) + ")"
            return s
        if k < 0.75:
            n = r.randint(1, 2)
            whens = " ".join(f"WHEN {self.expr(d + 1)} THEN {self.expr(d + 1)}" for _ in range(n))
            return f"CASE {self.expr(d + 2) + ' ' if r.random() < 0.3 else ''}{whens}{' ELSE ' + self.expr(d + 1) if r.random() < 0.6 else ''} END"
        if k < 0.82:
            return f"{r.choice(['CAST', 'TRY_CAST', 'SAFE_CAST'])}({self.expr(d + 1)} AS {r.choice(TYPES)})"
        if k < 0.87:
            return f"{r.choice(['NOT ', '-', '~', 'EXISTS ', 'DISTINCT '])}{self.expr(d + 1)}" if r.random() < 0.7 else f"NOT {self.expr(d + 1)} BETWEEN 1 AND {self.expr(d + 2)}"
        if k < 0.92:
            return f"({self.select(d + 2)})"
        if k < 0.95:
            return f"{self.col()}[{r.choice(['0', '1', self.lit()])}]"
        if k < 0.97:
            return f"EXTRACT({r.choice(['YEAR', 'DAY', 'EPOCH'])} FROM {self.expr(d + 1)})"
        return r.choice([f"x -> x + 1", f"{self.col()} AT TIME ZONE 'UTC'", f"{self.expr(d + 1)} COLLATE utf8", "a.b.c.d", f"{self.col()}:k.v"])

    def table(self, d=0):
        r = self.r
        k = r.random()
        if d < 3 and k < 0.15:
            t = f"({self.select(d + 1)})"
            return t + " AS " + self.ident()
        if k < 0.22:
            return r.choice(["UNNEST([1, 2]) AS u", "LATERAL (SELECT 1) AS l", "t TABLESAMPLE (10 PERCENT)", "generate_series(1, 3) AS g(x)",
                             "(VALUES (1, 2), (3, 4)) AS v(a, b)", "t FOR SYSTEM_TIME AS OF '2020'", "t PIVOT(SUM(a) FOR b IN ('x', 'y'))",
                             "db.t WITH (NOLOCK)", "t@lnk", "t FINAL"])
        name = self.ident()
        if r.random() < 0.3:
            name = self.ident() + "." + name
        if r.random() < 0.4:
            name += (" AS " if r.random() < 0.6 else " ") + self.ident()
        return name

    def select(self, d=0):
        r = self.r
        parts = ["SELECT"]
        if r.random() < 0.1:
            parts.append(r.choice(["DISTINCT", "ALL", "TOP 3", "DISTINCT ON (a)"]))
        cols = []
        for _ in range(r.randint(1, 3)):
            c = self.expr(d + 1) if r.random() < 0.9 else r.choice(["*", "t.*", "* EXCEPT (a)", "* REPLACE (1 AS a)"])
            if r.random() < 0.3 and "*" not in c:
                c += (" AS " if r.random() < 0.7 else " ") + self.ident()
            cols.append(c)
        parts.append(", ".join(cols))
        if r.random() < 0.85:
            parts.append("FROM " + self.table(d))
            for _ in range(r.choice([0, 0, 0, 1, 1, 2])):
                j = r.choice(["JOIN", "LEFT JOIN", "INNER JOIN", "CROSS JOIN", "FULL OUTER JOIN", ",", "NATURAL JOIN", "LEFT SEMI JOIN",
                              "CROSS APPLY", "ASOF JOIN", "LEFT JOIN LATERAL"])
                s = j + " " + self.table(d)
                if "CROSS" not in j and j != "," and "NATURAL" not in j:
                    s += r.choice([" ON " + self.expr(d + 2), " USING (" + self.ident() + ")", ""])
                parts.append(s)
        if r.random() < 0.5:
            parts.append("WHERE " + self.expr(d + 1))
        if r.random() < 0.25:
            parts.append("GROUP BY " + r.choice([self.col(), "1, 2", "ROLLUP (a, b)", "GROUPING SETS ((a), (b))", "ALL", "CUBE (a)"]))
            if r.random() < 0.4:
                parts.append("HAVING " + self.expr(d + 2))
        if r.random() < 0.1:
            parts.append("QUALIFY " + self.expr(d + 2))
        if r.random() < 0.1:
            parts.append("WINDOW w AS (PARTITION BY a)")
        if r.random() < 0.25:
            parts.append("ORDER BY " + self.expr(d + 2) + r.choice(["", " DESC", " ASC NULLS LAST", " NULLS FIRST"]))
        if r.random() < 0.2:
            parts.append(r.choice(["LIMIT 10", "LIMIT 5 OFFSET 2", "LIMIT 1, 2", "FETCH FIRST 3 ROWS ONLY", "OFFSET 1 ROWS"]))
        s = " ".join(parts)
        if d < 2 and r.random() < 0.12:
            s += " " + r.choice(["UNION", "UNION ALL", "INTERSECT", "EXCEPT", "UNION DISTINCT"]) + " " + self.select(d + 1)
        return s

    def statement(self):
        r = self.r
        k = r.random()
        if k < 0.55:
            s = self.select()
            if r.random() < 0.15:
                s = f"WITH {self.ident()} AS ({self.select(1)}){', ' + self.ident() + ' AS (SELECT 1)' if r.random() < 0.3 else ''} " + s
            return s
        if k < 0.63:
            cols = ", ".join(f"{self.ident()} {r.choice(TYPES)}{r.choice(['', ' NOT NULL', ' DEFAULT 0', ' PRIMARY KEY', ' COMMENT ' + chr(39) + 'c' + chr(39)])}"
                             for _ in range(r.randint(1, 3)))
            tail = r.choice(["", " PARTITIONED BY (a)", " WITH (format = 'parquet')", " ENGINE=InnoDB", " AS SELECT 1", " USING delta",
                             " CLUSTER BY (a)", " ORDER BY a", " TBLPROPERTIES ('a'='b')"])
            return f"CREATE {r.choice(['', 'OR REPLACE ', 'TEMPORARY ', 'EXTERNAL '])}TABLE {r.choice(['', 'IF NOT EXISTS '])}{self.table(9).split(' ')[0]} ({cols}){tail}"
        if k < 0.69:
            return f"INSERT {r.choice(['INTO', 'OVERWRITE TABLE', 'OR REPLACE INTO'])} {self.ident()} {r.choice(['', '(a, b) '])}{r.choice(['VALUES (1, 2), (3, 4)', self.select(1), 'DEFAULT VALUES'])}{r.choice(['', ' ON CONFLICT DO NOTHING', ' RETURNING a', ' ON DUPLICATE KEY UPDATE a = 1'])}"
        if k < 0.74:
            return f"UPDATE {self.table(9)} SET {self.ident()} = {self.expr(1)}{', b = 2' if r.random() < 0.3 else ''}{' FROM ' + self.table(9) if r.random() < 0.2 else ''}{' WHERE ' + self.expr(1) if r.random() < 0.7 else ''}"
        if k < 0.78:
            return f"DELETE FROM {self.table(9)}{' USING ' + self.ident() if r.random() < 0.15 else ''}{' WHERE ' + self.expr(1) if r.random() < 0.7 else ''}"
        if k < 0.82:
            return f"MERGE INTO {self.ident()} AS t USING {self.ident()} AS s ON t.a = s.a WHEN MATCHED THEN UPDATE SET t.b = s.b WHEN NOT MATCHED THEN INSERT (a, b) VALUES (s.a, s.b)"
        if k < 0.9:
            return r.choice([
                "ALTER TABLE t ADD COLUMN c INT", "ALTER TABLE t DROP COLUMN c", "ALTER TABLE t RENAME TO u", "ALTER TABLE t ALTER COLUMN c SET DATA TYPE TEXT",
                "DROP TABLE IF EXISTS t CASCADE", "CREATE VIEW v AS SELECT 1", "CREATE INDEX i ON t (a, b DESC)", "CREATE SCHEMA IF NOT EXISTS s",
                "CREATE FUNCTION f(x INT) RETURNS INT AS 'SELECT 1'", "TRUNCATE TABLE t", "DESCRIBE t", "SHOW TABLES", "USE db", "SET x = 1",
                "BEGIN", "COMMIT", "ROLLBACK", "EXPLAIN SELECT 1", "COPY t FROM 's3://x' WITH (FORMAT CSV)", "GRANT SELECT ON t TO u",
                "ANALYZE TABLE t COMPUTE STATISTICS", "CACHE TABLE t", "PRAGMA table_info(t)", "COMMENT ON TABLE t IS 'x'", "KILL 5",
                "LOAD DATA INPATH 'x' INTO TABLE t", "CALL p(1)", "EXECUTE IMMEDIATE 'SELECT 1'", "DECLARE @x INT = 1", "CREATE SEQUENCE s START WITH 1",
                "SELECT 1; SELECT 2", "SELECT a /* c */ FROM t -- tail", "SELECT $$x$$", "SELECT $tag$ x $tag$", "SELECT 1 /*+ HINT(a) */",
                "SELECT /*+ BROADCAST(t) */ a FROM t", "FROM t SELECT a", "FROM t |> WHERE a > 1 |> SELECT a", "SELECT 12abc", "SELECT 1e", "SELECT 0b101, 0xZZ",
                "SELECT b'abc', x'1F', r'a\\b', N'x', e'\\n'", "SELECT {d '2020-01-01'}", "VALUES (1), (2)", "(SELECT 1) UNION (SELECT 2)",
                "SELECT * FROM t MATCH_RECOGNIZE (PARTITION BY a PATTERN (A B+) DEFINE A AS a > 1)", "SELECT a FROM t CONNECT BY PRIOR a = b START WITH a = 1",
                "WITH RECURSIVE r AS (SELECT 1 UNION ALL SELECT a + 1 FROM r) SELECT * FROM r", "SELECT JSON_OBJECT('a': 1)", "SELECT x -> 'a' ->> 'b' #> '{c}'",
                "SELECT TRIM(BOTH 'x' FROM y), POSITION('a' IN b), OVERLAY(a PLACING b FROM 1)", "SELECT a FROM t FOR UPDATE OF t NOWAIT",
                "SELECT CAST(a AS STRUCT<x INT, y ARRAY<TEXT>>)", "SELECT ARRAY_AGG(a ORDER BY b LIMIT 2), STRING_AGG(a, ',' ORDER BY b)",
                "SELECT a FROM t WHERE b = ANY (SELECT 1) AND c > ALL (ARRAY[1])", "SELECT 1 AS \"a b\", 'x' 'y'", "SELECT IF(a, b, c), a ?: b, a ?? b",
            ])
        return self.select()


def safe_base_tokenize(sql: str):
    """base-dialect tokens for the harness' own use (mutators, skeletons), under the step cap and the watchdog so that a
    broken tokenizer cannot stall the harness; None when it fails"""
    _, _, _, tokens, errors, *_ = sg()
    MON.install()
    old = (MON.t_steps, MON.t_cap)
    MON.t_steps, MON.t_cap = 0, 50 * (len(sql) + 2)
    try:
        return with_watchdog(lambda: tokens.Tokenizer().tokenize(sql), 5.0)
    except BaseException:  # noqa
        return None
    finally:
        MON.t_steps, MON.t_cap = old


def split_tokens(sql: str) -> list:
    """token texts of `sql` as seen by the base tokenizer (falls back to whitespace splitting)"""
    toks = safe_base_tokenize(sql)
    if toks:
        return [sql[t.start: t.end + 1] for t in toks]
    return sql.split()


SOUP = ["SELECT", "FROM", "WHERE", "(", ")", ",", "AS", "JOIN", "ON", "AND", "OR", "NOT", "CASE", "WHEN", "THEN", "ELSE", "END", "BY", "GROUP",
        "ORDER", "IN", "IS", "NULL", "BETWEEN", "LIKE", "OVER", "PARTITION", "UNION", "ALL", "DISTINCT", "CAST", "WITH", "INSERT", "INTO", "VALUES",
        "CREATE", "TABLE", "ALTER", "DROP", "SET", "UPDATE", "DELETE", "*", ".", ";", "=", "<", ">", "+", "-", "/", "::", "[", "]", "{", "}", ":", "?",
        "a", "b", "1", "'x'", "INTERVAL", "LATERAL", "UNNEST", "EXISTS", "LIMIT", "OFFSET", "USING", "HAVING", "WINDOW", "ROWS", "FILTER", "PIVOT",
        "FOR", "TRY_CAST", "STRUCT", "ARRAY", "MAP", "IF", "ELSE", "BEGIN", "COMMIT", "MERGE", "MATCHED", "DEFAULT", "PRIMARY", "KEY", "REFERENCES",
        "@", "$", "#", "->", "=>", "|>", "||", "&&", "!", "~", "^", "%", "<=>", ":=", "QUALIFY", "TABLESAMPLE", "RETURNING", "COLLATE", "ESCAPE",
        "EXTRACT", "TRIM", "POSITION", "SUBSTRING", "COUNT", "FORMAT", "SHOW", "DESCRIBE", "EXPLAIN", "GRANT", "COPY", "COMMENT", "CACHE", "PRAGMA"]
UNI = ["é", "ß", "İ", "Ω", "€", " ", " ", "​", " ", "日本", "😀", "́", "ǅ", "٣", "²", "½", "﻿", "\x00", "\x1f", "\r", "\n", "\t",
       "\\", "'", '"', "`", "$", "$$", "/*", "*/", "--", "#", "{{", "}}", "{%", "%}", "0x", "1e", "e'", "N'", "b'", "@@", "::", "٠", "ａ", "＇"]


ELEMENT_TEMPLATES = [
    "INSERT INTO t (a, {R}) VALUES (1)", "INSERT INTO t ({R}, a) VALUES (1, 2)", "INSERT INTO t VALUES (1, {R})",
    "CREATE TABLE t (a INT, {R})", "CREATE TABLE t ({R}, a INT)", "CREATE TABLE t (a INT {R}, b INT)", "CREATE TABLE t (a {R}, b INT)",
    "CREATE TABLE t (a INT, CONSTRAINT c {R} (a))", "CREATE TABLE t (a INT, PRIMARY KEY (a, {R}))", "CREATE TABLE t (a INT {R} {R})",
    "CREATE TABLE t (a INT, FOREIGN KEY (a) REFERENCES u ({R}))", "CREATE TABLE t (a INT) PARTITION BY ({R}, a)",
    "SELECT a, {R} FROM t", "SELECT f(a, {R})", "SELECT * FROM t WHERE a IN (1, {R})", "SELECT * FROM t GROUP BY a, {R}",
    "SELECT * FROM t ORDER BY a, {R}", "SELECT a FROM t, {R}", "SELECT * FROM t JOIN u USING (a, {R})", "SELECT CAST(a AS {R})",
    "SELECT x OVER (PARTITION BY a, {R})", "SELECT STRUCT<a INT, {R}>(1)", "WITH {R} AS (SELECT 1) SELECT 1", "WITH a AS (SELECT 1), {R} SELECT 1",
    "ALTER TABLE t ADD COLUMN {R} INT", "ALTER TABLE t ADD COLUMN a INT, {R}", "UPDATE t SET a = 1, {R}", "MERGE INTO t USING u ON a WHEN MATCHED THEN UPDATE SET a = 1, {R}",
    "COPY t {R}", "COPY t FROM 'x' WITH ({R})", "GRANT {R} ON t TO u", "GRANT SELECT, {R} ON t TO u", "CREATE INDEX i ON t (a, {R})", "VALUES (1, {R}), ({R})",
    "SELECT * FROM t PIVOT(SUM(a) FOR b IN ({R}, 'x'))", "CREATE TABLE t (a INT) WITH (x = 1, {R})", "SET a = 1, {R}", "CALL p(1, {R})",
]


def gen_input(rng, gen: Gen, dialect_keywords=None, table_words=None):
    """returns (kind, sql)"""
    k = rng.random()
    if k < 0.1 and table_words:
        # a key of one of the dialect's dispatch tables in a continuation its parser does not expect
        w = rng.choice(table_words)
        sql = (rng.choice(KW_CONTEXTS) + rng.choice(KW_CONTINUATIONS)).replace("{K}", w)
        if rng.random() < 0.3:
            sql = gen.select() + " " + w + rng.choice(KW_CONTINUATIONS).replace("{K}", w)
        return "table-keyword", sql
    if k < 0.2:
        # reserved words / punctuation in element position of every list-shaped construct (_parse_csv element parsers)
        tpl = rng.choice(ELEMENT_TEMPLATES)
        pool = SOUP if dialect_keywords is None or rng.random() < 0.6 else dialect_keywords
        while "{R}" in tpl:
            tpl = tpl.replace("{R}", rng.choice(pool), 1)
        return "reserved-element", tpl
    k = rng.random()
    base = gen.statement()
    if k < 0.18:
        return "valid", base
    if k < 0.62:
        toks = split_tokens(base)
        for _ in range(rng.choice([1, 1, 1, 2, 3])):
            if not toks:
                break
            op = rng.choice(["delete", "insert", "swap", "duplicate", "replace"])
            i = rng.randrange(len(toks))
            if op == "delete":
                del toks[i]
            elif op == "insert":
                toks.insert(i, rng.choice(SOUP) if rng.random() < 0.7 else rng.choice(toks))
            elif op == "swap":
                j = rng.randrange(len(toks))
                toks[i], toks[j] = toks[j], toks[i]
            elif op == "duplicate":
                toks.insert(i, toks[i])
            else:
                toks[i] = rng.choice(SOUP)
        return "mutated", " ".join(toks)
    if k < 0.76:
        if rng.random() < 0.5:
            toks = split_tokens(base)
            return "truncated", " ".join(toks[: rng.randrange(len(toks) + 1)])
        return "truncated", base[: rng.randrange(len(base) + 1)]
    if k < 0.9:
        pool = SOUP if dialect_keywords is None or rng.random() < 0.5 else dialect_keywords
        return "soup", " ".join(rng.choice(pool) for _ in range(rng.randint(1, 14)))
    n = rng.randint(1, 12)
    parts = []
    for _ in range(n):
        q = rng.random()
        if q < 0.45:
            parts.append(rng.choice(UNI))
        elif q < 0.6:
            parts.append(chr(rng.choice([rng.randrange(0x20, 0x7F), rng.randrange(0xA0, 0x2FF), rng.randrange(0x2000, 0x2100), rng.randrange(0x4E00, 0x4F00)])))
        elif q < 0.8:
            parts.append(rng.choice(SOUP))
        else:
            parts.append(rng.choice([" ", "", " ", "\n"]))
    s = "".join(p + (" " if rng.random() < 0.4 else "") for p in parts)
    if rng.random() < 0.3:
        s = base[: rng.randrange(len(base) + 1)] + s
    return "unicode", s


_KW_CACHE: dict = {}


def case_variants(k: str) -> list:
    mixed = "".join(c.upper() if i % 2 else c.lower() for i, c in enumerate(k))
    out = []
    for v in (k, k.lower(), k.upper(), mixed, k.swapcase()):
        if v not in out:
            out.append(v)
    return out


TOK_CONTINUATIONS = ["", "AB'", "ab", " ", "'", '"', "`", "$", "\\", "\n", "1F'", "{K}", " x {K}", "]", "*/", "$x$"]


def tokenizer_delimiters(dialect) -> dict:
    """keys of the live tokenizer tables of this dialect: {"delims": quotes/format strings/identifiers/comments,
    "trie": keys of the keyword trie that are not plain words, "commands": spellings of COMMANDS / COMMAND_PREFIX_TOKENS,
    "keywords": every KEYWORDS key}"""
    *_, Dialect, _ = sg()
    tk = Dialect.get_or_raise(dialect or None).tokenizer_class
    delims = set()
    for name in ("_QUOTES", "_FORMAT_STRINGS", "_IDENTIFIERS", "_COMMENTS"):
        delims |= {k for k in (getattr(tk, name, {}) or {}) if isinstance(k, str) and k}
    kws = {k for k in (getattr(tk, "KEYWORDS", {}) or {}) if isinstance(k, str) and k}
    trie = {k for k in kws if not k.replace("_", "").isalnum()}
    inv: dict = {}
    for k, tt in (getattr(tk, "KEYWORDS", {}) or {}).items():
        if k and k.replace("_", "").isalnum():
            inv.setdefault(tt, k)
    commands = sorted({inv[t] for t in (getattr(tk, "COMMANDS", ()) or ()) if t in inv})
    prefixes = sorted({inv[t] for t in (getattr(tk, "COMMAND_PREFIX_TOKENS", ()) or ()) if t in inv} | {";"})
    return {"delims": sorted(delims), "trie": sorted(trie), "commands": commands, "prefixes": prefixes, "keywords": sorted(kws)}


def tokenizer_stream(dialect, rng, quick=True):
    """adversarial tokenizer inputs derived from the live tables: every delimiter / trie key in every letter case (the trie
    is case-insensitive, the dict lookups behind it are not), followed by end of input / a body / another delimiter"""
    t = tokenizer_delimiters(dialect)
    words = list(t["delims"]) + list(t["trie"]) + t["commands"]
    extra = [k for k in t["keywords"] if k not in set(words)]
    words += extra if not quick else rng.sample(extra, min(25, len(extra)))
    for k in words:
        for v in case_variants(k):
            for cont in TOK_CONTINUATIONS:
                body = v + cont.replace("{K}", v)
                yield body
                yield "SELECT " + body
                if not quick:
                    yield "SELECT a" + body + " FROM t"


def tokenizer_stress(dialect, n=2000):
    """depth / length stress for the tokenizer-only phase: long repetitions of command keywords (nested command scanning),
    nesting openers and delimiters"""
    t = tokenizer_delimiters(dialect)
    for pre in t["prefixes"][:3]:
        for c in t["commands"][:6]:
            yield (pre + " " + c + " ") * n
    for c in t["commands"][:4]:
        yield (c + " ") * n
        yield (c + " x; ") * n
    for unit in ["(", "[", "{", "/*", "/* x */", "--\n", "CASE ", "SELECT (", "'", "''", '"', "$$", "$a$", "x.", "1e", "0x", "((a))", ";", "1_", "\\"]:
        yield unit * n
    for d in t["delims"][:12]:
        yield (d + " ") * n


def tokenize_only(sql, dialect):
    """tokenizer-only oracle: None if `tokenize` returns or raises a sqlglot error within its step budget"""
    *_, errors, _, _, Dialect, _ = sg()
    MON.install()
    MON.reset()
    MON.t_cap = K_TOKENIZE * (len(sql) + 1)
    try:
        with_watchdog(lambda: Dialect.get_or_raise(dialect or None).tokenize(sql))
        return None
    except errors.SqlglotError:
        return None
    except BaseException as e:  # noqa
        return type(e).__name__
    finally:
        MON.reset()


_TK_CACHE: dict = {}

KW_CONTEXTS = ["SELECT x {K}", "SELECT a FROM t WHERE x = 1 {K}", "SELECT a FROM t {K}", "SELECT * FROM a JOIN b ON a.x = b.x {K}",
               "SELECT x, y {K}", "SELECT (x) {K}", "{K}", "SELECT f(x {K}", "CREATE TABLE t (a INT {K}", "SELECT a FROM (SELECT 1) AS s {K}"]
KW_CONTINUATIONS = ["", " y", " (SELECT 1)", " NOT y", " LEFT JOIN c ON 1 = 1", " ,", " )", " = 1", " {K}", " FROM u", " (", " AND z"]


def table_keywords(dialect) -> dict:
    """{"specific": [...], "loop": [...], "all": [...]}: spellings of every key of every dispatch table / loop-driving token
    set of this dialect's parser class, read from the live tables (so a new entry is covered automatically).
    `specific` = keys of loop-driving tables that the dialect adds or overrides relative to the base parser."""
    if dialect in _TK_CACHE:
        return _TK_CACHE[dialect]
    _, _, parser, tokens, _, _, _, Dialect, _ = sg()
    d = Dialect.get_or_raise(dialect or None)
    pc, base = d.parser_class, parser.Parser
    spell: dict = {}
    tk = d.tokenizer_class
    for text, tt in list(getattr(tk, "SINGLE_TOKENS", {}).items()) + list(getattr(tk, "KEYWORDS", {}).items()):
        if not text or "\n" in text:
            continue
        old = spell.get(tt)
        # prefer alphabetic spellings, then short ones
        if old is None or (text[0].isalpha(), -len(text)) > (old[0].isalpha(), -len(old)):
            spell[tt] = text

    def txt(k):
        if isinstance(k, str):
            return k
        return spell.get(k)

    def orig(dct, k):
        for dd, kk, fn in MON.wrapped_tables:
            if dd is dct and kk == k:
                return fn
        return dct.get(k)

    allk, loop, specific = set(), set(), set()
    for table in DISPATCH_TABLES:
        dct = getattr(pc, table, None)
        if not isinstance(dct, dict):
            continue
        bdct = getattr(base, table, {}) or {}
        for k in dct:
            t_ = txt(k)
            if not t_:
                continue
            allk.add(t_)
            if table in LOOP_TABLES:
                loop.add(t_)
                if pc is not base and (k not in bdct or orig(dct, k) is not orig(bdct, k)):
                    specific.add(t_)
    for name in LOOP_TOKEN_SETS:
        st = getattr(pc, name, None)
        bst = getattr(base, name, None) or ()
        if st is None:
            continue
        for k in st:
            t_ = txt(k)
            if not t_:
                continue
            allk.add(t_)
            loop.add(t_)
            if pc is not base and k not in bst:
                specific.add(t_)
    _TK_CACHE[dialect] = {"specific": sorted(specific), "loop": sorted(loop), "all": sorted(allk)}
    return _TK_CACHE[dialect]


def keyword_sweep(dialect, words, n_ctx=None, n_cont=None):
    for w in words:
        for ctx in KW_CONTEXTS[:n_ctx]:
            for cont in KW_CONTINUATIONS[:n_cont]:
                yield (ctx + cont).replace("{K}", w)


def element_words(dialect) -> list:
    """words that start a constraint / property / statement parser of this dialect, plus punctuation: what a list element
    parser may half-consume and give back"""
    *_, Dialect, _ = sg()
    pc = Dialect.get_or_raise(dialect or None).parser_class
    words = set()
    for table in ("CONSTRAINT_PARSERS", "PROPERTY_PARSERS", "SCHEMA_UNNAMED_CONSTRAINTS"):
        for k in getattr(pc, table, ()) or ():
            if isinstance(k, str) and k:
                words.add(k.split(" ")[0])
    words |= {"NOT", "NULL", ",", "(", ")", "/", "*", "SELECT", "FROM", "AS", "ON", "IN", "WITH", "CASE", "END", "BY", "SET", "VALUES", "."}
    return sorted(words)


def element_sweep(dialect):
    for tpl in ELEMENT_TEMPLATES[:12]:
        for w in element_words(dialect):
            yield tpl.replace("{R}", w)


def dialect_keywords(dialect):
    if dialect not in _KW_CACHE:
        *_, Dialect, _ = sg()
        d = Dialect.get_or_raise(dialect or None)
        kws = sorted(k for k in d.tokenizer_class.KEYWORDS if k and "\n" not in k)
        _KW_CACHE[dialect] = kws or SOUP
    return _KW_CACHE[dialect]


# =========================================================================================== minimise + key
def skeleton(sql: str) -> str:
    _, _, _, tokens, *_ = sg()
    TT = tokens.TokenType
    toks = safe_base_tokenize(sql)
    if toks is None:
        return "raw:" + "".join(c if ord(c) < 128 and not c.isalnum() else ("w" if c.isalnum() else "u") for c in sql)[:80]
    out = []
    for t in toks:
        if t.token_type in (TT.VAR, TT.IDENTIFIER):
            out.append("id")
        elif t.token_type == TT.NUMBER:
            out.append("n")
        elif t.token_type in (TT.STRING, TT.NATIONAL_STRING, TT.RAW_STRING, TT.BYTE_STRING, TT.HEX_STRING, TT.BIT_STRING, TT.HEREDOC_STRING, TT.UNICODE_STRING):
            out.append("lit")
        else:
            out.append(t.text.upper())
    return " ".join(out)[:160]


def same_failure(a: dict, b: dict) -> bool:
    if a["exc"] in ("StepBudget", "Timeout", "RecursionError"):
        return (not b["ok"]) and a["phase"] == b["phase"] and a["exc"] == b["exc"]
    return (not b["ok"]) and a["phase"] == b["phase"] and a["exc"] == b["exc"] and a["frame"] == b["frame"] and a["parser_errors"] == b["parser_errors"]


def minimise(sql, dialect, level, write, verdict, max_runs=250, max_s=12.0):
    """delta-debug over token texts (then characters for short inputs) keeping the same failure signature"""
    runs = 0
    t_end = time.time() + max_s

    def bad(s):
        nonlocal runs
        runs += 1
        if os.environ.get("C05_DEBUG_DUMP"):
            print("min", runs, repr(s)[:100], dialect, level, write, flush=True)
        if time.time() > t_end:
            runs = max_runs
            return False
        return same_failure(verdict, run_pipeline(s, dialect, level, write))

    toks = split_tokens(sql)
    joined = " ".join(toks)
    if not toks or not bad(joined):
        toks = None
    if toks is not None:
        chunk = max(1, len(toks) // 2)
        while chunk >= 1 and runs < max_runs:
            i = 0
            changed = False
            while i < len(toks) and runs < max_runs:
                cand = toks[:i] + toks[i + chunk:]
                if cand and bad(" ".join(cand)):
                    toks = cand
                    changed = True
                else:
                    i += chunk
            if chunk == 1 and not changed:
                break
            chunk = max(1, chunk // 2) if not changed or chunk > 1 else 1
            if chunk == 1 and not changed:
                break
        sql = " ".join(toks)
    if len(sql) <= 40:
        i = 0
        while i < len(sql) and runs < max_runs:
            cand = sql[:i] + sql[i + 1:]
            if cand and bad(cand):
                sql = cand
            else:
                i += 1
    return sql


def finding_key(verdict: dict, dialect, skel: str | None) -> str:
    base = f"{verdict['phase']}|{verdict['exc']}|{verdict['frame']}"
    if skel is None:
        return base
    return f"{base}|{dialect or 'base'}|{skel}"


def loop_owner(sql, dialect, level, write, verdict) -> str:
    """the method that owns a spinning loop: deepest `_parse_*` frame common to the stacks at two different budgets"""
    v2 = run_pipeline(sql, dialect, level, write, scale=1.37)
    a, b = verdict.get("stack") or [], v2.get("stack") or []
    common = []
    for x, y in zip(a, b):
        if x != y:
            break
        common.append(x)
    for name in reversed(common):
        if name.split(".")[-1].startswith("_parse_") and name.split(".")[-1] not in GENERIC_PARSE_HELPERS:
            return name
    return verdict["frame"]


def known_prefix(chk: Check, prefix: str, ctx: dict) -> bool:
    """does a known-finding entry of this property match every key that starts with `prefix|`?  (lets the search skip
    delta-debugging for defects that are already recorded; the entry is still matched by core on the full key)"""
    import re
    for k in chk._known:
        if k.get("property") != chk.pid or k.get("kind") != "known":
            continue
        m = k.get("match", {})
        if "key_regex" in m and re.fullmatch(m["key_regex"], prefix + "|any|any", re.S):
            if all(ctx.get(ck) == cv for ck, cv in m.get("context", {}).items()):
                return True
    return False


def consider(chk: Check, sql, dialect, level, write, verdict, tag="search"):
    """turn a failing verdict into a (minimised, keyed) violation report"""
    ctx = {"phase": verdict["phase"], "parser_errors": bool(verdict["parser_errors"]), "level": level}
    if verdict["exc"] == "StepBudget" and verdict["phase"] == "parse":
        verdict = dict(verdict, frame=loop_owner(sql, dialect, level, write, verdict))
    prefix = finding_key(verdict, dialect, None)
    msql = sql
    if known_prefix(chk, prefix, ctx):
        key = prefix + f"|{dialect or 'base'}|unminimised"
    elif len(chk.violations) >= 4 or any(v["key"].startswith(prefix + "|") for v in chk.violations):
        key = prefix + f"|{dialect or 'base'}|unminimised"   # enough minimised replays already; keep the run short
    else:
        msql = minimise(sql, dialect, level, write, verdict, max_runs=(3 if verdict["exc"] == "Timeout" else 250))
        v2 = run_pipeline(msql, dialect, level, write)
        if same_failure(verdict, v2):
            if v2["exc"] == "StepBudget" and v2["phase"] == "parse":
                v2 = dict(v2, frame=loop_owner(msql, dialect, level, write, v2))
            verdict = v2
        else:
            msql = sql
        key = finding_key(verdict, dialect, skeleton(msql))
    shown = repr(msql) if len(msql) <= 300 else repr(msql[:300]) + f"… ({len(msql)} characters, full text in the replay)"
    what = (f"{verdict['phase']} of {shown} (dialect={dialect or 'base'}, error_level={level}"
            f"{', write=' + str(write) if write is not None else ''}) "
            + (f"did not finish within its budget: {verdict['msg']}" if verdict["exc"] in ("StepBudget", "Timeout", "RecursionError")
               else f"leaked {verdict['exc']}: {verdict['msg']} [in {verdict['frame']}]"))
    chk.report_violation(key, what, {"sql": msql, "dialect": dialect, "level": level, "write": write, "original": sql if sql != msql else None,
                                     "expect": {"phase": verdict["phase"], "exc": verdict["exc"], "frame": verdict["frame"]}}, ctx)


# =========================================================================================== correspondence (A)
TOKMAP = ["L_PAREN", "R_PAREN", "COMMA", "VAR", "NUMBER", "SELECT", "FROM", "DOT", "STAR", "STRING"]


def rand_prog(rng, depth=0, wf=False):
    """random combinator program (JSON shape shared with the Lean driver)"""
    leafs = ["eps", "nothing", "tok", "tokSet", "peek", "pair", "anyTok", "fail", "textSeq", "textSeq", "restOfChunk"] + ([] if wf else ["advance"])
    if depth >= 4 or rng.random() < 0.3:
        k = rng.choice(leafs)
        if k in ("tok", "peek"):
            return [k, rng.randrange(len(TOKMAP))]
        if k == "tokSet":
            return [k, sorted(set(rng.randrange(len(TOKMAP)) for _ in range(rng.randint(0, 3))))]
        if k == "pair":
            return [k, rng.randrange(len(TOKMAP)), rng.randrange(len(TOKMAP))]
        if k == "textSeq":
            return [k, [rng.randrange(9) for _ in range(rng.randint(0, 3))], rng.random() < 0.7]
        return [k]
    k = rng.choice(["andThen", "both", "orElse", "attempt", "tryParse", "tryParse", "csv", "csv", "wrapped", "wrapped", "many",
                    "ifTok", "tableLoop", "tableLoop"])
    if k == "ifTok":
        return [k, sorted(set(rng.randrange(len(TOKMAP)) for _ in range(rng.randint(0, 3)))), rand_prog(rng, depth + 1, wf), rand_prog(rng, depth + 1, wf)]
    if k == "tableLoop":
        consume = rng.random() < 0.6
        body = rand_prog(rng, depth + 1, wf)
        if not consume and (wf or rng.random() < 0.8):
            body = ["andThen", ["anyTok"], body] if rng.random() < 0.5 else ["anyTok"]
        return [k, sorted(set(rng.randrange(len(TOKMAP)) for _ in range(rng.randint(1, 4)))), body, consume]
    if k in ("andThen", "both", "orElse"):
        return [k, rand_prog(rng, depth + 1, wf), rand_prog(rng, depth + 1, wf)]
    if k == "attempt":
        return [k, rand_prog(rng, depth + 1, wf)]
    if k == "tryParse":
        return [k, rand_prog(rng, depth + 1, wf), rng.random() < 0.3]
    if k == "csv":
        return [k, rand_prog(rng, depth + 1, wf), rng.choice([2, 2, 2, 7, 3])]
    if k == "wrapped":
        return [k, rand_prog(rng, depth + 1, wf), rng.random() < 0.4]
    body = rand_prog(rng, depth + 1, wf)
    if wf or rng.random() < 0.8:
        body = ["andThen", ["tokSet", sorted(set(rng.randrange(len(TOKMAP)) for _ in range(rng.randint(1, 4))))], body] if rng.random() < 0.7 else ["anyTok"]
    return [k, body]


class Diverged(Exception):
    pass


def interp(psr, prog, fuel, TT):
    """the combinator idioms written with the REAL Parser primitives; returns None / falsy / truthy Python values"""
    k = prog[0]
    if k == "eps":
        return True
    if k == "nothing":
        return None
    if k == "tok":
        return psr._match(TT[prog[1]])
    if k == "tokSet":
        return psr._match_set({TT[i] for i in prog[1]})
    if k == "peek":
        return psr._match(TT[prog[1]], advance=False)
    if k == "pair":
        return psr._match_pair(TT[prog[1]], TT[prog[2]])
    if k == "anyTok":
        if psr._curr:
            psr._advance()
            return psr._prev
        return None
    if k == "advance":
        return psr._advance()
    if k == "fail":
        return psr.raise_error("expected something")
    if k == "andThen":
        x = interp(psr, prog[1], fuel, TT)
        if not x:
            return None
        return interp(psr, prog[2], fuel, TT)
    if k == "both":
        interp(psr, prog[1], fuel, TT)
        interp(psr, prog[2], fuel, TT)
        return True
    if k == "orElse":
        return interp(psr, prog[1], fuel, TT) or interp(psr, prog[2], fuel, TT)
    if k == "attempt":
        index = psr._index
        x = interp(psr, prog[1], fuel, TT)
        if not x:
            psr._retreat(index)
        return x
    if k == "tryParse":
        return psr._try_parse(lambda: interp(psr, prog[1], fuel, TT), retreat=prog[2])
    if k == "csv":
        return psr._parse_csv(lambda: interp(psr, prog[1], fuel, TT), sep=TT[prog[2]])
    if k == "wrapped":
        return psr._parse_wrapped(lambda: interp(psr, prog[1], fuel, TT), optional=prog[2])
    if k == "textSeq":
        return psr._match_text_seq(*[TOKMAP[i] for i in prog[1]], advance=prog[2])
    if k == "restOfChunk":
        while psr._curr:
            psr._advance()
        return True
    if k == "ifTok":
        if psr._match_set({TT[i] for i in prog[1]}):
            return interp(psr, prog[2], fuel, TT)
        return interp(psr, prog[3], fuel, TT)
    if k == "tableLoop":
        keys = {TT[i] for i in prog[1]}
        acc = False
        n = 0
        while True:
            if n >= fuel:
                raise Diverged()
            n += 1
            if psr._match_set(keys, advance=prog[3]):
                x = interp(psr, prog[2], fuel, TT)
                if not x:
                    return acc
                acc = True
            else:
                break
        return acc
    if k == "many":
        items = []
        n = 0
        while True:
            if n >= fuel:
                raise Diverged()
            n += 1
            x = interp(psr, prog[1], fuel, TT)
            if not x:
                break
            items.append(x)
        return items
    raise HarnessError(f"bad program {prog}")


def run_real_prog(prog, toks_ids, level, fuel):
    _, _, parser, tokens, errors, *_ = sg()
    TT = [tokens.TokenType[n] for n in TOKMAP]
    toks = [tokens.Token(TT[i], text=TOKMAP[i].lower(), line=1, col=j + 1, start=j, end=j) for j, i in enumerate(toks_ids)]
    psr = parser.Parser(error_level=errors.ErrorLevel[level])
    psr.reset()
    psr.sql = " " * (len(toks) + 1)
    psr._chunks = [toks]
    psr._chunk_index = 0
    psr._advance_chunk()
    MON.install()
    MON.reset()
    MON.p_cap = 20000
    MON.w_cap = 60000
    try:
        try:
            v = with_watchdog(lambda: interp(psr, prog, fuel, TT), 5.0)
            out = "ret none" if v is None else ("ret truthy" if v else "ret falsy")
        except errors.ParseError:
            out = "raised"
        except Diverged:
            out = "diverged"
        except (StepBudget, _Watchdog):
            out = "diverged"
        except Exception as e:  # noqa
            out = "internal"
        steps = MON.p_steps
    finally:
        MON.reset()
    if out == "diverged":
        return "diverged"
    return f"{out} idx={psr._index} steps={steps} errs={len(psr.errors)} lvl={psr.error_level.name}"


def correspond_programs(chk: Check) -> list:
    rng = chk.rng
    n = chk.pick(2500, 40000)
    cases, lines, expect = [], [], []
    # hand-written boundary programs first
    fixed = [
        (["csv", ["tok", 3], 2], [3, 2, 3, 2], "RAISE"),
        (["orElse", ["csv", ["fail"], 7], ["pair", 9, 7]], [7, 2], "IGNORE"),
        (["wrapped", ["csv", ["tok", 3], 2], False], [0, 3, 2, 3], "WARN"),
        (["wrapped", ["tok", 3], False], [3], "IMMEDIATE"),
        (["tryParse", ["andThen", ["tok", 3], ["fail"]], False], [3, 3], "RAISE"),
        (["tryParse", ["tok", 3], True], [3, 3], "IGNORE"),
        (["both", ["tok", 3], ["advance"]], [3], "RAISE"),
        (["tryParse", ["both", ["tok", 3], ["both", ["advance"], ["advance"]]], False], [3, 4], "WARN"),
        (["many", ["eps"]], [3], "RAISE"),
        (["attempt", ["andThen", ["tok", 3], ["tok", 4]]], [3, 3], "RAISE"),
        (["textSeq", [3, 4, 5], True], [3, 4, 6], "RAISE"),
        (["textSeq", [3, 4], False], [3, 4, 6], "WARN"),
        (["tableLoop", [7], ["tok", 3], True], [7, 3, 7, 3, 7], "RAISE"),
        (["tableLoop", [7], ["attempt", ["andThen", ["tok", 7], ["tok", 3]]], False], [7, 3, 7, 4], "IGNORE"),
        (["tableLoop", [7], ["eps"], False], [7, 3], "RAISE"),
        (["ifTok", [5], ["tok", 3], ["ifTok", [6], ["restOfChunk"], ["tok", 3]]], [6, 1, 1, 1], "RAISE"),
        (["both", ["restOfChunk"], ["restOfChunk"]], [3, 3], "IMMEDIATE"),
        (["andThen", ["pair", 3, 4], ["anyTok"]], [3, 4], "RAISE"),
        (["csv", ["tryParse", ["andThen", ["tok", 3], ["andThen", ["tok", 3], ["fail"]]], False], 2], [3, 3, 2, 3], "WARN"),
    ]
    for prog, toks, lvl in fixed:
        cases.append((prog, toks, lvl, len(toks) + 1))
    for _ in range(n):
        wf = rng.random() < 0.6
        prog = rand_prog(rng, 0, wf)
        m = rng.choice([0, 1, 2, 3, 4, 5, 6, 8, 10, 14])
        weights = [3, 3, 4, 4, 2, 1, 1, 1, 1, 1]
        toks = rng.choices(range(len(TOKMAP)), weights=weights, k=m)
        lvl = rng.choice(LEVELS)
        fuel = len(toks) + 1   # the real _parse_csv has no cap; with size+1 the model's never runs out (csv_terminates)
        cases.append((prog, toks, lvl, fuel))
    kinds = {}
    for prog, toks, lvl, fuel in cases:
        lines.append(json.dumps({"op": "prog", "prog": prog, "toks": toks, "lvl": lvl, "fuel": fuel}))
        r = run_real_prog(prog, toks, lvl, fuel)
        expect.append(r)
        kk = r.split(" idx")[0]
        kinds[kk] = kinds.get(kk, 0) + 1
        chk.count("prog-outcome:" + kk)
        chk.case(("prog", prog, toks, lvl, fuel), nontrivial=len(json.dumps(prog)) > 20,
                 sample={"prog": prog, "toks": toks, "lvl": lvl, "real": r} if len(chk.samples) < 3 else None)
    got = chk.driver("C05", lines)
    chk.corr_cases += len(cases)
    bad = []
    for g, e, c in zip(got, expect, cases):
        if g != e:
            chk.correspondence_broken("combinator program on the real Parser primitives",
                                      {"prog": c[0], "toks": c[1], "lvl": c[2], "fuel": c[3], "model": g, "impl": e})
            bad.append(c)
    return bad


# =========================================================================================== correspondence (B), (C)
def token_type_ids():
    _, _, _, tokens, *_ = sg()
    names = [t.name for t in tokens.TokenType]
    order = ["L_PAREN", "R_PAREN", "COMMA"] + [n for n in names if n not in ("L_PAREN", "R_PAREN", "COMMA")]
    return {n: i for i, n in enumerate(order)}


def correspond_activations(chk: Check) -> list:
    """real parses with every _try_parse/_parse_csv/_parse_wrapped activation recorded, replayed through the model"""
    _, exp, parser, tokens, errors, generator, tc, Dialect, _ = sg()
    rng = chk.rng
    gen = Gen(rng)
    ids = token_type_ids()
    dialects = all_dialects()
    n_inputs = chk.pick(400, 4000)
    lines, expect, meta = [], [], []
    bad_inputs = []
    contract_bad = 0
    MON.install()
    n_acts = {"try": 0, "csv": 0, "wrapped": 0}
    scan_lines, scan_expect, scan_meta = [], [], []
    rewinds_seen = {}
    t_start = time.time()
    sweep: list = []
    for ii in range(n_inputs):
        d = rng.choice(dialects)
        lvl = rng.choice(LEVELS)
        kind, sql = gen_input(rng, gen, dialect_keywords(d), table_keywords(d)["all"])
        if time.time() - t_start > chk.pick(45, 600) or chk.corr_disagreements >= 5:
            chk.note(f"activation monitoring stopped early after {ii} inputs")
            break
        if not sweep:
            # list-shaped constructs with a constraint keyword in element position (the `_parse_csv` element parsers that
            # half-consume and give back): all of them, first
            sweep.extend(t.replace("{R}", w) for t in ELEMENT_TEMPLATES[:12]
                         for w in ["NOT", "NULL", "DEFAULT", "PRIMARY", "CHECK", "UNIQUE", "REFERENCES", "CONSTRAINT", ",", ")", "AS", "COLLATE"])
        if ii < len(sweep):
            sql, d = sweep[ii], rng.choice(["", "", d])
        if ii % 9 == 0:
            sql = rng.choice(["SELECT 12abc, 1e, 3x FROM t", "SELECT $tag$ body $tag$, $1", "SELECT $a b$ x", "SELECT $9$", "SELECT $x", "SELECT 1_0f + 2d",
                              "SELECT $$ a $$ || $t$b$t$", "$", "$a", "$a$", "1a", "1a 2b$c$", "SELECT 0xfg, 0b12, 1.e5x"]) + (" " + sql if rng.random() < 0.5 else "")
        dd = Dialect.get_or_raise(d or None)
        # ---- (C) tokenizer trace
        MON.reset()
        MON.ttrace = []
        MON.t_cap = 50 * (len(sql) + 2)
        toks = None
        try:
            toks = with_watchdog(lambda: dd.tokenize(sql))
        except errors.SqlglotError:
            pass
        except (StepBudget, _Watchdog):
            pass
        except Exception:  # noqa
            pass
        trace = MON.ttrace
        MON.ttrace = None
        MON.reset()
        passes = []
        for rec in trace:
            if rec[0] == "<tokenize>":
                passes.append({"size": rec[1], "iters": [], "last": 0, "ok": True})
                continue
            if not passes:
                passes.append({"size": len(sql), "iters": [], "last": 0, "ok": True})
            ps = passes[-1]
            caller, i, before, after, start = rec
            iters = ps["iters"]
            if caller == "_scan":
                blanks = start - before if start > before else 0
                if before != ps["last"] and iters:
                    # forward assignment between two _advance calls (find fast path of _extract_string)
                    iters[-1]["m"].append(before - ps["last"])
                it = {"c": before, "b": blanks, "m": []}
                iters.append(it)
                exp_after = before + (blanks if blanks > 0 else 1)
                if after != exp_after:
                    it["m"].append(after - exp_after)
                ps["last"] = after
                continue
            if not iters:
                ps["ok"] = False
                continue
            if before != ps["last"]:
                iters[-1]["m"].append(before - ps["last"])
            iters[-1]["m"].append(i)
            if i < 0:
                rewinds_seen[caller] = rewinds_seen.get(caller, 0) + 1
            if after != before + i:
                iters[-1]["m"].append(after - before - i)   # alnum fast loop
            ps["last"] = after
        for ps in passes:
            if ps["ok"] and ps["iters"]:
                scan_lines.append(json.dumps({"op": "scan", "size": ps["size"], "start": ps["iters"][0]["c"],
                                              "iters": [[it["b"], it["m"]] for it in ps["iters"]]}))
                # what really happened: final _current and number of iterations
                scan_expect.append(f"ok current={ps['last']} iters={len(ps['iters'])}")
                scan_meta.append((d, sql))
        # ---- (B) parser activations
        if toks is None:
            continue
        MON.reset()
        MON.acts = []
        MON._tokens_by_id = {}
        MON.p_cap = 4000 * (len(toks) + 2)
        MON.w_cap = 20000 * (len(toks) + 2)
        p = dd.parser(error_level=errors.ErrorLevel[lvl])
        outcome = "ok"
        try:
            with_watchdog(lambda: p.parse(toks, sql))
        except errors.SqlglotError:
            outcome = "sqlglot"
        except (StepBudget, _Watchdog):
            outcome = "budget"
        except RecursionError:
            outcome = "recursion"
        except Exception:  # noqa
            outcome = "internal"
        for b in MON.table_breaches[:2]:
            chk.correspondence_broken("dispatch-table entry returned a truthy result without progress (hypothesis of table_loop_terminates)",
                                      {"sql": sql, "dialect": d, "level": lvl, **b})
            bad_inputs.append((sql, d, lvl))
        acts = MON.acts
        tokmap = MON._tokens_by_id
        MON.acts = None
        MON._tokens_by_id = {}
        MON.reset()
        chk.count("parse-outcome:" + outcome)
        chk.case(("act", d, lvl, sql), nontrivial=len(acts) > 0,
                 sample={"dialect": d, "level": lvl, "sql": sql, "activations": len(acts)} if ii % 97 == 0 else None)
        cur_tok_id = None
        for a in acts:
            n_acts[a["kind"]] += 1
            tl = tokmap.get(a["toks"], [])
            size = len(tl)
            # ---- contracts (hypotheses of the *_any_method theorems), checked directly on the real activation
            problems = []
            if a["out"] not in ("internal", "budget") and not (a["i0"] <= size and a["i1"] <= size):
                problems.append("cursor out of range")
            if a["kind"] == "try":
                if (a["out"] in ("none", "falsy") or a["rt"]) and a["i1"] != a["i0"]:
                    problems.append("_try_parse returned a falsy value / retreat=True with the cursor moved")
                if a["lvl1"] != a["lvl0"]:
                    problems.append("_try_parse did not restore error_level")
                if a["out"] == "raised":
                    problems.append("_try_parse raised ParseError")
            for e in a["inner"]:
                if e["out"] not in ("internal", "raised") and e["i1"] < e["i0"]:
                    problems.append("element / body method moved the cursor backwards")
            if a["kind"] != "try" and a["out"] not in ("internal", "raised", "budget") and a["i1"] < a["i0"]:
                problems.append("cursor moved backwards")
            if problems:
                contract_bad += 1
                chk.correspondence_broken("cursor contract on the real parser: " + "; ".join(sorted(set(problems))),
                                          {"sql": sql, "dialect": d, "level": lvl, "activation": {k: v for k, v in a.items() if k != "toks"}})
                bad_inputs.append((sql, d, lvl))
                continue
            if a["out"] in ("internal", "budget") or any(e["out"] == "internal" for e in a["inner"]):
                continue  # leaks / exhausted budgets are the search oracle's business; the model glue is compared on the rest
            # ---- replay through the model glue
            if cur_tok_id != a["toks"]:
                cur_tok_id = a["toks"]
                lines.append(json.dumps({"op": "tokens", "toks": [ids[t.token_type.name] for t in tl]}))
                expect.append("ok")
                meta.append(None)
            rec = {"op": "act", "kind": a["kind"], "i0": a["i0"], "lvl": a["lvl0"],
                   "inner": [[e["i0"], e["out"], e["i1"], e["steps"], e["lvl"], e["errs"]] for e in a["inner"]]}
            if a["kind"] == "try":
                rec["rt"] = a["rt"]
            elif a["kind"] == "csv":
                rec["sep"] = ids[a["sep"]]
            else:
                rec["optional"] = a["optional"]
            lines.append(json.dumps(rec))
            out = {"none": "ret none", "falsy": "ret falsy", "truthy": "ret truthy", "raised": "raised"}[a["out"]]
            # a csv result is a list: [] is falsy, never None
            expect.append(f"{out} idx={a['i1']} steps={a['steps']} errs={a['errs']} lvl={a['lvl1']}")
            meta.append((sql, d, lvl, a))
    for k, v in n_acts.items():
        chk.count("activation:" + k, v)
    for k, v in rewinds_seen.items():
        chk.count("tokenizer-rewind-in:" + k, v)
    chk.cov["activations_replayed"] = sum(1 for m in meta if m)
    chk.cov["contract_violations_on_real_activations"] = contract_bad
    chk.cov["scan_traces_replayed"] = len(scan_lines)
    # rewinds must come from the sites the translator found
    known_fns = {f for f, _ in getattr(chk, "_c05_rewind_sites", set())}
    for fn in rewinds_seen:
        if fn not in known_fns:
            chk.broken.append({"kind": "translator", "what": f"C05: observed a negative TokenizerCore._advance from {fn}, which the ast translator did not list"})
    got = chk.driver("C05", lines + scan_lines) if (lines or scan_lines) else []
    chk.corr_cases += len(lines) + len(scan_lines)
    for g, e, m in zip(got[: len(lines)], expect, meta):
        if g != e and m is not None:
            sql, d, lvl, a = m
            chk.correspondence_broken(f"{a['kind']} activation on the real parser vs model glue",
                                      {"sql": sql, "dialect": d, "level": lvl, "activation": {k: v for k, v in a.items() if k != "toks"},
                                       "model": g, "impl": e})
            bad_inputs.append((sql, d, lvl))
    for g, e, m in zip(got[len(lines):], scan_expect, scan_meta):
        if g != e:
            chk.correspondence_broken("TokenizerCore._scan position trace vs progress model",
                                      {"sql": m[1], "dialect": m[0], "model": g, "impl": e})
            bad_inputs.append((m[1], m[0], "RAISE"))
    return bad_inputs


# =========================================================================================== search
def search(chk: Check, hints: list, budget_s: float) -> None:
    rng = chk.rng
    gen = Gen(rng)
    dialects = all_dialects()
    t0 = time.time()
    tried = failing = 0
    breaches: dict = {}
    maxr = {"parse_lin": 0.0, "parse_quad": 0.0, "tok": 0.0, "gen": 0.0, "work": 0.0}
    corpus = []
    cdir = os.path.join(os.path.dirname(os.path.dirname(os.path.dirname(os.path.abspath(__file__)))), "corpus", "C05")
    if os.path.isdir(cdir):
        for fn in sorted(os.listdir(cdir)):
            if fn.endswith(".json"):
                try:
                    rec = json.load(open(os.path.join(cdir, fn)))
                    for r in rec if isinstance(rec, list) else [rec]:
                        corpus.append((r["sql"], r.get("dialect", ""), r.get("level", "IGNORE"), r.get("write")))
                except Exception as e:  # noqa
                    raise HarnessError(f"bad corpus file {fn}: {e}")

    def one(sql, d, lvl, write, kind):
        nonlocal tried, failing
        tried += 1
        if os.environ.get("C05_DEBUG_DUMP"):
            print("one", tried, round(time.time() - t0, 1), repr(sql)[:80], d, lvl, flush=True)
        v = run_pipeline(sql, d, lvl, write)
        n = v["n_tokens"]
        st = v["steps"]
        if "parse" in st:
            maxr["parse_lin"] = max(maxr["parse_lin"], st["parse"] / (n + 1))
            maxr["parse_quad"] = max(maxr["parse_quad"], st["parse"] / ((n + 1) ** 2))
        if "work" in st:
            maxr["work"] = max(maxr["work"], st["work"] / ((n + 1) ** 2))
        if "tokenize" in st:
            maxr["tok"] = max(maxr["tok"], st["tokenize"] / (len(sql) + 1))
        if "generate" in st and v.get("nodes"):
            maxr["gen"] = max(maxr["gen"], st["generate"] / (v["nodes"] + 1))
        chk.count("input:" + kind)
        chk.count("level:" + lvl)
        chk.count("verdict:" + ("ok" if v["ok"] else f"{v['phase']}-{v['exc']}"))
        chk.case(("s", sql, d, lvl, write), nontrivial=n > 2)
        for b in v.get("table_breaches") or []:
            breaches[(b["table"], b["key"], b["parser"])] = breaches.get((b["table"], b["key"], b["parser"]), 0) + 1
            if breaches[(b["table"], b["key"], b["parser"])] == 1:
                chk.correspondence_broken("dispatch-table entry returned a truthy result without progress (hypothesis of table_loop_terminates)",
                                          {"sql": sql, "dialect": d, "level": lvl, **b})
        if not v["ok"]:
            failing += 1
            consider(chk, sql, d, lvl, write, v)

    for sql, d, lvl in hints[:40]:
        for l2 in LEVELS:
            one(sql, d, l2, None, "hint")
    for sql, d, lvl, write in corpus:
        one(sql, d, lvl, write, "corpus")
    # deterministic sweep: every constraint / property keyword in element position of column lists and schema definitions
    for d in ["", rng.choice(dialects)]:
        for i, sql in enumerate(element_sweep(d)):
            if len(chk.violations) >= 8:
                break
            one(sql, d, LEVELS[1 + (i % 3)], None, "element-sweep")
    # tokenizer-only phase: adversarial delimiter / keyword-case stream and length stress, per dialect, from the live tables
    n_tok = 0
    stress_dialects = dialects if not chk.quick else sorted({"", "dune"} & set(dialects)) + rng.sample(dialects, min(3, len(dialects)))
    for d in dialects:
        stream = list(tokenizer_stream(d, rng, chk.quick))
        if d in stress_dialects:
            stream += list(tokenizer_stress(d, chk.pick(2000, 3000)))
        for sql in stream:
            n_tok += 1
            if tokenize_only(sql, d) is not None and len(chk.violations) < 8:
                one(sql, d, "IMMEDIATE", None, "tokenizer-stream")
    chk.cov["tokenizer_stream_inputs"] = n_tok
    chk.count("input:tokenizer-only", n_tok)
    # deterministic sweep: every key that a dialect adds to / overrides in a loop-driving dispatch table (and, for the base
    # parser, every such key) after each left context, followed by each "wrong" continuation
    n_sweep = 0
    for d in dialects:
        tkw = table_keywords(d)
        words = tkw["loop"] if not d else tkw["specific"]
        if not chk.quick:
            words = tkw["all"] if not d else sorted(set(tkw["specific"]) | set(rng.sample(tkw["all"], min(25, len(tkw["all"])))))
        shape = (None, None) if not chk.quick else ((5, 6) if not d else (None, 7))
        for i, sql in enumerate(keyword_sweep(d, words, *shape)):
            if len(chk.violations) >= 8 or time.time() - t0 > budget_s:
                break
            one(sql, d, LEVELS[i % 4], None, "keyword-sweep")
            n_sweep += 1
    chk.cov["keyword_sweep_inputs"] = n_sweep
    # a fixed number of inputs per tier (deterministic for a given VERIF_SEED), with the time budget as a safety cap
    n_inputs = int(os.environ.get("C05_INPUTS", "0")) or (chk.pick(1800, 70000) * (2 if chk.broken else 1))
    for _ in range(n_inputs):
        if time.time() - t0 > budget_s or len(chk.violations) >= int(os.environ.get("C05_MAX_VIOLATIONS", "8")):
            break
        d = rng.choice(dialects)
        kind, sql = gen_input(rng, gen, dialect_keywords(d), table_keywords(d)["all"])
        write = rng.choice(dialects) if rng.random() < 0.3 else None
        lv = LEVELS if rng.random() < 0.25 else [rng.choice(LEVELS)]
        for lvl in lv:
            one(sql, d, lvl, write, kind)
    chk.cov["calibration"] = {"K_PARSE": K_PARSE, "K_TOKENIZE": K_TOKENIZE, "K_GENERATE": K_GENERATE,
                              "max_parser_steps_per_token": round(maxr["parse_lin"], 2),
                              "max_parser_steps_per_token_squared": round(maxr["parse_quad"], 3),
                              "K_WORK": K_WORK, "max_parser_work_per_token_squared": round(maxr["work"], 2),
                              "max_tokenizer_steps_per_char": round(maxr["tok"], 2),
                              "max_generator_calls_per_node": round(maxr["gen"], 2)}
    chk.search_info = {"ran": True, "budget_s": budget_s, "inputs": tried, "failing": failing,
                       "oracle": "tokenize/parse/generate raise only sqlglot.errors.SqlglotError and stay within "
                                 f"{K_PARSE}(n+1)^2 Parser._advance calls, {K_WORK}(n+1)^2+{WORK_CONST} parser work units, {K_TOKENIZE}(len+1) TokenizerCore._advance calls, "
                                 f"{K_GENERATE}(nodes+1) Generator.sql calls; {WATCHDOG_S}s watchdog"}


# =========================================================================================== run / replay
def run(chk: Check) -> None:
    chk.trusted.append("C05: hand-written models Model/Cursor.lean (Parser cursor primitives and glue) and Model/ScanProgress.lean "
                       "(TokenizerCore._scan position arithmetic); the harness-side interpreter of combinator programs over the real "
                       "Parser primitives; the monkeypatched step counters (Parser._advance, TokenizerCore._advance, Generator.sql)")
    chk.assumptions += [
        "PARTIAL: termination / no-leak is PROVED only for the modelled cursor glue and for programs written in the modelled idioms; "
        "the ~200 real _parse_* methods are covered by run-time contract monitoring (Sound/Restoring on every _try_parse, _parse_csv, "
        "_parse_wrapped activation) and by the step-bounded search oracle, not by proof",
        "the generator is covered by the search oracle only (Generator.sql call budget + exception family)",
        "a tree returned under IGNORE counts as 'returned with recorded errors' when any node fails Expression.error_messages() "
        "(what every other level would have recorded)",
        "RecursionError on pathologically nested input is not counted as a leak (generators produce depth ≤ 6)",
    ]
    chk.write_generated(translate(chk))
    proved = chk.prove(MODULES, "Properties.C05", THEOREMS)
    hints = []
    load_dialects(chk)
    if os.environ.get("C05_DEBUG_DUMP"):
        import faulthandler
        faulthandler.dump_traceback_later(float(os.environ["C05_DEBUG_DUMP"]), exit=True)
    try:
        try:
            correspond_programs(chk)
            chk.cov["t_programs_s"] = round(chk.elapsed(), 1)
            if os.environ.get("C05_DEBUG_DUMP"):
                print("after A", chk.elapsed(), flush=True)
            hints = correspond_activations(chk)
            chk.cov["t_activations_s"] = round(chk.elapsed(), 1)
            if os.environ.get("C05_DEBUG_DUMP"):
                print("after B", chk.elapsed(), flush=True)
        except HarnessError as e:
            if proved:
                raise
            chk.note(f"model driver unavailable ({e}); continuing with the search on the real code")
        budget = chk.pick(60, 600)
        if chk.broken:
            budget *= 2
        search(chk, hints, budget)
    finally:
        MON.remove()


def replay(path: str) -> int:
    sys.path.insert(0, REPO)
    rec = json.load(open(path))
    r = rec.get("replay")
    if not r or "sql" not in r:
        print(json.dumps(rec, indent=1)[:3000])
        return 1
    v = run_pipeline(r["sql"], r["dialect"], r["level"], r.get("write"))
    MON.remove()
    if v["ok"]:
        print("replay: holds")
        return 0
    print(f"replay: VIOLATES: {v['phase']} leaked/exceeded {v['exc']} in {v['frame']}: {v['msg']}")
    return 1
