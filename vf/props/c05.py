"""C05 — tokenize, parse and generate terminate with a result or a sqlglot error (DESIGN.md §4 C05; PARTIAL by design).

translate : ast facts of sqlglot/tokenizer_core.py (every `_advance` call site with a negative / not syntactically
            non-negative argument and its enclosing guards, every write to `self._current`, the `_scan` loop test and
            offset expression) and of sqlglot/parser.py (`_retreat`, the `finally:` of `_try_parse`, the loop test of
            `_parse_csv`, the body of `_parse_wrapped`) -> Generated/C05.lean, pinned by `decide` in Properties/C05.lean
prove     : Properties/C05.lean (cursor discipline: restoration, loop termination, polynomial step bound, no
            IndexError; `_scan` progress with rewinds; linear iteration bound)
correspond: (A) random combinator programs interpreted with the REAL Parser primitives (`_advance`, `_retreat`, `_match`,
                `_match_set`, `_match_pair`, `raise_error`, `_try_parse`, `_parse_csv`, `_parse_wrapped`) on random token
                lists x 4 error levels vs the Lean `run` (outcome, index, step count, recorded errors, error level)
            (B) real parses of generated SQL with every `_try_parse` / `_parse_csv` / `_parse_wrapped` activation
                recorded (index before/after, result, inner results) and replayed through the model glue; the
                Sound / Restoring contracts (hypotheses of the `…_any_method` theorems) are checked on each activation
            (C) the `_current` trace of the real tokenizer (every `_advance`, every direct assignment) replayed through
                the `_scan` progress model
search    : the property's own statement on the real code: tokenize / parse / generate (transpile) of grammar-valid
            statements, token-level mutations, truncations, keyword soups and random Unicode x all dialects x 4 error
            levels finish within K·(n+1)² parser steps (harness-side counter on Parser._advance, SIGALRM backstop) and
            raise nothing outside the sqlglot.errors.SqlglotError family
"""

from __future__ import annotations

import ast
import json
import os
import signal
import sys
import time
import traceback

from vf.core import Check, REPO, HarnessError, lean_str

MODULES = ["Model.Cursor", "Model.ScanProgress", "Model.FindParser", "Model.FormatScan", "Proofs.Cursor", "Proofs.ScanProgress", "Proofs.FindParser", "Proofs.FormatScan", "Generated.C05", "Properties.C05"]
_P = "SqlglotModel.Properties.C05."
THEOREMS = [_P + n for n in [
    "comb_restores", "comb_restores_needs_guard",
    "try_parse_restores_any_method", "try_parse_level_restored", "try_parse_swallows_parse_error",
    "csv_terminates", "csv_needs_monotone_element",
    "many_terminates", "many_needs_consuming",
    "run_total", "run_steps_bound", "run_steps_polynomial", "run_outcome_not_internal", "run_cursor_in_range",
    "run_outcome_needs_wf", "parse_top_outcome",
    "match_text_seq_restores", "match_text_seq_peek_still",
    "table_loop_terminates", "table_loop_needs_progress", "table_loop_peek_needs_consuming",
    "wrapped_id_vars_terminates", "wrapped_csv_wf", "command_fallback_consumes_chunk", "statement_command_fallback",
    "parse_batch_terminates", "Scan.lex_progress", "Scan.forward_only_disciplined",
    "Scan.scan_progress", "Scan.scan_iterations_linear", "Scan.suffix_rewind_disciplined", "Scan.heredoc_rewind_disciplined",
    "Scan.rewind_needs_discipline",
    "Scan.tokenizer_rewind_sites_known", "Scan.tokenizer_guarded_sites_guarded", "Scan.tokenizer_current_writes_known",
    "Scan.tokenizer_scan_loop_shape", "Scan.parser_glue_shape",
    "Scan.tokenizer_funnel_catches_exception", "Scan.tokenize_outcome", "Scan.tokenize_outcome_current_source",
    "Scan.tokenize_funnel_needs_broad_catch",
    "peek_guarded_no_index_error", "peek_off_by_one_guard_index_error", "parser_forward_lookaheads_guarded",
    "Find.split_join_round_trip", "Find.find_parser_keys_agree", "Find.find_parser_no_key_error", "Find.find_parser_whitespace_split_key_error",
    "Find.find_parser_key_functions_known",
    "option_loop_terminates", "option_loop_relying_on_raise_diverges", "option_loop_relying_on_raise_immediate",
    "parser_loops_progress_or_break",
    "generator_unguarded_optional_accesses_known",
    "Fmt.format_walk_guarded_safe", "Fmt.format_walk_find_index_error", "Fmt.builder_string_lookaheads_guarded",
    "Fmt.index_first_truthy_guard_safe", "Fmt.index_first_not_none_guard_index_error", "Fmt.local_list_indexes_guarded",
]]

# step budgets for the search oracle, calibrated on the clean tree with ≥ 10x margin (cov["calibration"] in the evidence
# reports the maxima of every run).  Observed maxima over ~150k pipeline runs (terminating inputs): Parser._advance calls
# ≤ 5.8·(n+1) and ≤ 2.0·(n+1)² (n = number of tokens; the quadratic ratio peaks at n = 1), parser work units
# ≤ 67.5·(n+1) (135 units at n = 1), TokenizerCore._advance calls ≤ 1.9·(len+1), Generator.sql calls ≤ 16·(nodes+1).
K_PARSE = 40          # Parser._advance calls ≤ K_PARSE · (n+1)²
K_TOKENIZE = 20       # TokenizerCore._advance calls ≤ K_TOKENIZE · (len(sql)+1)
K_GENERATE = 400      # Generator.sql activations ≤ K_GENERATE · (nodes+1)
K_WORK = 60           # parser _match/_match_set/expression/raise_error activations ≤ K_WORK · (n+1)² + WORK_CONST (catches
WORK_CONST = 3000     # loops that spin without ever calling _advance)
WATCHDOG_S = 8.0


# =========================================================================================== translate
def _src(node) -> str:
    return ast.unparse(node)


def _class_funcs(tree, cls_name):
    for cls in tree.body:
        if isinstance(cls, ast.ClassDef) and cls.name == cls_name:
            return {n.name: n for n in cls.body if isinstance(n, ast.FunctionDef)}
    return {}


def _walk_guards(fn):
    """yields (node, guards) for every node in fn with the chain of enclosing if/while tests"""
    def rec(stmts, guards):
        for st in stmts:
            if isinstance(st, ast.If):
                yield from expr_nodes(st.test, guards)
                yield from rec(st.body, guards + [_src(st.test)])
                yield from rec(st.orelse, guards + ["not (" + _src(st.test) + ")"])
            elif isinstance(st, ast.While):
                yield from expr_nodes(st.test, guards)
                yield from rec(st.body, guards + ["while " + _src(st.test)])
                yield from rec(st.orelse, guards)
            elif isinstance(st, ast.For):
                yield from rec(st.body, guards + ["for"])
            elif isinstance(st, ast.Try):
                yield from rec(st.body, guards)
                for h in st.handlers:
                    yield from rec(h.body, guards + ["except"])
                yield from rec(st.orelse, guards)
                yield from rec(st.finalbody, guards + ["finally"])
            elif isinstance(st, (ast.FunctionDef, ast.ClassDef)):
                continue
            else:
                yield st, guards
                yield from expr_nodes(st, guards)

    def expr_nodes(node, guards):
        for n in ast.walk(node):
            if isinstance(n, (ast.Call,)):
                yield n, guards

    yield from rec(fn.body, [])


def _is_self_attr(node, attr):
    return isinstance(node, ast.Attribute) and node.attr == attr and isinstance(node.value, ast.Name) and node.value.id == "self"


def _arg_kind(call: ast.Call):
    """'plain' (syntactically ≥ 0), 'rewind' (syntactically negative) or 'guarded' (needs its guards)"""
    if not call.args:
        return "plain", "1"
    a = call.args[0]
    s = _src(a)
    if isinstance(a, ast.Constant) and isinstance(a.value, int):
        return ("plain" if a.value >= 0 else "rewind"), s
    if isinstance(a, ast.UnaryOp) and isinstance(a.op, ast.USub):
        return "rewind", s
    if isinstance(a, ast.Call) and isinstance(a.func, ast.Name) and a.func.id == "len":
        return "plain", s
    return "guarded", s


def tokenizer_facts(chk: Check):
    path = os.path.join(REPO, "sqlglot", "tokenizer_core.py")
    tree = ast.parse(open(path, encoding="utf-8").read())
    funcs = _class_funcs(tree, "TokenizerCore")
    if "_scan" not in funcs or "_advance" not in funcs:
        chk.broken.append({"kind": "translator", "what": "C05 translator: structure changed: TokenizerCore._scan/_advance not found"})
        return {"rewind": [], "guarded": [], "plain": 0, "writes": [], "while": "?", "offset": "?"}
    rewind, guarded, plain, writes = [], [], 0, []
    for name, fn in sorted(funcs.items()):
        seen = set()
        for node, guards in _walk_guards(fn):
            if isinstance(node, ast.Call) and _is_self_attr(node.func, "_advance") and id(node) not in seen:
                seen.add(id(node))
                kind, s = _arg_kind(node)
                if kind == "plain":
                    plain += 1
                elif kind == "rewind":
                    rewind.append((name, s, guards))
                else:
                    guarded.append((name, s, guards))
            if isinstance(node, ast.Assign):
                for tg in node.targets:
                    if _is_self_attr(tg, "_current"):
                        writes.append((name, "= " + _src(node.value)))
            if isinstance(node, ast.AugAssign) and _is_self_attr(node.target, "_current"):
                writes.append((name, type(node.op).__name__ + "= " + _src(node.value)))
    # the error funnel of TokenizerCore.tokenize: which exception types the `try: self._scan()` catches and what it raises
    funnel = {"handlers": [], "raises": [], "guards_scan": False}
    if "tokenize" in funcs:
        for tr in [n for n in funcs["tokenize"].body if isinstance(n, ast.Try)]:
            funnel["guards_scan"] = any(isinstance(c, ast.Call) and _is_self_attr(c.func, "_scan") for st in tr.body for c in ast.walk(st))
            for h in tr.handlers:
                if h.type is None:
                    funnel["handlers"].append("BaseException")
                elif isinstance(h.type, ast.Tuple):
                    funnel["handlers"] += [_src(e) for e in h.type.elts]
                else:
                    funnel["handlers"].append(_src(h.type))
                for st in h.body:
                    for r in ast.walk(st):
                        if isinstance(r, ast.Raise) and r.exc is not None:
                            funnel["raises"].append(_src(r.exc.func) if isinstance(r.exc, ast.Call) else _src(r.exc))
    else:
        chk.broken.append({"kind": "translator", "what": "C05 translator: structure changed: TokenizerCore.tokenize not found"})
    scan = funcs["_scan"]
    wh = [n for n in scan.body if isinstance(n, ast.While)]
    while_test = _src(wh[0].test) if wh else "?"
    offset = "?"
    if wh:
        for st in wh[0].body:
            if isinstance(st, ast.Assign) and any(isinstance(tg, ast.Name) and tg.id == "offset" for tg in st.targets):
                offset = _src(st.value)
    return {"rewind": rewind, "guarded": guarded, "plain": plain, "writes": writes, "while": while_test, "offset": offset,
            "funnel": funnel}


def lookahead_facts(chk: Check):
    """every direct index into `self._tokens[...]` (also through a local alias `tokens = self._tokens`) in parser.py and
    parsers/*.py, with the bounds guards that dominate it (enclosing if / while tests, conditional-expression tests and the
    left operands of an `and`), and every method that reads `self._next`"""
    import glob
    files = [os.path.join(REPO, "sqlglot", "parser.py")] + sorted(glob.glob(os.path.join(REPO, "sqlglot", "parsers", "*.py")))
    sites, next_users = [], []
    for path in files:
        mod = os.path.basename(path)[:-3]
        try:
            tree = ast.parse(open(path, encoding="utf-8").read())
        except Exception:  # noqa
            chk.broken.append({"kind": "translator", "what": f"C05 translator: cannot parse {path}"})
            continue
        for cls in [n for n in tree.body if isinstance(n, ast.ClassDef)]:
            for fn in [n for n in cls.body if isinstance(n, ast.FunctionDef)]:
                alias = {"__none__"}
                for n in ast.walk(fn):
                    if isinstance(n, ast.Assign) and _is_self_attr(n.value, "_tokens"):
                        alias |= {t.id for t in n.targets if isinstance(t, ast.Name)}
                if any(_is_self_attr(n, "_next") and isinstance(n.ctx, ast.Load) for n in ast.walk(fn)):
                    next_users.append(f"{mod}.{fn.name}")

                def visit(node, guards):
                    if isinstance(node, (ast.FunctionDef, ast.Lambda)) and node is not fn:
                        for ch in ast.iter_child_nodes(node):
                            visit(ch, guards)
                        return
                    if isinstance(node, (ast.If, ast.While)):
                        visit(node.test, guards)
                        for st in node.body:
                            visit(st, guards + [_src(node.test)])
                        for st in node.orelse:
                            visit(st, guards + ["not (" + _src(node.test) + ")"])
                        return
                    if isinstance(node, ast.IfExp):
                        visit(node.test, guards)
                        visit(node.body, guards + [_src(node.test)])
                        visit(node.orelse, guards + ["not (" + _src(node.test) + ")"])
                        return
                    if isinstance(node, ast.BoolOp) and isinstance(node.op, ast.And):
                        acc = list(guards)
                        for v in node.values:
                            visit(v, acc)
                            acc = acc + [_src(v)]
                        return
                    if isinstance(node, ast.Subscript) and (_is_self_attr(node.value, "_tokens") or (isinstance(node.value, ast.Name) and node.value.id in alias)):
                        idx = _src(node.slice)
                        bounds = [g for g in guards if any(w in g for w in ("_tokens_size", "len(self._tokens)", "size", "len(tokens)"))]
                        sites.append((f"{mod}.{fn.name}", idx, bounds[-1] if bounds else ""))
                    for ch in ast.iter_child_nodes(node):
                        visit(ch, guards)

                for st in fn.body:
                    visit(st, [])
    return {"sites": sites, "next_users": sorted(set(next_users))}


_MATCHERS = {"_match", "_match_set", "_match_texts", "_match_text_seq", "_match_pair", "_match_l_paren", "_match_r_paren"}


def _self_call(n, names=None):
    ok = isinstance(n, ast.Call) and isinstance(n.func, ast.Attribute) and isinstance(n.func.value, ast.Name) and n.func.value.id == "self"
    return ok and (names is None or n.func.attr in names)


def _consuming_if_truthy(e, env) -> bool:
    """does a truthy value of expression `e` imply that the cursor moved forward?  (a successful `_match*` with advance,
    `_advance_any`, a truthy result of a `self._parse_*` sub-parser — the Consuming contract the harness monitors — or a
    variable assigned from one of those)"""
    if isinstance(e, ast.NamedExpr):
        return _consuming_if_truthy(e.value, env)
    if isinstance(e, ast.Name):
        return env.get(e.id, False)
    if isinstance(e, ast.BoolOp) and isinstance(e.op, ast.And):
        return any(_consuming_if_truthy(v, env) for v in e.values)
    if isinstance(e, ast.BoolOp) and isinstance(e.op, ast.Or):
        return all(_consuming_if_truthy(v, env) for v in e.values)
    if isinstance(e, ast.Call):
        if _self_call(e, _MATCHERS):
            return not any(kw.arg == "advance" and isinstance(kw.value, ast.Constant) and kw.value.value is False for kw in e.keywords)
        if _self_call(e, {"_advance_any"}):
            return True
        if _self_call(e) and e.func.attr.startswith("_parse_"):
            return True
        if isinstance(e.func, ast.Name) and e.func.id.startswith("parse_"):
            return True      # a local closure `parse_branch()` …
    return False


def _branch_consumes(test, polarity, env) -> bool:
    if isinstance(test, ast.UnaryOp) and isinstance(test.op, ast.Not):
        return _branch_consumes(test.operand, not polarity, env)
    if isinstance(test, ast.Compare) and len(test.ops) == 1 and isinstance(test.comparators[0], ast.Constant) and test.comparators[0].value is None:
        if isinstance(test.ops[0], ast.IsNot):
            return polarity and _consuming_if_truthy(test.left, env)
        if isinstance(test.ops[0], ast.Is):
            return (not polarity) and _consuming_if_truthy(test.left, env)
    if polarity:
        return _consuming_if_truthy(test, env)
    if isinstance(test, ast.BoolOp) and isinstance(test.op, ast.Or):
        return False
    return False


def _loop_paths(stmts, consumed, raised, env, out):
    """symbolic walk of a loop body: appends (consumed, raised, exits_after_raise) for every path that CONTINUES the loop;
    returns the list of states that fall through the end of `stmts`"""
    states = [(consumed, raised)]
    for st in stmts:
        if not states:
            break
        nxt = []
        for (c, r) in states:
            if isinstance(st, (ast.Break, ast.Return, ast.Raise)):
                if r:
                    out["exit_after_raise"] = True
                continue
            if isinstance(st, ast.Continue):
                out["paths"].append((c, r))
                continue
            if isinstance(st, ast.Expr) and _self_call(st.value, {"raise_error"}):
                out["has_raise"] = True
                nxt.append((c, True))
                continue
            if isinstance(st, ast.Expr) and _self_call(st.value, {"_advance"}) and not (
                    st.value.args and isinstance(st.value.args[0], ast.UnaryOp)):
                nxt.append((True, r))
                continue
            if isinstance(st, ast.Assign) and len(st.targets) == 1 and isinstance(st.targets[0], ast.Name):
                env[st.targets[0].id] = _consuming_if_truthy(st.value, env)
                nxt.append((c, r))
                continue
            if isinstance(st, ast.Assign) and len(st.targets) == 1 and isinstance(st.targets[0], ast.Tuple) and isinstance(st.value, ast.Call):
                # `key, expression = parser(self)`: the results of a dispatched table entry (truthy ⇒ progress is the monitored
                # per-entry contract of table_loop_terminates)
                for el in st.targets[0].elts:
                    if isinstance(el, ast.Name):
                        env[el.id] = True
                nxt.append((c, r))
                continue
            if isinstance(st, ast.If):
                tb = _loop_paths(st.body, c or _branch_consumes(st.test, True, env), r, dict(env), out)
                fb = _loop_paths(st.orelse, c or _branch_consumes(st.test, False, env), r, dict(env), out) if st.orelse \
                    else [(c or _branch_consumes(st.test, False, env), r)]
                nxt += tb + fb
                continue
            if isinstance(st, ast.Try):
                nxt += _loop_paths(st.body + st.orelse + st.finalbody, c, r, env, out)
                continue
            if isinstance(st, (ast.With,)):
                nxt += _loop_paths(st.body, c, r, env, out)
                continue
            nxt.append((c, r))
        # merge
        states = sorted(set(nxt))
    return states


def parser_loop_facts(chk: Check):
    """EVERY `while` loop of parser.py and parsers/*.py with its test and a classification of how a continuing iteration
    makes progress:
      progress          every path that continues the loop consumed a token (in the loop test, by `_advance()`, or on a branch
                        guarded by a successful `_match*` / truthy sub-parser result)
      break-after-raise it calls raise_error and every such path then leaves the loop (break / return) or had consumed a token
      relies-on-raise   some path calls raise_error and then continues the loop without having consumed anything: terminates
                        only if raise_error raises (IMMEDIATE) — the C05-6 shape
      result-driven     no raise_error; whether it continues depends on sub-parser results / other state (covered by the run-time
                        Consuming monitor and the step budget, not statically)"""
    import glob
    rows = []
    for path in [os.path.join(REPO, "sqlglot", "parser.py")] + sorted(glob.glob(os.path.join(REPO, "sqlglot", "parsers", "*.py"))):
        mod = os.path.basename(path)[:-3]
        try:
            tree = ast.parse(open(path, encoding="utf-8").read())
        except Exception:  # noqa
            chk.broken.append({"kind": "translator", "what": f"C05 translator: cannot parse {path}"})
            continue
        for cls in [n for n in tree.body if isinstance(n, ast.ClassDef)]:
            for fn in [n for n in ast.walk(cls) if isinstance(n, ast.FunctionDef)]:
                stack = list(fn.body)
                loops = []
                while stack:
                    n = stack.pop(0)
                    if isinstance(n, (ast.FunctionDef, ast.Lambda)):
                        continue
                    if isinstance(n, ast.While):
                        loops.append(n)
                    stack = list(ast.iter_child_nodes(n)) + stack
                for lp in loops:
                    out = {"paths": [], "has_raise": False, "exit_after_raise": False}
                    c0 = _branch_consumes(lp.test, True, {})
                    fall = _loop_paths(lp.body, c0, False, {}, out)
                    paths = out["paths"] + fall
                    if any(r and not c for c, r in paths):
                        kind = "relies-on-raise"
                    elif out["has_raise"]:
                        kind = "break-after-raise"
                    elif paths and all(c for c, _ in paths):
                        kind = "progress"
                    elif not paths:
                        kind = "progress"      # the body never continues
                    else:
                        kind = "result-driven"
                    rows.append((f"{mod}.{fn.name}", " ".join(_src(lp.test).split())[:90], kind))
    return rows


def generator_access_facts(chk: Check):
    """generator methods (`*_sql(self, expression)` of generator.py and generators/*.py, plus module-level helpers with the
    same signature) that reach into the node without a guard: `expression.args["x"]` (KeyError / None) and attribute chains
    `expression.this.<attr>`, `expression.expression.<attr>`, `expression.args.get("x").<attr>` not dominated by a test that
    mentions the inner expression.  Each row says whether the arg is required or optional in the node class (live arg_types)."""
    import glob
    _, exp, *_ = sg()
    bykey: dict = {}

    def allsub(c):
        for sc in c.__subclasses__():
            yield sc
            yield from allsub(sc)

    base = getattr(exp, "Expr", None) or getattr(exp, "Expression")
    for c in allsub(base):
        k = getattr(c, "key", None)
        if k:
            bykey.setdefault(k, c)
    rows = []
    for path in [os.path.join(REPO, "sqlglot", "generator.py")] + sorted(glob.glob(os.path.join(REPO, "sqlglot", "generators", "*.py"))):
        mod = os.path.basename(path)[:-3]
        try:
            tree = ast.parse(open(path, encoding="utf-8").read())
        except Exception:  # noqa
            chk.broken.append({"kind": "translator", "what": f"C05 translator: cannot parse {path}"})
            continue
        fns = [(f"{mod}.{fn.name}", fn) for fn in tree.body if isinstance(fn, ast.FunctionDef)]
        for cls in [n for n in ast.walk(tree) if isinstance(n, ast.ClassDef)]:
            fns += [(f"{mod}.{cls.name}.{fn.name}", fn) for fn in cls.body if isinstance(fn, ast.FunctionDef)]
        for qual, fn in fns:
            params = [a_.arg for a_ in fn.args.args]
            if len(params) < 2 or params[0] != "self" or not fn.name.endswith("_sql"):
                continue
            ev = params[1]
            klass = bykey.get(fn.name[:-4].lstrip("_"))

            def inner_of(node):
                if isinstance(node, ast.Attribute) and isinstance(node.value, ast.Name) and node.value.id == ev and node.attr in ("this", "expression"):
                    return node.attr
                if isinstance(node, ast.Call) and isinstance(node.func, ast.Attribute) and node.func.attr == "get" \
                        and _src(node.func.value) == f"{ev}.args" and node.args and isinstance(node.args[0], ast.Constant):
                    return str(node.args[0].value)
                return None

            def kind_of(arg):
                if klass is None:
                    return "unknown-class"
                return "required" if klass.arg_types.get(arg) else "optional"

            def visit(node, guards):
                if isinstance(node, (ast.FunctionDef, ast.Lambda)) and node is not fn:
                    for ch in ast.iter_child_nodes(node):
                        visit(ch, guards)
                    return
                if isinstance(node, (ast.If, ast.While)):
                    visit(node.test, guards)
                    for st in node.body:
                        visit(st, guards + [_src(node.test)])
                    for st in node.orelse:
                        visit(st, guards + ["not (" + _src(node.test) + ")"])
                    return
                if isinstance(node, ast.IfExp):
                    visit(node.test, guards)
                    visit(node.body, guards + [_src(node.test)])
                    visit(node.orelse, guards + ["not (" + _src(node.test) + ")"])
                    return
                if isinstance(node, ast.BoolOp) and isinstance(node.op, ast.And):
                    acc = list(guards)
                    for v in node.values:
                        visit(v, acc)
                        acc = acc + [_src(v)]
                    return
                if isinstance(node, ast.Subscript) and _src(node.value) == f"{ev}.args" and isinstance(node.ctx, ast.Load) \
                        and isinstance(node.slice, ast.Constant):
                    rows.append((qual, " ".join(_src(node).split()), kind_of(str(node.slice.value))))
                if isinstance(node, ast.Attribute):
                    arg = inner_of(node.value)
                    if arg is not None and not any(_src(node.value) in g for g in guards):
                        rows.append((qual, " ".join(_src(node).split()), kind_of(arg)))
                for ch in ast.iter_child_nodes(node):
                    visit(ch, guards)

            for st in fn.body:
                visit(st, [])
    return sorted(set(rows))


def string_index_facts(chk: Check):
    """index-arithmetic lookups into strings / lists inside the function builders and their helpers (parsers/*.py,
    dialects/dialect.py, parser.py module level, time.py, helper.py): `s[i + 1]`, `s[i - 1]`, and `s[i]` where `i` is an index
    variable the function advances itself (`i += 1`, `i = s.find(…)`), each with the bounds guard (a test mentioning len / length /
    size / the container) that dominates it, or "".  `self._tokens[...]` is covered by forwardLookaheadSites."""
    import glob
    files = sorted(glob.glob(os.path.join(REPO, "sqlglot", "parsers", "*.py"))) + [
        os.path.join(REPO, "sqlglot", f) for f in ("dialects/dialect.py", "parser.py", "time.py", "helper.py")]
    rows = []
    for path in files:
        mod = os.path.basename(path)[:-3]
        try:
            tree = ast.parse(open(path, encoding="utf-8").read())
        except Exception:  # noqa
            chk.broken.append({"kind": "translator", "what": f"C05 translator: cannot parse {path}"})
            continue
        fns = [(f"{mod}.{fn.name}", fn) for fn in ast.walk(tree) if isinstance(fn, ast.FunctionDef)]
        for qual, fn in fns:
            idx_vars = set()
            for n in ast.walk(fn):
                if isinstance(n, ast.AugAssign) and isinstance(n.target, ast.Name):
                    idx_vars.add(n.target.id)
                if isinstance(n, ast.Assign) and len(n.targets) == 1 and isinstance(n.targets[0], ast.Name) and isinstance(n.value, ast.Call) \
                        and isinstance(n.value.func, ast.Attribute) and n.value.func.attr in ("find", "index", "rfind"):
                    idx_vars.add(n.targets[0].id)

            def visit(node, guards):
                if isinstance(node, (ast.FunctionDef, ast.Lambda)) and node is not fn:
                    return
                if isinstance(node, (ast.If, ast.While)):
                    visit(node.test, guards)
                    for st in node.body:
                        visit(st, guards + [_src(node.test)])
                    for st in node.orelse:
                        visit(st, guards + ["not (" + _src(node.test) + ")"])
                    return
                if isinstance(node, ast.IfExp):
                    visit(node.test, guards)
                    visit(node.body, guards + [_src(node.test)])
                    visit(node.orelse, guards + ["not (" + _src(node.test) + ")"])
                    return
                if isinstance(node, ast.BoolOp) and isinstance(node.op, ast.And):
                    acc = list(guards)
                    for v in node.values:
                        visit(v, acc)
                        acc = acc + [_src(v)]
                    return
                if isinstance(node, ast.For):
                    visit(node.iter, guards)
                    for st in node.body:
                        visit(st, guards + ["for " + _src(node.target) + " in " + _src(node.iter)])
                    for st in node.orelse:
                        visit(st, guards)
                    return
                if isinstance(node, ast.Subscript) and isinstance(node.ctx, ast.Load) and not isinstance(node.slice, ast.Slice) \
                        and not _is_self_attr(node.value, "_tokens") and isinstance(node.value, ast.Name):
                    sl = node.slice
                    arith = isinstance(sl, ast.BinOp) and isinstance(sl.op, (ast.Add, ast.Sub)) and any(isinstance(x, ast.Name) for x in (sl.left, sl.right))
                    idxv = isinstance(sl, ast.Name) and sl.id in idx_vars
                    if arith or idxv:
                        cont = node.value.id
                        bounds = [g for g in guards if any(w in g for w in ("len(", "length", "size", cont + ")"))]
                        rows.append((qual, " ".join(_src(node).split()), bounds[-1] if bounds else ""))
                for ch in ast.iter_child_nodes(node):
                    visit(ch, guards)

            for st in fn.body:
                visit(st, [])
    return sorted(set(rows))


def local_list_index_facts(chk: Check):
    """every CONSTANT index into a local / attribute list (`tokens[0]`, `parts[-1]`, `args[0]`, `self._prev_comments[0]` …) in
    parser.py and parsers/*.py with the truthiness / length guard that dominates it: the list name itself as a test or
    `and`-conjunct, a test mentioning `len(<list>)`, or the negation of an early-exit test (`if not xs: return`).  An
    `is not None` test does not count: an empty list passes it."""
    import glob

    def exits(stmts):
        for st in stmts:
            if isinstance(st, (ast.Break, ast.Return, ast.Raise, ast.Continue)):
                return True
            if isinstance(st, ast.If) and st.orelse and exits(st.body) and exits(st.orelse):
                return True
        return False

    def neg(t):
        if isinstance(t, ast.UnaryOp) and isinstance(t.op, ast.Not):
            return _src(t.operand)
        return "not (" + _src(t) + ")"

    rows = []
    for path in [os.path.join(REPO, "sqlglot", "parser.py")] + sorted(glob.glob(os.path.join(REPO, "sqlglot", "parsers", "*.py"))):
        mod = os.path.basename(path)[:-3]
        try:
            tree = ast.parse(open(path, encoding="utf-8").read())
        except Exception:  # noqa
            chk.broken.append({"kind": "translator", "what": f"C05 translator: cannot parse {path}"})
            continue
        for fn in [n for n in ast.walk(tree) if isinstance(n, ast.FunctionDef)]:
            def visit_block(stmts, guards):
                g = list(guards)
                for st in stmts:
                    visit(st, g)
                    if isinstance(st, ast.If) and exits(st.body) and not st.orelse:
                        t_ = st.test
                        g = g + ([neg(v) for v in t_.values] if isinstance(t_, ast.BoolOp) and isinstance(t_.op, ast.Or) else [neg(t_)])

            def visit(node, guards):
                if isinstance(node, (ast.FunctionDef, ast.Lambda)) and node is not fn:
                    return
                if isinstance(node, (ast.If, ast.While)):
                    visit(node.test, guards)
                    visit_block(node.body, guards + [_src(node.test)])
                    visit_block(node.orelse, guards + [neg(node.test)])
                    return
                if isinstance(node, ast.For):
                    visit(node.iter, guards)
                    visit_block(node.body, guards)
                    visit_block(node.orelse, guards)
                    return
                if isinstance(node, ast.Try):
                    visit_block(node.body, guards)
                    for h in node.handlers:
                        visit_block(h.body, guards)
                    visit_block(node.orelse, guards)
                    visit_block(node.finalbody, guards)
                    return
                if isinstance(node, ast.With):
                    visit_block(node.body, guards)
                    return
                if isinstance(node, ast.IfExp):
                    visit(node.test, guards)
                    visit(node.body, guards + [_src(node.test)])
                    visit(node.orelse, guards + [neg(node.test)])
                    return
                if isinstance(node, ast.BoolOp) and isinstance(node.op, (ast.And, ast.Or)):
                    acc = list(guards)
                    for v in node.values:
                        visit(v, acc)
                        acc = acc + [_src(v) if isinstance(node.op, ast.And) else neg(v)]
                    return
                if isinstance(node, ast.Subscript) and isinstance(node.ctx, ast.Load) and isinstance(node.value, (ast.Name, ast.Attribute)):
                    sl = node.slice
                    isint = (isinstance(sl, ast.Constant) and isinstance(sl.value, int) and not isinstance(sl.value, bool)) or (
                        isinstance(sl, ast.UnaryOp) and isinstance(sl.op, ast.USub) and isinstance(sl.operand, ast.Constant)
                        and isinstance(sl.operand.value, int))
                    if isint:
                        nm = _src(node.value)
                        ok = [g for g in guards if g == nm or ("len(" + nm + ")") in g]
                        rows.append((f"{mod}.{fn.name}", " ".join(_src(node).split()), ok[-1] if ok else ""))
                for ch in ast.iter_child_nodes(node):
                    visit(ch, guards)

            visit_block(fn.body, [])
    return sorted(set(rows))


def find_parser_facts(chk: Check):
    """the two key functions of Parser._find_parser (trie key of a token text, dict key of the consumed texts) and the key
    function every SHOW_TRIE / SET_TRIE is built with, by ast"""
    import glob
    out = {"trie_key": "?", "dict_key": "?", "builds": []}
    path = os.path.join(REPO, "sqlglot", "parser.py")
    funcs = _class_funcs(ast.parse(open(path, encoding="utf-8").read()), "Parser")
    fn = funcs.get("_find_parser")
    if fn is None:
        chk.broken.append({"kind": "translator", "what": "C05 translator: structure changed: Parser._find_parser not found"})
    else:
        for n in ast.walk(fn):
            if isinstance(n, ast.Assign) and any(isinstance(t, ast.Name) and t.id == "key" for t in n.targets):
                out["trie_key"] = _src(n.value)
            if isinstance(n, ast.Subscript) and isinstance(n.value, ast.Name) and n.value.id == "parsers":
                out["dict_key"] = _src(n.slice)
    for path in [os.path.join(REPO, "sqlglot", "parser.py")] + sorted(glob.glob(os.path.join(REPO, "sqlglot", "parsers", "*.py"))):
        mod = os.path.basename(path)[:-3]
        try:
            tree = ast.parse(open(path, encoding="utf-8").read())
        except Exception:  # noqa
            continue
        for n in ast.walk(tree):
            tgt = None
            if isinstance(n, ast.Assign) and len(n.targets) == 1 and isinstance(n.targets[0], ast.Name):
                tgt, val = n.targets[0].id, n.value
            elif isinstance(n, ast.AnnAssign) and isinstance(n.target, ast.Name) and n.value is not None:
                tgt, val = n.target.id, n.value
            if tgt and tgt.endswith("_TRIE") and isinstance(val, ast.Call) and _src(val.func) == "new_trie" and val.args:
                g = val.args[0]
                elt = _src(g.elt) if isinstance(g, ast.GeneratorExp) else _src(g)
                out["builds"].append((f"{mod}.{tgt}", elt))
    return out


def wrapper_facts(chk: Check):
    """the thin wrappers between the public API and TokenizerCore.tokenize / Parser.parse: their bodies must stay
    pass-through (a try/except added there would be a second funnel the pin above does not see)"""
    out = {}
    for rel, cls, fn in [("tokens.py", "_TokenizerBase", "tokenize"), ("tokens.py", "Tokenizer", "tokenize"),
                         ("dialects/dialect.py", "Dialect", "tokenize"), ("dialects/dialect.py", "Dialect", "parse"),
                         ("parser.py", "Parser", "parse")]:
        path = os.path.join(REPO, "sqlglot", rel)
        try:
            funcs = _class_funcs(ast.parse(open(path, encoding="utf-8").read()), cls)
        except Exception:  # noqa
            funcs = {}
        if fn in funcs:
            out[f"{cls}.{fn}"] = sum(1 for n in ast.walk(funcs[fn]) if isinstance(n, ast.Try))
    return out


def parser_facts(chk: Check):
    path = os.path.join(REPO, "sqlglot", "parser.py")
    tree = ast.parse(open(path, encoding="utf-8").read())
    funcs = _class_funcs(tree, "Parser")
    out = {}
    need = ["_retreat", "_try_parse", "_parse_csv", "_parse_wrapped", "_match_r_paren"]
    for n in need:
        if n not in funcs:
            chk.broken.append({"kind": "translator", "what": f"C05 translator: structure changed: Parser.{n} not found"})
            return {"retreat": [], "try_finally": [], "try_handlers": [], "csv_while": "?", "wrapped": [], "r_paren": []}

    def body_src(fn):
        stmts = fn.body
        if stmts and isinstance(stmts[0], ast.Expr) and isinstance(stmts[0].value, ast.Constant) and isinstance(stmts[0].value.value, str):
            stmts = stmts[1:]
        return [" ".join(_src(s).split()) for s in stmts]

    out["retreat"] = body_src(funcs["_retreat"])
    tries = [n for n in funcs["_try_parse"].body if isinstance(n, ast.Try)]
    out["try_finally"] = [" ".join(_src(s).split()) for s in tries[0].finalbody] if tries else []
    out["try_handlers"] = [(_src(h.type) if h.type else "*") for h in tries[0].handlers] if tries else []
    wh = [n for n in funcs["_parse_csv"].body if isinstance(n, ast.While)]
    out["csv_while"] = _src(wh[0].test) if wh else "?"
    out["wrapped"] = body_src(funcs["_parse_wrapped"])
    out["r_paren"] = body_src(funcs["_match_r_paren"])
    return out


def _lean_sites(name, sites):
    rows = ["  ⟨%s, %s, [%s]⟩" % (lean_str(f), lean_str(a), ", ".join(lean_str(g) for g in gs)) for f, a, gs in sites]
    return f"def {name} : List Site := [\n" + ",\n".join(rows) + "]\n" if rows else f"def {name} : List Site := []\n"


def _lean_strs(name, xs):
    return f"def {name} : List String := [" + ", ".join(lean_str(x) for x in xs) + "]\n"


def translate(chk: Check) -> str:
    tf = tokenizer_facts(chk)
    pf = parser_facts(chk)
    chk.cov["tokenizer_advance_sites"] = {"plain": tf["plain"], "rewind": len(tf["rewind"]), "guarded": len(tf["guarded"]),
                                          "current_writes": len(tf["writes"])}
    chk._c05_rewind_sites = {(f, a) for f, a, _ in tf["rewind"]}
    out = [
        "-- GENERATED by vf/props/c05.py from sqlglot/tokenizer_core.py and sqlglot/parser.py (ast). Do not edit.\n",
        "namespace SqlglotModel.Generated.C05\n",
        "structure Site where\n  fn : String\n  arg : String\n  guards : List String\n  deriving DecidableEq, Repr\n",
        "-- TokenizerCore: `self._advance(<syntactically negative>)`\n",
        _lean_sites("rewindSites", tf["rewind"]),
        "-- TokenizerCore: `self._advance(<expr>)` whose sign depends on the enclosing guards\n",
        _lean_sites("guardedSites", tf["guarded"]),
        f"def plainSites : Nat := {tf['plain']}\n",
        "-- TokenizerCore: every write to `self._current`\n",
        "def currentWrites : List (String × String) := [" + ", ".join(f"({lean_str(f)}, {lean_str(v)})" for f, v in tf["writes"]) + "]\n",
        f"def scanWhileTest : String := {lean_str(tf['while'])}\n",
        f"def scanOffset : String := {lean_str(tf['offset'])}\n",
        "-- TokenizerCore.tokenize: exception types caught around `self._scan()` and what the handler raises\n",
        _lean_strs("tokenizeHandlers", tf.get("funnel", {}).get("handlers", [])),
        _lean_strs("tokenizeHandlerRaises", tf.get("funnel", {}).get("raises", [])),
        f"def tokenizeTryGuardsScan : Bool := {'true' if tf.get('funnel', {}).get('guards_scan') else 'false'}\n",
        "-- number of try statements in the pass-through wrappers between the public API and the two funnels\n",
        "def wrapperTryCounts : List (String × Nat) := [" + ", ".join(f"({lean_str(k)}, {v})" for k, v in sorted(wrapper_facts(chk).items())) + "]\n",
        "-- Parser: every direct index into the token list (function, index expression, dominating bounds guard or \"\")\n",
        "-- forward lookaheads (index expression contains `+`): these are the ones that can run past the end of a chunk\n",
        "def forwardLookaheadSites : List (String × String × String) := [\n" + ",\n".join(
            f"  ({lean_str(f)}, {lean_str(i)}, {lean_str(g)})" for f, i, g in lookahead_facts(chk)["sites"] if "+" in i) + "]\n",
        "def otherTokenIndexSites : List (String × String × String) := [\n" + ",\n".join(
            f"  ({lean_str(f)}, {lean_str(i)}, {lean_str(g)})" for f, i, g in lookahead_facts(chk)["sites"] if "+" not in i) + "]\n",
        _lean_strs("nextUsers", lookahead_facts(chk)["next_users"]),
        "-- Parser._find_parser: trie key of one token text, dict key of the consumed texts, and how every *_TRIE is built\n",
        f"def findParserTrieKey : String := {lean_str(find_parser_facts(chk)['trie_key'])}\n",
        f"def findParserDictKey : String := {lean_str(find_parser_facts(chk)['dict_key'])}\n",
        "def trieBuilds : List (String × String) := [" + ", ".join(f"({lean_str(a_)}, {lean_str(b_)})" for a_, b_ in find_parser_facts(chk)["builds"]) + "]\n",
        "-- every `while` loop of parser.py / parsers/*.py: (method, loop test, how a continuing iteration makes progress)\n",
        "def parserLoops : List (String × String × String) := [\n" + ",\n".join(
            f"  ({lean_str(f)}, {lean_str(t_)}, {lean_str(k)})" for f, t_, k in parser_loop_facts(chk)) + "]\n",
        "-- Generator: unguarded reaches into the node (method, access, arg is required / optional / unknown-class)\n",
        "def generatorUnguardedOptional : List (String × String) := [\n" + ",\n".join(
            f"  ({lean_str(f)}, {lean_str(x)})" for f, x, k in generator_access_facts(chk) if k == "optional") + "]\n",
        "def generatorUnguardedRequired : List (String × String) := [\n" + ",\n".join(
            f"  ({lean_str(f)}, {lean_str(x)})" for f, x, k in generator_access_facts(chk) if k == "required") + "]\n",
        f"def generatorUnguardedUnknownClass : Nat := {sum(1 for _, _, k in generator_access_facts(chk) if k == 'unknown-class')}\n",
        "-- index-arithmetic lookups into strings / argument lists in builders and helpers: (function, access, dominating bounds guard)\n",
        "def stringIndexSites : List (String × String × String) := [\n" + ",\n".join(
            f"  ({lean_str(f)}, {lean_str(x)}, {lean_str(g)})" for f, x, g in string_index_facts(chk)) + "]\n",
        "-- constant indexes into local / attribute lists in parser.py and parsers/*.py: (function, access, dominating truthiness / length guard)\n",
        "def localListIndexSites : List (String × String × String) := [\n" + ",\n".join(
            f"  ({lean_str(f)}, {lean_str(x)}, {lean_str(g)})" for f, x, g in local_list_index_facts(chk)) + "]\n",
        "-- Parser glue\n",
        _lean_strs("retreatBody", pf["retreat"]),
        _lean_strs("tryParseFinally", pf["try_finally"]),
        _lean_strs("tryParseHandlers", pf["try_handlers"]),
        f"def csvWhileTest : String := {lean_str(pf['csv_while'])}\n",
        _lean_strs("wrappedBody", pf["wrapped"]),
        _lean_strs("matchRParenBody", pf["r_paren"]),
        "end SqlglotModel.Generated.C05\n",
    ]
    return "".join(out)


# =========================================================================================== the real side
def sg():
    import logging
    import sqlglot
    logging.getLogger("sqlglot").disabled = True
    from sqlglot import exp, parser, tokens, errors, generator
    from sqlglot import tokenizer_core
    from sqlglot.dialects.dialect import Dialect, Dialects

    return sqlglot, exp, parser, tokens, errors, generator, tokenizer_core, Dialect, Dialects


LEVELS = ["IGNORE", "WARN", "RAISE", "IMMEDIATE"]


_USABLE: list = []


def load_dialects(chk=None) -> list:
    """import every dialect under the watchdog (dialect modules parse type strings while they are imported, so a
    broken parser can hang right there); a dialect that cannot be loaded is reported and left out"""
    *_, Dialect, Dialects = sg()
    if _USABLE:
        return _USABLE
    import sqlglot.dialects as dialects_pkg
    # the Dialects enum has no entry for every dialect module (singlestore): enum ∪ DIALECT_MODULE_NAMES
    names = {d.value for d in Dialects} | set(getattr(dialects_pkg, "DIALECT_MODULE_NAMES", ()) or ())
    for name in sorted(names):
        try:
            with_watchdog(lambda: Dialect.get_or_raise(name or None).tokenizer_class.KEYWORDS, 15.0)
            _USABLE.append(name)
        except BaseException as e:  # noqa
            if chk is not None:
                chk.broken.append({"kind": "correspondence", "what": f"dialect {name!r} cannot be loaded: {type(e).__name__}: {str(e)[:120]}"})
                chk.note(f"dialect {name!r} cannot be loaded ({type(e).__name__}); left out")
    return _USABLE


def all_dialects():
    return list(load_dialects())


DISPATCH_TABLES = ["RANGE_PARSERS", "COLUMN_OPERATORS", "QUERY_MODIFIER_PARSERS", "STATEMENT_PARSERS", "FUNCTION_PARSERS",
                   "NO_PAREN_FUNCTION_PARSERS", "PROPERTY_PARSERS", "CONSTRAINT_PARSERS", "ALTER_PARSERS", "ALTER_ALTER_PARSERS",
                   "UNARY_PARSERS", "PRIMARY_PARSERS", "STRING_PARSERS", "NUMERIC_PARSERS", "PLACEHOLDER_PARSERS",
                   "PIPE_SYNTAX_TRANSFORM_PARSERS", "SET_PARSERS", "SHOW_PARSERS", "ANALYZE_EXPRESSION_PARSERS", "TYPE_LITERAL_PARSERS"]
PEEKED_TABLES = {"QUERY_MODIFIER_PARSERS"}   # the caller only peeks at the key (`_match_set(…, advance=False)`)
# tables and token sets whose keys drive a `while` loop of the parser (continuation depends on the entry's result)
LOOP_TABLES = ["RANGE_PARSERS", "COLUMN_OPERATORS", "QUERY_MODIFIER_PARSERS", "UNARY_PARSERS", "NO_PAREN_FUNCTION_PARSERS",
               "PLACEHOLDER_PARSERS", "PIPE_SYNTAX_TRANSFORM_PARSERS"]
LOOP_TOKEN_SETS = ["JOIN_KINDS", "JOIN_SIDES", "JOIN_METHODS", "SET_OPERATIONS", "TABLE_INDEX_HINT_TOKENS", "CONJUNCTION", "DISJUNCTION",
                   "EQUALITY", "COMPARISON", "BITWISE", "TERM", "FACTOR", "EXPONENT", "ASSIGNMENT"]


class StepBudget(BaseException):
    """raised by the harness' own counter (never by sqlglot) when a step budget is exhausted"""


class _Watchdog(BaseException):
    pass


class Monitor:
    """Harness-side instrumentation (monkeypatching; no source hooks)."""

    def __init__(self):
        self.installed = False
        self.p_steps = 0
        self.p_cap = None
        self.t_steps = 0
        self.t_cap = None
        self.g_calls = 0
        self.g_cap = None
        self.w_units = 0          # parser "work": _match/_match_set/expression/raise_error activations
        self.w_cap = None
        self.table_breaches = []  # dispatch-table entries that returned a truthy result without progress
        self.table_calls = 0
        self.acts = None          # list of activation records when recording
        self.stack = []
        self.ttrace = None        # tokenizer trace when recording
        self._last_current = None

    # ---- install / remove
    def install(self):
        if self.installed:
            return
        _, _, parser, _, _, generator, tc, *_ = sg()
        P = parser.Parser
        T = tc.TokenizerCore
        G = generator.Generator
        self.orig = {
            "adv": P._advance, "try": P._try_parse, "csv": P._parse_csv, "wrapped": P._parse_wrapped,
            "tadv": T._advance, "gsql": G.sql, "ttok": T.tokenize,
            "match": P._match, "match_set": P._match_set, "expression": P.expression, "raise_error": P.raise_error,
        }
        mon = self
        o_adv, o_try, o_csv, o_wr, o_tadv, o_gsql = (self.orig[k] for k in ("adv", "try", "csv", "wrapped", "tadv", "gsql"))

        def _advance(self, times=1):
            mon.p_steps += 1
            if mon.p_cap is not None and mon.p_steps > mon.p_cap:
                raise StepBudget("parser")
            return o_adv(self, times)

        def work(orig):
            def w(self, *a, **kw):
                mon.w_units += 1
                if mon.w_cap is not None and mon.w_units > mon.w_cap:
                    raise StepBudget("parser-work")
                return orig(self, *a, **kw)
            return w

        def _tadvance(self, i=1, alnum=False):
            mon.t_steps += 1
            if mon.t_cap is not None and mon.t_steps > mon.t_cap:
                raise StepBudget("tokenizer")
            if mon.ttrace is None:
                return o_tadv(self, i, alnum)
            before = self._current
            caller = sys._getframe(1).f_code.co_name
            try:
                return o_tadv(self, i, alnum)
            finally:
                mon.ttrace.append((caller, i, before, self._current, self._start))

        o_ttok = self.orig["ttok"]

        def _ttokenize(self, sql):
            if mon.ttrace is not None:
                mon.ttrace.append(("<tokenize>", len(sql), 0, 0, 0))
            return o_ttok(self, sql)

        def _gsql(self, *a, **kw):
            mon.g_calls += 1
            if mon.g_cap is not None and mon.g_calls > mon.g_cap:
                raise StepBudget("generator")
            return o_gsql(self, *a, **kw)

        def classify(v):
            if v is None:
                return "none"
            try:
                return "truthy" if v else "falsy"
            except Exception:  # noqa
                return "truthy"

        def inner_wrap(psr, rec, method):
            def call():
                i0, st0, er0 = psr._index, mon.p_steps, len(psr.errors)
                e = {"i0": i0, "lvl": psr.error_level.name}
                try:
                    r = method()
                except errors_mod.ParseError:
                    e.update(out="raised", i1=psr._index, steps=mon.p_steps - st0, errs=len(psr.errors) - er0)
                    rec["inner"].append(e)
                    raise
                except (StepBudget, _Watchdog):
                    raise
                except Exception:  # noqa
                    e.update(out="internal", i1=psr._index, steps=mon.p_steps - st0, errs=len(psr.errors) - er0)
                    rec["inner"].append(e)
                    raise
                e.update(out=classify(r), i1=psr._index, steps=mon.p_steps - st0, errs=len(psr.errors) - er0)
                rec["inner"].append(e)
                return r
            return call

        errors_mod = sg()[4]

        def activation(kind, orig_call, psr, method, extra):
            if mon.acts is None:
                return orig_call(method)
            rec = {"kind": kind, "i0": psr._index, "lvl0": psr.error_level.name, "st0": mon.p_steps,
                   "errs0": len(psr.errors), "inner": [], "toks": id(psr._tokens), **extra}
            mon._tokens_by_id[id(psr._tokens)] = psr._tokens
            try:
                r = orig_call(inner_wrap(psr, rec, method))
            except errors_mod.ParseError:
                rec.update(out="raised")
                raise
            except (StepBudget, _Watchdog):
                rec.update(out="budget")
                raise
            except Exception:  # noqa
                rec.update(out="internal")
                raise
            else:
                rec.update(out=classify(r))
                return r
            finally:
                rec.update(i1=psr._index, lvl1=psr.error_level.name, steps=mon.p_steps - rec.pop("st0"),
                           errs=len(psr.errors) - rec.pop("errs0"))
                if len(mon.acts) < mon.acts_cap:
                    mon.acts.append(rec)

        def _try_parse(self, parse_method, retreat=False):
            return activation("try", lambda m: o_try(self, m, retreat), self, parse_method, {"rt": bool(retreat)})

        def _parse_csv(self, parse_method, sep=None):
            if sep is None:
                return activation("csv", lambda m: o_csv(self, m), self, parse_method, {"sep": "COMMA"})
            return activation("csv", lambda m: o_csv(self, m, sep), self, parse_method, {"sep": sep.name})

        def _parse_wrapped(self, parse_method, optional=False):
            return activation("wrapped", lambda m: o_wr(self, m, optional), self, parse_method, {"optional": bool(optional)})

        self.wrapped_tables = []
        self._wrap_tables(P)
        P._advance = _advance
        P._match = work(self.orig["match"])
        P._match_set = work(self.orig["match_set"])
        P.expression = work(self.orig["expression"])
        P.raise_error = work(self.orig["raise_error"])
        P._try_parse = _try_parse
        P._parse_csv = _parse_csv
        P._parse_wrapped = _parse_wrapped
        T._advance = _tadvance
        T.tokenize = _ttokenize
        G.sql = _gsql
        self.installed = True
        self.acts_cap = 4000
        self._tokens_by_id = {}

    def _wrap_tables(self, P):
        """wrap every entry of every parser dispatch table (of the base parser and of every dialect's parser class) in place:
        a truthy result must not leave the cursor before the point the entry started from (the key token is consumed by
        the caller), and for tables whose key is only peeked the cursor must have moved forward.  Those are the per-entry
        hypotheses of `table_loop_terminates`."""
        *_, Dialect, Dialects = sg()
        mon = self
        classes = [P]
        for d in list(_USABLE) or load_dialects():
            try:
                pc = Dialect.get_or_raise(d or None).parser_class
            except Exception:  # noqa
                continue
            for c in pc.__mro__:
                if isinstance(c, type) and issubclass(c, P) and c not in classes:
                    classes.append(c)
        seen = set()

        def mk(table, key, fn):
            peeked = table in PEEKED_TABLES
            pair = table == "QUERY_MODIFIER_PARSERS"

            def w(psr, *a, **kw):
                if not isinstance(psr, P):
                    return fn(psr, *a, **kw)
                mon.w_units += 1
                mon.table_calls += 1
                if mon.w_cap is not None and mon.w_units > mon.w_cap:
                    raise StepBudget("parser-work")
                i0 = psr._index
                r = fn(psr, *a, **kw)
                v = r[1] if pair and isinstance(r, tuple) and len(r) == 2 else r
                try:
                    truthy = bool(v)
                except Exception:  # noqa
                    truthy = True
                i1 = psr._index
                if truthy and (i1 < i0 or (peeked and i1 == i0)) and len(mon.table_breaches) < 50:
                    mon.table_breaches.append({"table": table, "key": getattr(key, "name", str(key)), "parser": type(psr).__name__,
                                               "index_before": i0, "index_after": i1})
                return r
            return w

        for c in classes:
            for table in DISPATCH_TABLES:
                dct = c.__dict__.get(table)
                if not isinstance(dct, dict) or id(dct) in seen:
                    continue
                seen.add(id(dct))
                for k, fn in list(dct.items()):
                    if callable(fn):
                        self.wrapped_tables.append((dct, k, fn))
                        dct[k] = mk(table, k, fn)

    def remove(self):
        if not self.installed:
            return
        for dct, k, fn in self.wrapped_tables:
            dct[k] = fn
        self.wrapped_tables = []
        _, _, parser, _, _, generator, tc, *_ = sg()
        parser.Parser._advance = self.orig["adv"]
        parser.Parser._match = self.orig["match"]
        parser.Parser._match_set = self.orig["match_set"]
        parser.Parser.expression = self.orig["expression"]
        parser.Parser.raise_error = self.orig["raise_error"]
        parser.Parser._try_parse = self.orig["try"]
        parser.Parser._parse_csv = self.orig["csv"]
        parser.Parser._parse_wrapped = self.orig["wrapped"]
        tc.TokenizerCore._advance = self.orig["tadv"]
        tc.TokenizerCore.tokenize = self.orig["ttok"]
        generator.Generator.sql = self.orig["gsql"]
        self.installed = False

    def reset(self):
        self.p_steps = self.t_steps = self.g_calls = self.w_units = 0
        self.p_cap = self.t_cap = self.g_cap = self.w_cap = None
        self.table_breaches = []


MON = Monitor()


def with_watchdog(fn, timeout=WATCHDOG_S):
    def handler(signum, frame):
        raise _Watchdog()

    old = signal.signal(signal.SIGALRM, handler)
    signal.setitimer(signal.ITIMER_REAL, timeout)
    try:
        return fn()
    finally:
        signal.setitimer(signal.ITIMER_REAL, 0)
        signal.signal(signal.SIGALRM, old)


CURSOR_PRIMITIVES = {"_advance", "_retreat", "_match", "_match_set", "_match_pair", "_match_texts", "_match_text_seq", "_advance_any",
                     "expression", "validate_expression", "raise_error", "_match_l_paren", "_match_r_paren", "_add_comments"}


def innermost_sqlglot_frame(e: BaseException) -> str:
    """crash site: the innermost sqlglot frame, looking through the parser's generic cursor primitives to their caller (an
    IndexError 'in _advance' says nothing about which method advanced past the end)"""
    tb = traceback.extract_tb(e.__traceback__)
    first = None
    for fr in reversed(tb):
        if "sqlglot" in fr.filename and "/vf/" not in fr.filename:
            name = os.path.basename(fr.filename)[:-3] + "." + fr.name
            first = first or name
            if not (fr.filename.endswith("parser.py") and fr.name in CURSOR_PRIMITIVES):
                return name
    return first or "?"


GENERIC_PARSE_HELPERS = {"_parse_var", "_parse_placeholder", "_parse_wrapped", "_parse_csv", "_parse_wrapped_csv", "_parse_id_var",
                         "_parse_string", "_parse_field", "_parse_unquoted_field", "_parse_bracket", "_parse_primary", "_parse_var_or_string",
                         "_parse_identifier", "_parse_number", "_parse_star", "_parse_null", "_parse_boolean", "_parse_parameter"}


def cycle_frame(e: BaseException) -> str:
    """for a RecursionError: the (alphabetically first) most frequent sqlglot function on the stack"""
    cnt: dict = {}
    for fr in traceback.extract_tb(e.__traceback__):
        if "sqlglot" in fr.filename and "/vf/" not in fr.filename and fr.name.startswith("_parse_"):
            k = os.path.basename(fr.filename)[:-3] + "." + fr.name
            cnt[k] = cnt.get(k, 0) + 1
    if not cnt:
        return "?"
    m = max(cnt.values())
    cands = sorted(k for k, v in cnt.items() if v >= m - 2)
    # the statement dispatcher `_parse_statement` (base or a dialect override that just calls super) is part of every
    # statement-level cycle: name the cycle after the method that re-enters it
    specific = [k for k in cands if k.split(".")[-1] != "_parse_statement"]
    return (specific or cands)[0]


def stack_names(e: BaseException) -> list:
    return [os.path.basename(fr.filename)[:-3] + "." + fr.name for fr in traceback.extract_tb(e.__traceback__)
            if "sqlglot" in fr.filename and "/vf/" not in fr.filename]


def loop_frame(e: BaseException) -> str:
    """for an exhausted step budget: the deepest non-generic `_parse_*` method on the stack (the owner of the loop)"""
    tb = traceback.extract_tb(e.__traceback__)
    for fr in reversed(tb):
        if "sqlglot" in fr.filename and "/vf/" not in fr.filename and fr.name.startswith("_parse_") and fr.name not in GENERIC_PARSE_HELPERS:
            return os.path.basename(fr.filename)[:-3] + "." + fr.name
    return innermost_sqlglot_frame(e)


# ------------------------------------------------------------------------------------------- the property oracle
def run_pipeline(sql: str, dialect: str, level: str, write: str | None = None, caps: bool = True, scale: float = 1.0) -> dict:
    """tokenize -> parse -> generate on the real code under the step counters. Returns a verdict record:
    {"ok": bool, "phase", "exc", "frame", "msg", "steps": {...}, "n_tokens", "parser_errors": bool}"""
    _, exp, parser, tokens, errors, generator, tc, Dialect, _ = sg()
    MON.install()
    MON.reset()
    lvl = errors.ErrorLevel[level]
    d = Dialect.get_or_raise(dialect or None)
    res = {"ok": True, "phase": None, "exc": None, "frame": None, "msg": None, "parser_errors": False,
           "n_tokens": 0, "steps": {}, "running": "tokenize"}

    def fail(phase, e):
        res.update(ok=False, phase=phase, exc=type(e).__name__, frame=innermost_sqlglot_frame(e), msg=str(e)[:200])
        return res

    def body():
        # ---- tokenize
        if caps:
            MON.t_cap = K_TOKENIZE * (len(sql) + 1)
        try:
            toks = d.tokenize(sql)
        except errors.SqlglotError:
            res["steps"]["tokenize"] = MON.t_steps
            return res
        except StepBudget as e:
            res.update(ok=False, phase="tokenize", exc="StepBudget", frame="tokenizer_core._scan",
                       msg=f"more than {MON.t_cap} TokenizerCore._advance calls for {len(sql)} characters")
            return res
        except Exception as e:  # noqa
            return fail("tokenize", e)
        res["steps"]["tokenize"] = MON.t_steps
        res["running"] = "parse"
        n = len(toks)
        res["n_tokens"] = n
        # ---- parse
        if caps:
            MON.p_cap = int(scale * K_PARSE * (n + 1) * (n + 1))
            MON.w_cap = int(scale * (K_WORK * (n + 1) * (n + 1) + WORK_CONST))
        p = d.parser(error_level=lvl)
        trees = None
        res["running"] = "parse"
        try:
            trees = p.parse(toks, sql)
        except errors.SqlglotError:
            res["steps"]["parse"] = MON.p_steps
            res["steps"]["work"] = MON.w_units
            return res
        except StepBudget as e:
            fr = loop_frame(e)
            res["stack"] = stack_names(e)
            res.update(ok=False, phase="parse", exc="StepBudget", frame=fr,
                       msg=(f"more than {MON.p_cap} Parser._advance calls" if str(e) == "parser" else
                            f"more than {MON.w_cap} _match/_match_set/expression/raise_error calls") + f" for {n} tokens (loop in {fr})")
            return res
        except RecursionError as e:
            res.update(ok=False, phase="parse", exc="RecursionError", frame=cycle_frame(e),
                       msg=f"unbounded recursion on {n} tokens after {MON.p_steps} Parser._advance calls")
            return res
        except Exception as e:  # noqa
            return fail("parse", e)
        res["steps"]["parse"] = MON.p_steps
        res["steps"]["work"] = MON.w_units
        res["running"] = "generate"
        has_err = bool(p.errors)
        if not has_err and lvl in (errors.ErrorLevel.IGNORE, errors.ErrorLevel.WARN):
            # IGNORE skips validate_expression: a tree with missing required arguments is what the other levels would
            # have recorded an error for.  (WARN: dialects that delegate to an inner parser, e.g. athena, keep the
            # recorded errors on the inner parser object.)
            try:
                for tr in trees:
                    if tr is not None and any(nd.error_messages() for nd in tr.walk()):
                        has_err = True
                        break
            except Exception:  # noqa
                has_err = True
        res["parser_errors"] = has_err
        # ---- generate (transpile = parse + write-dialect generate)
        wd = Dialect.get_or_raise(write or None) if write is not None else d
        nodes = 0
        for tr in trees:
            if tr is None:
                continue
            try:
                nodes = sum(1 for _ in tr.walk())
            except Exception:  # noqa
                nodes = 1000
            if caps:
                MON.g_calls = 0
                MON.g_cap = K_GENERATE * (nodes + 1)
            try:
                wd.generate(tr, copy=True, unsupported_level=lvl)
            except errors.SqlglotError:
                pass
            except StepBudget:
                res.update(ok=False, phase="generate", exc="StepBudget", frame="generator.sql",
                           msg=f"more than {MON.g_cap} Generator.sql calls for {nodes} nodes")
                return res
            except RecursionError as e:
                if nodes < 150:
                    res.update(ok=False, phase="generate", exc="RecursionError", frame=cycle_frame(e),
                               msg=f"unbounded recursion generating a tree of {nodes} nodes")
                    return res
            except Exception as e:  # noqa
                return fail("generate", e)
            res["steps"]["generate"] = max(res["steps"].get("generate", 0), MON.g_calls)
            res["nodes"] = max(res.get("nodes", 0), nodes)
        return res

    try:
        return with_watchdog(body)
    except _Watchdog:
        res.update(ok=False, phase=res.get("running") or "?", exc="Timeout", frame="?", msg=f"still running after {WATCHDOG_S}s")
        return res
    finally:
        res["table_breaches"] = MON.table_breaches[:3]
        MON.reset()


# =========================================================================================== generators
IDS = ["a", "b", "c", "x", "y", "t", "u", "col1", "tbl", "db", "k", "v"]
FUNCS = ["COUNT", "SUM", "MAX", "COALESCE", "LOWER", "ABS", "SUBSTRING", "DATE_TRUNC", "IF", "CONCAT", "ROUND", "NULLIF"]
TYPES = ["INT", "TEXT", "DECIMAL(10, 2)", "VARCHAR(20)", "DATE", "TIMESTAMP", "BOOLEAN", "ARRAY<INT>", "DOUBLE"]
BINOPS = ["+", "-", "*", "/", "%", "=", "<>", "<", "<=", ">", ">=", "AND", "OR", "||", "LIKE", "IS", "IN", "&", "|", "^", "<<", "->", "::"]


class Gen:
    def __init__(self, rng):
        self.r = rng

    def ident(self):
        r = self.r
        x = r.choice(IDS)
        q = r.random()
        if q < 0.08:
            return '"' + x + '"'
        if q < 0.12:
            return "`" + x + "`"
        if q < 0.14:
            return "[" + x + "]"
        return x

    def lit(self):
        r = self.r
        k = r.random()
        if k < 0.3:
            return str(r.choice([0, 1, 2, 10, 1.5, 100, "1e3", "0x1F", "1_000", "12L", "3.", ".5"]))
        if k < 0.55:
            return "'" + r.choice(["", "a", "it''s", "x y", "%a%", "2020-01-01", "\\n", "é"]) + "'"
        if k < 0.65:
            return r.choice(["NULL", "TRUE", "FALSE", "CURRENT_DATE", "CURRENT_TIMESTAMP"])
        if k < 0.72:
            return r.choice(["DATE '2020-01-01'", "INTERVAL '1' DAY", "INTERVAL 2 MONTH", "TIMESTAMP '2020-01-01 00:00:00'"])
        if k < 0.78:
            return r.choice(["?", ":p", "@v", "$1", "{{x}}", "@@g"])
        if k < 0.84:
            return r.choice(["[1, 2]", "ARRAY[1, 2]", "{'a': 1}", "MAP(1, 2)", "STRUCT(1 AS a)", "(1, 2)"])
        return self.col()

    def col(self):
        r = self.r
        if r.random() < 0.4:
            return self.ident() + "." + self.ident()
        return self.ident()

    def expr(self, d=0):
        r = self.r
        k = r.random()
        if d > 3 or k < 0.28:
            return self.lit() if r.random() < 0.5 else self.col()
        if k < 0.5:
            op = r.choice(BINOPS)
            if op == "IN":
                return f"{self.expr(d + 1)} {r.choice(['IN', 'NOT IN'])} ({', '.join(self.expr(d + 2) for _ in range(r.randint(1, 3)))})"
            if op == "IS":
                return f"{self.expr(d + 1)} IS {r.choice(['NULL', 'NOT NULL', 'TRUE', 'DISTINCT FROM 1'])}"
            if op == "::":
                return f"{self.expr(d + 1)}::{r.choice(TYPES)}"
            if op == "LIKE":
                return f"{self.expr(d + 1)} {r.choice(['LIKE', 'NOT LIKE', 'ILIKE', 'RLIKE', 'SIMILAR TO'])} {self.lit()}" + (" ESCAPE '!'" if r.random() < 0.2 else "")
            return f"{self.expr(d + 1)} {op} {self.expr(d + 1)}"
        if k < 0.58:
            return f"({self.expr(d + 1)})"
        if k < 0.68:
            f = r.choice(FUNCS)
            args = ", ".join(self.expr(d + 1) for _ in range(r.randint(0, 3)))
            if f == "COUNT" and r.random() < 0.5:
                args = r.choice(["*", "DISTINCT " + self.col()])
            s = f"{f}({args})"
            if r.random() < 0.25:
                s += " OVER (" + r.choice(["", "PARTITION BY " + self.col(), "ORDER BY " + self.col() + " DESC",
                                          "PARTITION BY a ORDER BY b ROWS BETWEEN 1 PRECEDING AND CURRENT ROW"]) + ")"
            if r.random() < 0.08:
                s += " FILTER (WHERE " + self.expr(d + 2) + ")"
            return s
        if k < 0.75:
            n = r.randint(1, 2)
            whens = " ".join(f"WHEN {self.expr(d + 1)} THEN {self.expr(d + 1)}" for _ in range(n))
            return f"CASE {self.expr(d + 2) + ' ' if r.random() < 0.3 else ''}{whens}{' ELSE ' + self.expr(d + 1) if r.random() < 0.6 else ''} END"
        if k < 0.82:
            return f"{r.choice(['CAST', 'TRY_CAST', 'SAFE_CAST'])}({self.expr(d + 1)} AS {r.choice(TYPES)})"
        if k < 0.87:
            return f"{r.choice(['NOT ', '-', '~', 'EXISTS ', 'DISTINCT '])}{self.expr(d + 1)}" if r.random() < 0.7 else f"NOT {self.expr(d + 1)} BETWEEN 1 AND {self.expr(d + 2)}"
        if k < 0.92:
            return f"({self.select(d + 2)})"
        if k < 0.95:
            return f"{self.col()}[{r.choice(['0', '1', self.lit()])}]"
        if k < 0.97:
            return f"EXTRACT({r.choice(['YEAR', 'DAY', 'EPOCH'])} FROM {self.expr(d + 1)})"
        return r.choice([f"x -> x + 1", f"{self.col()} AT TIME ZONE 'UTC'", f"{self.expr(d + 1)} COLLATE utf8", "a.b.c.d", f"{self.col()}:k.v"])

    def table(self, d=0):
        r = self.r
        k = r.random()
        if d < 3 and k < 0.15:
            t = f"({self.select(d + 1)})"
            return t + " AS " + self.ident()
        if k < 0.22:
            return r.choice(["UNNEST([1, 2]) AS u", "LATERAL (SELECT 1) AS l", "t TABLESAMPLE (10 PERCENT)", "generate_series(1, 3) AS g(x)",
                             "(VALUES (1, 2), (3, 4)) AS v(a, b)", "t FOR SYSTEM_TIME AS OF '2020'", "t PIVOT(SUM(a) FOR b IN ('x', 'y'))",
                             "db.t WITH (NOLOCK)", "t@lnk", "t FINAL"])
        name = self.ident()
        if r.random() < 0.3:
            name = self.ident() + "." + name
        if r.random() < 0.4:
            name += (" AS " if r.random() < 0.6 else " ") + self.ident()
        return name

    def select(self, d=0):
        r = self.r
        parts = ["SELECT"]
        if r.random() < 0.1:
            parts.append(r.choice(["DISTINCT", "ALL", "TOP 3", "DISTINCT ON (a)"]))
        cols = []
        for _ in range(r.randint(1, 3)):
            c = self.expr(d + 1) if r.random() < 0.9 else r.choice(["*", "t.*", "* EXCEPT (a)", "* REPLACE (1 AS a)"])
            if r.random() < 0.3 and "*" not in c:
                c += (" AS " if r.random() < 0.7 else " ") + self.ident()
            cols.append(c)
        parts.append(", ".join(cols))
        if r.random() < 0.85:
            parts.append("FROM " + self.table(d))
            for _ in range(r.choice([0, 0, 0, 1, 1, 2])):
                j = r.choice(["JOIN", "LEFT JOIN", "INNER JOIN", "CROSS JOIN", "FULL OUTER JOIN", ",", "NATURAL JOIN", "LEFT SEMI JOIN",
                              "CROSS APPLY", "ASOF JOIN", "LEFT JOIN LATERAL"])
                s = j + " " + self.table(d)
                if "CROSS" not in j and j != "," and "NATURAL" not in j:
                    s += r.choice([" ON " + self.expr(d + 2), " USING (" + self.ident() + ")", ""])
                parts.append(s)
        if r.random() < 0.5:
            parts.append("WHERE " + self.expr(d + 1))
        if r.random() < 0.25:
            parts.append("GROUP BY " + r.choice([self.col(), "1, 2", "ROLLUP (a, b)", "GROUPING SETS ((a), (b))", "ALL", "CUBE (a)"]))
            if r.random() < 0.4:
                parts.append("HAVING " + self.expr(d + 2))
        if r.random() < 0.1:
            parts.append("QUALIFY " + self.expr(d + 2))
        if r.random() < 0.1:
            parts.append("WINDOW w AS (PARTITION BY a)")
        if r.random() < 0.25:
            parts.append("ORDER BY " + self.expr(d + 2) + r.choice(["", " DESC", " ASC NULLS LAST", " NULLS FIRST"]))
        if r.random() < 0.2:
            parts.append(r.choice(["LIMIT 10", "LIMIT 5 OFFSET 2", "LIMIT 1, 2", "FETCH FIRST 3 ROWS ONLY", "OFFSET 1 ROWS"]))
        s = " ".join(parts)
        if d < 2 and r.random() < 0.12:
            s += " " + r.choice(["UNION", "UNION ALL", "INTERSECT", "EXCEPT", "UNION DISTINCT"]) + " " + self.select(d + 1)
        return s

    def statement(self):
        r = self.r
        k = r.random()
        if k < 0.55:
            s = self.select()
            if r.random() < 0.15:
                s = f"WITH {self.ident()} AS ({self.select(1)}){', ' + self.ident() + ' AS (SELECT 1)' if r.random() < 0.3 else ''} " + s
            return s
        if k < 0.63:
            cols = ", ".join(f"{self.ident()} {r.choice(TYPES)}{r.choice(['', ' NOT NULL', ' DEFAULT 0', ' PRIMARY KEY', ' COMMENT ' + chr(39) + 'c' + chr(39)])}"
                             for _ in range(r.randint(1, 3)))
            tail = r.choice(["", " PARTITIONED BY (a)", " WITH (format = 'parquet')", " ENGINE=InnoDB", " AS SELECT 1", " USING delta",
                             " CLUSTER BY (a)", " ORDER BY a", " TBLPROPERTIES ('a'='b')"])
            return f"CREATE {r.choice(['', 'OR REPLACE ', 'TEMPORARY ', 'EXTERNAL '])}TABLE {r.choice(['', 'IF NOT EXISTS '])}{self.table(9).split(' ')[0]} ({cols}){tail}"
        if k < 0.69:
            return f"INSERT {r.choice(['INTO', 'OVERWRITE TABLE', 'OR REPLACE INTO'])} {self.ident()} {r.choice(['', '(a, b) '])}{r.choice(['VALUES (1, 2), (3, 4)', self.select(1), 'DEFAULT VALUES'])}{r.choice(['', ' ON CONFLICT DO NOTHING', ' RETURNING a', ' ON DUPLICATE KEY UPDATE a = 1'])}"
        if k < 0.74:
            return f"UPDATE {self.table(9)} SET {self.ident()} = {self.expr(1)}{', b = 2' if r.random() < 0.3 else ''}{' FROM ' + self.table(9) if r.random() < 0.2 else ''}{' WHERE ' + self.expr(1) if r.random() < 0.7 else ''}"
        if k < 0.78:
            return f"DELETE FROM {self.table(9)}{' USING ' + self.ident() if r.random() < 0.15 else ''}{' WHERE ' + self.expr(1) if r.random() < 0.7 else ''}"
        if k < 0.82:
            return f"MERGE INTO {self.ident()} AS t USING {self.ident()} AS s ON t.a = s.a WHEN MATCHED THEN UPDATE SET t.b = s.b WHEN NOT MATCHED THEN INSERT (a, b) VALUES (s.a, s.b)"
        if k < 0.9:
            return r.choice([
                "ALTER TABLE t ADD COLUMN c INT", "ALTER TABLE t DROP COLUMN c", "ALTER TABLE t RENAME TO u", "ALTER TABLE t ALTER COLUMN c SET DATA TYPE TEXT",
                "DROP TABLE IF EXISTS t CASCADE", "CREATE VIEW v AS SELECT 1", "CREATE INDEX i ON t (a, b DESC)", "CREATE SCHEMA IF NOT EXISTS s",
                "CREATE FUNCTION f(x INT) RETURNS INT AS 'SELECT 1'", "TRUNCATE TABLE t", "DESCRIBE t", "SHOW TABLES", "USE db", "SET x = 1",
                "BEGIN", "COMMIT", "ROLLBACK", "EXPLAIN SELECT 1", "COPY t FROM 's3://x' WITH (FORMAT CSV)", "GRANT SELECT ON t TO u",
                "ANALYZE TABLE t COMPUTE STATISTICS", "CACHE TABLE t", "PRAGMA table_info(t)", "COMMENT ON TABLE t IS 'x'", "KILL 5",
                "LOAD DATA INPATH 'x' INTO TABLE t", "CALL p(1)", "EXECUTE IMMEDIATE 'SELECT 1'", "DECLARE @x INT = 1", "CREATE SEQUENCE s START WITH 1",
                "SELECT 1; SELECT 2", "SELECT a /* c */ FROM t -- tail", "SELECT $$x$$", "SELECT $tag$ x $tag$", "SELECT 1 /*+ HINT(a) */",
                "SELECT /*+ BROADCAST(t) */ a FROM t", "FROM t SELECT a", "FROM t |> WHERE a > 1 |> SELECT a", "SELECT 12abc", "SELECT 1e", "SELECT 0b101, 0xZZ",
                "SELECT b'abc', x'1F', r'a\\b', N'x', e'\\n'", "SELECT {d '2020-01-01'}", "VALUES (1), (2)", "(SELECT 1) UNION (SELECT 2)",
                "SELECT * FROM t MATCH_RECOGNIZE (PARTITION BY a PATTERN (A B+) DEFINE A AS a > 1)", "SELECT a FROM t CONNECT BY PRIOR a = b START WITH a = 1",
                "WITH RECURSIVE r AS (SELECT 1 UNION ALL SELECT a + 1 FROM r) SELECT * FROM r", "SELECT JSON_OBJECT('a': 1)", "SELECT x -> 'a' ->> 'b' #> '{c}'",
                "SELECT TRIM(BOTH 'x' FROM y), POSITION('a' IN b), OVERLAY(a PLACING b FROM 1)", "SELECT a FROM t FOR UPDATE OF t NOWAIT",
                "SELECT CAST(a AS STRUCT<x INT, y ARRAY<TEXT>>)", "SELECT ARRAY_AGG(a ORDER BY b LIMIT 2), STRING_AGG(a, ',' ORDER BY b)",
                "SELECT a FROM t WHERE b = ANY (SELECT 1) AND c > ALL (ARRAY[1])", "SELECT 1 AS \"a b\", 'x' 'y'", "SELECT IF(a, b, c), a ?: b, a ?? b",
            ])
        return self.select()


def safe_base_tokenize(sql: str):
    """base-dialect tokens for the harness' own use (mutators, skeletons), under the step cap and the watchdog so that a
    broken tokenizer cannot stall the harness; None when it fails"""
    _, _, _, tokens, errors, *_ = sg()
    MON.install()
    old = (MON.t_steps, MON.t_cap)
    MON.t_steps, MON.t_cap = 0, 50 * (len(sql) + 2)
    try:
        return with_watchdog(lambda: tokens.Tokenizer().tokenize(sql), 5.0)
    except BaseException:  # noqa
        return None
    finally:
        MON.t_steps, MON.t_cap = old


def safe_tokenize(sql: str, dialect):
    """tokens of `sql` in `dialect` for the harness' own use, under the step cap and the watchdog; None when it fails"""
    *_, Dialect, _ = sg()
    MON.install()
    old = (MON.t_steps, MON.t_cap)
    MON.t_steps, MON.t_cap = 0, 50 * (len(sql) + 2)
    try:
        return with_watchdog(lambda: Dialect.get_or_raise(dialect or None).tokenize(sql), 5.0)
    except BaseException:  # noqa
        return None
    finally:
        MON.t_steps, MON.t_cap = old


def prefix_sweep(dialects, quick=False):
    """systematic truncation: for every corpus statement and EVERY token position, the prefix ending at that position, alone
    and followed by `; SELECT 2` (so the chunk ends right there), in the base dialect and in the statement's own dialect.
    yields (sql, dialect)"""
    for own, stmts in [("", STATIC_CORPUS)] + sorted(DIALECT_CORPUS.items()):
        if own and own not in dialects:
            continue
        for si, stmt in enumerate(stmts):
            toks = safe_tokenize(stmt, own) or safe_tokenize(stmt, "")
            if not toks:
                continue
            other = own if own else dialects[(si * 7 + 3) % len(dialects)]
            ends = sorted({t.end + 1 for t in toks if t.end + 1 <= len(stmt)})
            for pi, e in enumerate(ends):
                pre = stmt[:e]
                ds = sorted({"", other}) if other else [""]
                if quick and own:
                    ds = [own]        # quick tier: dialect statements in their own dialect only (base is covered by STATIC_CORPUS)
                for di, d in enumerate(ds):
                    yield pre, d
                    if not quick or pi % 3 == 0:
                        yield pre + "; SELECT 2", d


def split_tokens(sql: str) -> list:
    """token texts of `sql` as seen by the base tokenizer (falls back to whitespace splitting)"""
    toks = safe_base_tokenize(sql)
    if toks:
        return [sql[t.start: t.end + 1] for t in toks]
    return sql.split()


SOUP = ["SELECT", "FROM", "WHERE", "(", ")", ",", "AS", "JOIN", "ON", "AND", "OR", "NOT", "CASE", "WHEN", "THEN", "ELSE", "END", "BY", "GROUP",
        "ORDER", "IN", "IS", "NULL", "BETWEEN", "LIKE", "OVER", "PARTITION", "UNION", "ALL", "DISTINCT", "CAST", "WITH", "INSERT", "INTO", "VALUES",
        "CREATE", "TABLE", "ALTER", "DROP", "SET", "UPDATE", "DELETE", "*", ".", ";", "=", "<", ">", "+", "-", "/", "::", "[", "]", "{", "}", ":", "?",
        "a", "b", "1", "'x'", "INTERVAL", "LATERAL", "UNNEST", "EXISTS", "LIMIT", "OFFSET", "USING", "HAVING", "WINDOW", "ROWS", "FILTER", "PIVOT",
        "FOR", "TRY_CAST", "STRUCT", "ARRAY", "MAP", "IF", "ELSE", "BEGIN", "COMMIT", "MERGE", "MATCHED", "DEFAULT", "PRIMARY", "KEY", "REFERENCES",
        "@", "$", "#", "->", "=>", "|>", "||", "&&", "!", "~", "^", "%", "<=>", ":=", "QUALIFY", "TABLESAMPLE", "RETURNING", "COLLATE", "ESCAPE",
        "EXTRACT", "TRIM", "POSITION", "SUBSTRING", "COUNT", "FORMAT", "SHOW", "DESCRIBE", "EXPLAIN", "GRANT", "COPY", "COMMENT", "CACHE", "PRAGMA"]
UNI = ["é", "ß", "İ", "Ω", "€", " ", " ", "​", " ", "日本", "😀", "́", "ǅ", "٣", "²", "½", "﻿", "\x00", "\x1f", "\r", "\n", "\t",
       "\\", "'", '"', "`", "$", "$$", "/*", "*/", "--", "#", "{{", "}}", "{%", "%}", "0x", "1e", "e'", "N'", "b'", "@@", "::", "٠", "ａ", "＇"]


ELEMENT_TEMPLATES = [
    "INSERT INTO t (a, {R}) VALUES (1)", "INSERT INTO t ({R}, a) VALUES (1, 2)", "INSERT INTO t VALUES (1, {R})",
    "CREATE TABLE t (a INT, {R})", "CREATE TABLE t ({R}, a INT)", "CREATE TABLE t (a INT {R}, b INT)", "CREATE TABLE t (a {R}, b INT)",
    "CREATE TABLE t (a INT, CONSTRAINT c {R} (a))", "CREATE TABLE t (a INT, PRIMARY KEY (a, {R}))", "CREATE TABLE t (a INT {R} {R})",
    "CREATE TABLE t (a INT, FOREIGN KEY (a) REFERENCES u ({R}))", "CREATE TABLE t (a INT) PARTITION BY ({R}, a)",
    "SELECT a, {R} FROM t", "SELECT f(a, {R})", "SELECT * FROM t WHERE a IN (1, {R})", "SELECT * FROM t GROUP BY a, {R}",
    "SELECT * FROM t ORDER BY a, {R}", "SELECT a FROM t, {R}", "SELECT * FROM t JOIN u USING (a, {R})", "SELECT CAST(a AS {R})",
    "SELECT x OVER (PARTITION BY a, {R})", "SELECT STRUCT<a INT, {R}>(1)", "WITH {R} AS (SELECT 1) SELECT 1", "WITH a AS (SELECT 1), {R} SELECT 1",
    "ALTER TABLE t ADD COLUMN {R} INT", "ALTER TABLE t ADD COLUMN a INT, {R}", "UPDATE t SET a = 1, {R}", "MERGE INTO t USING u ON a WHEN MATCHED THEN UPDATE SET a = 1, {R}",
    "COPY t {R}", "COPY t FROM 'x' WITH ({R})", "GRANT {R} ON t TO u", "GRANT SELECT, {R} ON t TO u", "CREATE INDEX i ON t (a, {R})", "VALUES (1, {R}), ({R})",
    "SELECT * FROM t PIVOT(SUM(a) FOR b IN ({R}, 'x'))", "CREATE TABLE t (a INT) WITH (x = 1, {R})", "SET a = 1, {R}", "CALL p(1, {R})",
]


def gen_input(rng, gen: Gen, dialect_keywords=None, table_words=None):
    """returns (kind, sql)"""
    k = rng.random()
    if k < 0.1 and table_words:
        # a key of one of the dialect's dispatch tables in a continuation its parser does not expect
        w = rng.choice(table_words)
        sql = (rng.choice(KW_CONTEXTS) + rng.choice(KW_CONTINUATIONS)).replace("{K}", w)
        if rng.random() < 0.3:
            sql = gen.select() + " " + w + rng.choice(KW_CONTINUATIONS).replace("{K}", w)
        return "table-keyword", sql
    if k < 0.2:
        # reserved words / punctuation in element position of every list-shaped construct (_parse_csv element parsers)
        tpl = rng.choice(ELEMENT_TEMPLATES)
        pool = SOUP if dialect_keywords is None or rng.random() < 0.6 else dialect_keywords
        while "{R}" in tpl:
            tpl = tpl.replace("{R}", rng.choice(pool), 1)
        return "reserved-element", tpl
    k = rng.random()
    base = gen.statement()
    if k < 0.18:
        return "valid", base
    if k < 0.62:
        toks = split_tokens(base)
        for _ in range(rng.choice([1, 1, 1, 2, 3])):
            if not toks:
                break
            op = rng.choice(["delete", "insert", "swap", "duplicate", "replace"])
            i = rng.randrange(len(toks))
            if op == "delete":
                del toks[i]
            elif op == "insert":
                toks.insert(i, rng.choice(SOUP) if rng.random() < 0.7 else rng.choice(toks))
            elif op == "swap":
                j = rng.randrange(len(toks))
                toks[i], toks[j] = toks[j], toks[i]
            elif op == "duplicate":
                toks.insert(i, toks[i])
            else:
                toks[i] = rng.choice(SOUP)
        return "mutated", " ".join(toks)
    if k < 0.76:
        if rng.random() < 0.5:
            toks = split_tokens(base)
            return "truncated", " ".join(toks[: rng.randrange(len(toks) + 1)])
        return "truncated", base[: rng.randrange(len(base) + 1)]
    if k < 0.9:
        pool = SOUP if dialect_keywords is None or rng.random() < 0.5 else dialect_keywords
        return "soup", " ".join(rng.choice(pool) for _ in range(rng.randint(1, 14)))
    n = rng.randint(1, 12)
    parts = []
    for _ in range(n):
        q = rng.random()
        if q < 0.45:
            parts.append(rng.choice(UNI))
        elif q < 0.6:
            parts.append(chr(rng.choice([rng.randrange(0x20, 0x7F), rng.randrange(0xA0, 0x2FF), rng.randrange(0x2000, 0x2100), rng.randrange(0x4E00, 0x4F00)])))
        elif q < 0.8:
            parts.append(rng.choice(SOUP))
        else:
            parts.append(rng.choice([" ", "", " ", "\n"]))
    s = "".join(p + (" " if rng.random() < 0.4 else "") for p in parts)
    if rng.random() < 0.3:
        s = base[: rng.randrange(len(base) + 1)] + s
    return "unicode", s


_KW_CACHE: dict = {}


def case_variants(k: str) -> list:
    mixed = "".join(c.upper() if i % 2 else c.lower() for i, c in enumerate(k))
    out = []
    for v in (k, k.lower(), k.upper(), mixed, k.swapcase()):
        if v not in out:
            out.append(v)
    return out


TOK_CONTINUATIONS = ["", "AB'", "ab", " ", "'", '"', "`", "$", "\\", "\n", "1F'", "{K}", " x {K}", "]", "*/", "$x$"]


def tokenizer_delimiters(dialect) -> dict:
    """keys of the live tokenizer tables of this dialect: {"delims": quotes/format strings/identifiers/comments,
    "trie": keys of the keyword trie that are not plain words, "commands": spellings of COMMANDS / COMMAND_PREFIX_TOKENS,
    "keywords": every KEYWORDS key}"""
    *_, Dialect, _ = sg()
    tk = Dialect.get_or_raise(dialect or None).tokenizer_class
    delims = set()
    for name in ("_QUOTES", "_FORMAT_STRINGS", "_IDENTIFIERS", "_COMMENTS"):
        delims |= {k for k in (getattr(tk, name, {}) or {}) if isinstance(k, str) and k}
    kws = {k for k in (getattr(tk, "KEYWORDS", {}) or {}) if isinstance(k, str) and k}
    trie = {k for k in kws if not k.replace("_", "").isalnum()}
    inv: dict = {}
    for k, tt in (getattr(tk, "KEYWORDS", {}) or {}).items():
        if k and k.replace("_", "").isalnum():
            inv.setdefault(tt, k)
    commands = sorted({inv[t] for t in (getattr(tk, "COMMANDS", ()) or ()) if t in inv})
    prefixes = sorted({inv[t] for t in (getattr(tk, "COMMAND_PREFIX_TOKENS", ()) or ()) if t in inv} | {";"})
    return {"delims": sorted(delims), "trie": sorted(trie), "commands": commands, "prefixes": prefixes, "keywords": sorted(kws)}


def tokenizer_stream(dialect, rng, quick=True):
    """adversarial tokenizer inputs derived from the live tables: every delimiter / trie key in every letter case (the trie
    is case-insensitive, the dict lookups behind it are not), followed by end of input / a body / another delimiter"""
    t = tokenizer_delimiters(dialect)
    words = list(t["delims"]) + list(t["trie"]) + t["commands"]
    extra = [k for k in t["keywords"] if k not in set(words)]
    words += extra if not quick else rng.sample(extra, min(25, len(extra)))
    for k in words:
        for v in (case_variants(k)[:4] if quick else case_variants(k)):
            for cont in (TOK_CONTINUATIONS[:5] if quick else TOK_CONTINUATIONS):
                body = v + cont.replace("{K}", v)
                yield body
                yield "SELECT " + body
                if not quick:
                    yield "SELECT a" + body + " FROM t"


def tokenizer_stress(dialect, n=2000):
    """depth / length stress for the tokenizer-only phase: long repetitions of command keywords (nested command scanning),
    nesting openers and delimiters"""
    t = tokenizer_delimiters(dialect)
    for pre in t["prefixes"][:3]:
        for c in t["commands"][:6]:
            yield (pre + " " + c + " ") * n
    for c in t["commands"][:4]:
        yield (c + " ") * n
        yield (c + " x; ") * n
    for unit in ["(", "[", "{", "/*", "/* x */", "--\n", "CASE ", "SELECT (", "'", "''", '"', "$$", "$a$", "x.", "1e", "0x", "((a))", ";", "1_", "\\"]:
        yield unit * n
    for d in t["delims"][:12]:
        yield (d + " ") * n


def tokenize_only(sql, dialect):
    """tokenizer-only oracle: None if `tokenize` returns or raises a sqlglot error within its step budget"""
    *_, errors, _, _, Dialect, _ = sg()
    MON.install()
    MON.reset()
    MON.t_cap = K_TOKENIZE * (len(sql) + 1)
    try:
        with_watchdog(lambda: Dialect.get_or_raise(dialect or None).tokenize(sql))
        return None
    except errors.SqlglotError:
        return None
    except BaseException as e:  # noqa
        return type(e).__name__
    finally:
        MON.reset()


_TK_CACHE: dict = {}

KW_CONTEXTS = ["SELECT x {K}", "SELECT a FROM t WHERE x = 1 {K}", "SELECT a FROM t {K}", "SELECT * FROM a JOIN b ON a.x = b.x {K}",
               "SELECT x, y {K}", "SELECT (x) {K}", "{K}", "SELECT f(x {K}", "CREATE TABLE t (a INT {K}", "SELECT a FROM (SELECT 1) AS s {K}"]
KW_CONTINUATIONS = ["", " y", " (SELECT 1)", " NOT y", " LEFT JOIN c ON 1 = 1", " ,", " )", " = 1", " {K}", " FROM u", " (", " AND z"]


def table_keywords(dialect) -> dict:
    """{"specific": [...], "loop": [...], "all": [...]}: spellings of every key of every dispatch table / loop-driving token
    set of this dialect's parser class, read from the live tables (so a new entry is covered automatically).
    `specific` = keys of loop-driving tables that the dialect adds or overrides relative to the base parser."""
    if dialect in _TK_CACHE:
        return _TK_CACHE[dialect]
    _, _, parser, tokens, _, _, _, Dialect, _ = sg()
    d = Dialect.get_or_raise(dialect or None)
    pc, base = d.parser_class, parser.Parser
    spell: dict = {}
    tk = d.tokenizer_class
    for text, tt in list(getattr(tk, "SINGLE_TOKENS", {}).items()) + list(getattr(tk, "KEYWORDS", {}).items()):
        if not text or "\n" in text:
            continue
        old = spell.get(tt)
        # prefer alphabetic spellings, then short ones
        if old is None or (text[0].isalpha(), -len(text)) > (old[0].isalpha(), -len(old)):
            spell[tt] = text

    def txt(k):
        if isinstance(k, str):
            return k
        return spell.get(k)

    def orig(dct, k):
        for dd, kk, fn in MON.wrapped_tables:
            if dd is dct and kk == k:
                return fn
        return dct.get(k)

    entry_specific = set()
    allk, loop, specific = set(), set(), set()
    for table in DISPATCH_TABLES:
        dct = getattr(pc, table, None)
        if not isinstance(dct, dict):
            continue
        bdct = getattr(base, table, {}) or {}
        for k in dct:
            t_ = txt(k)
            if not t_:
                continue
            allk.add(t_)
            if table in ("STATEMENT_PARSERS", "FUNCTION_PARSERS", "NO_PAREN_FUNCTION_PARSERS", "PROPERTY_PARSERS", "CONSTRAINT_PARSERS") \
                    and pc is not base and (k not in bdct or orig(dct, k) is not orig(bdct, k)):
                entry_specific.add(t_)
            if table in LOOP_TABLES:
                loop.add(t_)
                if pc is not base and (k not in bdct or orig(dct, k) is not orig(bdct, k)):
                    specific.add(t_)
    for name in LOOP_TOKEN_SETS:
        st = getattr(pc, name, None)
        bst = getattr(base, name, None) or ()
        if st is None:
            continue
        for k in st:
            t_ = txt(k)
            if not t_:
                continue
            allk.add(t_)
            loop.add(t_)
            if pc is not base and k not in bst:
                specific.add(t_)
    _TK_CACHE[dialect] = {"specific": sorted(specific), "loop": sorted(loop), "all": sorted(allk), "entry_specific": sorted(entry_specific)}
    return _TK_CACHE[dialect]


def keyword_sweep(dialect, words, n_ctx=None, n_cont=None):
    for w in words:
        for ctx in KW_CONTEXTS[:n_ctx]:
            for cont in KW_CONTINUATIONS[:n_cont]:
                yield (ctx + cont).replace("{K}", w)


TRIE_TABLES = [("SHOW_PARSERS", "SHOW"), ("SET_PARSERS", "SET")]
_SEEN_TRIE_TABLES: set = set()


def trie_key_sweep(dialect, quick=True):
    """every key of every trie-driven lookup table of this dialect (read from the live tables), spelled as a quoted
    identifier / string token with whitespace variants (leading, trailing, doubled, tab, newline) and case variants, at
    statement start and mid-statement, whole and split across tokens"""
    *_, Dialect, _ = sg()
    d = Dialect.get_or_raise(dialect or None)
    pc, tk = d.parser_class, d.tokenizer_class
    idq = sorted((getattr(tk, "_IDENTIFIERS", {}) or {'"': '"'}).items())[:2]
    quotes = [(a_, b_) for a_, b_ in idq] + [("'", "'")]
    if quick:
        quotes = quotes[:1] + quotes[-1:]
    for table, head in TRIE_TABLES:
        dct = getattr(pc, table, None) or {}
        sig = (table, tuple(sorted(k for k in dct if isinstance(k, str))), tuple(quotes), type(d).parser_class._find_parser)
        if quick and sig in _SEEN_TRIE_TABLES:
            continue      # the same table with the same quote characters was already swept through another dialect
        _SEEN_TRIE_TABLES.add(sig)
        for key in sorted(k for k in dct if isinstance(k, str) and k):
            words = key.split(" ")
            variants = [key, key + " ", " " + key, "\t" + key, key + "\n", key.lower() + " ", "  ".join(words), "\t".join(words)]
            if len(words) > 1:
                variants += [" ".join(words[:-1]) + "  " + words[-1], words[0] + " ", "\n".join(words)]
            if not quick:
                variants += [key.title() + "  ", " " + key + " ", key + "\r\n", key.swapcase() + "\t"]
            else:
                variants = variants[:5] + variants[8:9]
            for v in variants:
                for qa, qb in quotes:
                    tokq = qa + v + qb
                    yield f"{head} {tokq}" + (" x = 1" if head == "SET" else "")
                    yield f"SELECT 1; {head} {tokq} FROM t"
                    if not quick:
                        yield f"{head} {tokq}" + ("" if head == "SET" else " x = 1")
                        yield f"{head} {tokq} LIKE 'a'"
            if len(words) > 1:
                for qa, qb in quotes[:1]:
                    # the key split across a quoted first word (with a blank inside the quotes) and plain further words
                    yield f"{head} {qa}{words[0]} {qb} " + " ".join(words[1:])
                    yield f"{head} {words[0]} {qa} " + " ".join(words[1:]) + qb
                    yield f"{head} " + " ".join(words[:-1])            # cut right after a PREFIX answer: end of chunk


BUILDER_LITERALS = ["''", "'%'", "'%Y-%m-%'", "'%d days, 100%'", "'%%'", "'a\\\\'", "'é%'", "'" + "%Y" * 40 + "'", "'%-'", "'{'"]
_LITERAL_PATTERNS = ("format_time", ".name", "is_string", "to_py", "_has_time_specifier", ".this[", ".text", "int(", "build_formatted_time")
_SEEN_BUILDERS: set = set()


def _inspects_literal(fn, depth=0) -> bool:
    import inspect
    try:
        src_ = inspect.getsource(fn)
    except Exception:  # noqa
        return False
    if any(p_ in src_ for p_ in _LITERAL_PATTERNS):
        return True
    if depth >= 1:
        return False
    g = getattr(fn, "__globals__", {})
    try:
        names = {n.id for n in ast.walk(ast.parse(src_.strip() if not src_.startswith(" ") else "if 1:\n" + src_)) if isinstance(n, ast.Name)}
    except Exception:  # noqa
        return False
    for nm in names:
        h = g.get(nm)
        if callable(h) and getattr(h, "__module__", "").startswith("sqlglot") and hasattr(h, "__code__") and _inspects_literal(h, depth + 1):
            return True
    # closures (build_formatted_time(...) returns an inner builder)
    for cell in (getattr(fn, "__closure__", None) or ()):
        try:
            h = cell.cell_contents
        except ValueError:
            continue
        if callable(h) and hasattr(h, "__code__") and _inspects_literal(h, depth + 1):
            return True
    return False


def builder_literal_sweep(dialect, quick=True):
    """function-call templates for every FUNCTIONS entry whose builder looks inside a string-literal argument (found by
    inspecting the live builder's source: format_time / .name / is_string / to_py / string indexing, one call level deep) and
    for every FUNCTION_PARSERS entry, with adversarial literals (empty, single / trailing / doubled `%`, trailing backslash,
    non-ASCII, very long) in each argument position.  A builder object shared by several dialects is swept once."""
    *_, Dialect, _ = sg()
    pc = Dialect.get_or_raise(dialect or None).parser_class
    origs = {(id(dd), kk): fn for dd, kk, fn in MON.wrapped_tables}
    for table in ("FUNCTIONS", "FUNCTION_PARSERS"):
        dct = getattr(pc, table, None) or {}
        for name in sorted(k for k in dct if isinstance(k, str) and k.replace("_", "").isalnum()):
            fn = origs.get((id(dct), name), dct[name])
            if id(fn) in _SEEN_BUILDERS:
                continue
            if table == "FUNCTIONS" and not _inspects_literal(fn):
                continue
            _SEEN_BUILDERS.add(id(fn))
            lits = BUILDER_LITERALS if not quick else BUILDER_LITERALS[:6]
            for i, lit in enumerate(lits):
                yield f"SELECT {name}({lit})"
                yield f"SELECT {name}(x, {lit})"
                if not quick:
                    yield f"SELECT {name}({lit}, x)"
                if "%" in lit and (not quick or i < 3):
                    yield f"SELECT {name}(x, y, {lit})"


DEGENERATE_TEXTS = ["", " ", "  ", "\t", "/* c */", "-- c", "INT", "int ", "SELECT", ";", "(", "a b", "1", "'"]
IDENT_POSITIONS = ["SELECT CAST(1 AS {Q})", "SELECT 1::{Q}", "CREATE TABLE t (c {Q})", "SELECT TRY_CAST(1 AS {Q})",
                   "CREATE FUNCTION f() RETURNS {Q} AS 'x'", "ALTER TABLE t ADD COLUMN c {Q}", "SELECT CAST(1 AS ARRAY<{Q}>)",
                   "SELECT * FROM {Q}", "SELECT {Q} FROM t", "SELECT {Q}.{Q} FROM t", "SELECT a AS {Q}", "CREATE TABLE {Q} (a INT)",
                   "SELECT CAST(1 AS STRUCT<a {Q}>)", "SELECT {Q}(1)", "DECLARE x {Q}", "SELECT CAST(1 AS {Q}(10))"]


def degenerate_identifier_sweep(dialect, quick=True):
    """quoted identifiers with degenerate texts (empty, blanks, comment-only, a keyword, punctuation, a lone quote) in every
    syntactic position that re-interprets identifier text — type positions (CAST / :: / column definitions / return types /
    nested types) and table / column / alias / function names — with the dialect's own quote characters"""
    *_, Dialect, _ = sg()
    tk = Dialect.get_or_raise(dialect or None).tokenizer_class
    quotes = sorted((getattr(tk, "_IDENTIFIERS", {}) or {'"': '"'}).items())
    texts = DEGENERATE_TEXTS[:9] if quick else DEGENERATE_TEXTS
    positions = IDENT_POSITIONS[:11] if quick else IDENT_POSITIONS
    for qa, qb in (quotes[:1] if quick else quotes):
        for tx in texts:
            if qb in tx:
                continue
            for pos in positions:
                yield pos.replace("{Q}", qa + tx + qb)


def element_words(dialect) -> list:
    """words that start a constraint / property / statement parser of this dialect, plus punctuation: what a list element
    parser may half-consume and give back"""
    *_, Dialect, _ = sg()
    pc = Dialect.get_or_raise(dialect or None).parser_class
    words = set()
    for table in ("CONSTRAINT_PARSERS", "PROPERTY_PARSERS", "SCHEMA_UNNAMED_CONSTRAINTS"):
        for k in getattr(pc, table, ()) or ():
            if isinstance(k, str) and k:
                words.add(k.split(" ")[0])
    words |= {"NOT", "NULL", ",", "(", ")", "/", "*", "SELECT", "FROM", "AS", "ON", "IN", "WITH", "CASE", "END", "BY", "SET", "VALUES", "."}
    return sorted(words)


def element_sweep(dialect, n_tpl=12):
    for tpl in ELEMENT_TEMPLATES[:n_tpl]:
        for w in element_words(dialect):
            yield tpl.replace("{R}", w)


def dialect_keywords(dialect):
    if dialect not in _KW_CACHE:
        *_, Dialect, _ = sg()
        d = Dialect.get_or_raise(dialect or None)
        kws = sorted(k for k in d.tokenizer_class.KEYWORDS if k and "\n" not in k)
        _KW_CACHE[dialect] = kws or SOUP
    return _KW_CACHE[dialect]



# ---- corpus of (mostly) valid statements for the systematic prefix sweep: every prefix that ends at a token boundary is
# tried (alone, followed by `; SELECT 2`, and preceded by `SELECT 1; `) — manual lookaheads (`self._tokens[self._index + k]`,
# `self._next`, text peeks, `_prev`-driven loops) fail exactly where a chunk ends
STATIC_CORPUS = [
    "SELECT x + 1 WINDOW w AS (PARTITION BY a ORDER BY b)",
    "SELECT RANK() OVER w, SUM(a) OVER (w ROWS BETWEEN UNBOUNDED PRECEDING AND CURRENT ROW) FROM t WINDOW w AS (PARTITION BY b), w2 AS (w ORDER BY c)",
    "SELECT a AS x, b y, c FROM t AS u (p, q) WHERE a BETWEEN 1 AND 2 AND b NOT IN (1, 2) OR c IS NOT DISTINCT FROM d",
    "SELECT CASE a WHEN 1 THEN 'x' WHEN 2 THEN 'y' ELSE 'z' END, CASE WHEN a > 1 THEN b END FROM t",
    "SELECT CAST(a AS DECIMAL(10, 2)), TRY_CAST(b AS ARRAY<STRUCT<x INT, y MAP<TEXT, INT>>>), c::TIMESTAMP WITH TIME ZONE FROM t",
    "SELECT a FROM t1 LEFT OUTER JOIN t2 ON t1.a = t2.a AND t1.b < t2.b CROSS JOIN t3 NATURAL FULL JOIN t4 USING (k)",
    "WITH RECURSIVE r (n) AS (SELECT 1 UNION ALL SELECT n + 1 FROM r WHERE n < 5), s AS MATERIALIZED (SELECT 2) SELECT * FROM r, s",
    "SELECT a, COUNT(*) FILTER (WHERE b > 1) FROM t GROUP BY ROLLUP (a, b), GROUPING SETS ((a), ()) HAVING COUNT(*) > 1 ORDER BY 2 DESC NULLS LAST LIMIT 10 OFFSET 5",
    "SELECT * FROM (SELECT a FROM t) AS s PIVOT (SUM(a) FOR b IN ('x' AS x1, 'y')) AS p UNPIVOT (v FOR k IN (c1, c2))",
    "SELECT a FROM t TABLESAMPLE BERNOULLI (10 PERCENT) REPEATABLE (42) AS u WHERE EXISTS (SELECT 1 FROM v WHERE v.a = u.a)",
    "SELECT INTERVAL '1' DAY + DATE '2020-01-01', EXTRACT(YEAR FROM d), TRIM(LEADING 'x' FROM s), SUBSTRING(s FROM 1 FOR 2), POSITION('a' IN s) FROM t",
    "SELECT a[1], b['k'], c.d.e, f(g => 1), ARRAY[1, 2], MAP(1, 2), STRUCT(1 AS a), (1, 2), x -> x + 1, (x, y) -> x + y FROM t",
    "SELECT a LIKE 'x%' ESCAPE '!', b ILIKE ANY ('x', 'y'), c SIMILAR TO 'z', d RLIKE 'r', e NOT LIKE ALL (ARRAY['q']) FROM t",
    "SELECT DISTINCT ON (a) a, b FROM t FOR UPDATE OF t NOWAIT",
    "SELECT 1 UNION ALL SELECT 2 INTERSECT DISTINCT SELECT 3 EXCEPT SELECT 4 ORDER BY 1 LIMIT 1",
    "(SELECT a FROM t ORDER BY a LIMIT 1) UNION (SELECT b FROM u) ORDER BY 1",
    "VALUES (1, 'a'), (2, 'b')",
    "INSERT INTO t (a, b) SELECT a, b FROM u ON CONFLICT (a) DO UPDATE SET b = EXCLUDED.b WHERE t.a > 1 RETURNING a, b",
    "INSERT INTO t VALUES (1, DEFAULT), (2, NULL)",
    "UPDATE t AS u SET a = 1, b = (SELECT MAX(c) FROM v) FROM w WHERE u.k = w.k RETURNING *",
    "DELETE FROM t USING u WHERE t.a = u.a AND u.b IS NULL RETURNING t.a",
    "MERGE INTO t USING (SELECT 1 AS a) AS s ON t.a = s.a WHEN MATCHED AND s.a > 1 THEN UPDATE SET a = s.a WHEN NOT MATCHED BY TARGET THEN INSERT (a) VALUES (s.a) WHEN NOT MATCHED BY SOURCE THEN DELETE",
    "CREATE TABLE IF NOT EXISTS db.t (a INT NOT NULL DEFAULT 0 PRIMARY KEY, b VARCHAR(10) UNIQUE REFERENCES u (b) ON DELETE CASCADE, c DECIMAL(10, 2) CHECK (c > 0), CONSTRAINT pk PRIMARY KEY (a, b), FOREIGN KEY (c) REFERENCES v (c)) PARTITION BY (a) COMMENT 'x'",
    "CREATE TABLE t AS SELECT 1 AS a WITH NO DATA",
    "CREATE OR REPLACE TEMPORARY VIEW v (a, b) AS SELECT 1, 2 WITH CHECK OPTION",
    "CREATE MATERIALIZED VIEW v AS SELECT a FROM t",
    "CREATE UNIQUE INDEX CONCURRENTLY IF NOT EXISTS i ON t USING btree (a ASC NULLS FIRST, LOWER(b)) INCLUDE (c) WHERE a > 1",
    "CREATE FUNCTION f(a INT, b TEXT DEFAULT 'x') RETURNS TABLE (c INT) LANGUAGE SQL IMMUTABLE AS 'SELECT 1'",
    "CREATE SCHEMA IF NOT EXISTS s AUTHORIZATION u",
    "CREATE SEQUENCE s START WITH 1 INCREMENT BY 2 MINVALUE 1 MAXVALUE 10 CYCLE",
    "ALTER TABLE t ADD COLUMN IF NOT EXISTS c INT DEFAULT 1, DROP COLUMN d CASCADE, ALTER COLUMN e SET DATA TYPE TEXT, RENAME COLUMN f TO g",
    "ALTER TABLE t ADD CONSTRAINT c FOREIGN KEY (a) REFERENCES u (a), DROP CONSTRAINT d, RENAME TO v",
    "ALTER TABLE t ADD PARTITION (dt = '2020') LOCATION 'x'",
    "DROP TABLE IF EXISTS a, b CASCADE",
    "TRUNCATE TABLE a, b RESTART IDENTITY CASCADE",
    "COPY t (a, b) FROM 's3://x' WITH (FORMAT CSV, HEADER TRUE, DELIMITER ',')",
    "COPY INTO t FROM 's3://x' FILE_FORMAT = (TYPE = CSV) CREDENTIALS = (AWS_KEY_ID = 'k')",
    "GRANT SELECT, INSERT (a) ON TABLE t TO ROLE r WITH GRANT OPTION",
    "REVOKE ALL PRIVILEGES ON t FROM u",
    "COMMENT ON TABLE t IS 'x'",
    "ANALYZE TABLE t COMPUTE STATISTICS FOR COLUMNS a, b",
    "EXPLAIN ANALYZE SELECT 1",
    "DESCRIBE EXTENDED db.t",
    "SHOW CREATE TABLE t",
    "USE CATALOG c",
    "SET x = 1, y = 'a'",
    "BEGIN TRANSACTION ISOLATION LEVEL SERIALIZABLE",
    "COMMIT AND CHAIN",
    "ROLLBACK TO SAVEPOINT s",
    "CALL p(1, a => 2)",
    "DECLARE x INT DEFAULT 1",
    "EXECUTE IMMEDIATE 'SELECT 1' USING 1 AS a",
    "KILL QUERY 5",
    "CACHE TABLE t AS SELECT 1",
    "LOAD DATA LOCAL INPATH 'x' OVERWRITE INTO TABLE t PARTITION (a = 1)",
    "PRAGMA table_info(t)",
    "SELECT a /* c1 */, b -- c2\n FROM t /*+ hint */",
    "SELECT $$x$$, $tag$ y $tag$, 'it''s', \"q\", `b`, [br], 1e3, 0x1F, .5, 1., 12abc",
    "SELECT * FROM t MATCH_RECOGNIZE (PARTITION BY a ORDER BY b MEASURES FIRST(x) AS f ONE ROW PER MATCH AFTER MATCH SKIP PAST LAST ROW PATTERN (A B+ C?) DEFINE A AS a > 1, B AS b < 2)",
    "SELECT a FROM t CONNECT BY PRIOR a = b START WITH a = 1",
    "SELECT JSON_OBJECT('a': 1, 'b' VALUE 2 NULL ON NULL), JSON_ARRAYAGG(a ORDER BY b), x -> 'a' ->> 'b' #> '{c}' FROM t",
    "SELECT ARRAY_AGG(DISTINCT a ORDER BY b DESC LIMIT 2), STRING_AGG(a, ',' ORDER BY b), LISTAGG(a, ',') WITHIN GROUP (ORDER BY b), PERCENTILE_CONT(0.5) WITHIN GROUP (ORDER BY a) FROM t",
    "SELECT a FROM t WHERE b = ANY (SELECT 1) AND c > ALL (ARRAY[1]) AND (d, e) IN ((1, 2)) AND f IS UNKNOWN",
    "SELECT IF(a, b, c), COALESCE(a, b), NULLIF(a, b), a ?: b, a ?? b, NOT a, -a, ~a, a || b, a % b, a DIV b, a << 1 FROM t",
    "FROM t SELECT a",
    "FROM t |> WHERE a > 1 |> SELECT a |> ORDER BY a |> LIMIT 1",
    "SELECT a FROM t AT TIME ZONE 'UTC'",
    "SELECT x AT TIME ZONE 'UTC', y COLLATE \"C\", CURRENT_DATE, CURRENT_TIMESTAMP(3), LOCALTIME FROM t",
    "SELECT * FROM UNNEST([1, 2]) WITH OFFSET AS o, LATERAL (SELECT 1) AS l, TABLE(f(1)) AS g, ROWS FROM (f(1), g(2))",
    "SELECT a FROM t FOR SYSTEM_TIME AS OF '2020' VERSION AS OF 1",
    "SELECT TOP 3 PERCENT WITH TIES a FROM t",
    "SELECT ALL a, * EXCEPT (b), * REPLACE (1 AS c), t.* EXCLUDE (d) RENAME (e AS f) FROM t",
    "SELECT a FROM t QUALIFY ROW_NUMBER() OVER (PARTITION BY a ORDER BY b) = 1",
    "SELECT a FROM t GROUP BY ALL ORDER BY ALL",
    "SELECT a FROM t ORDER BY a OFFSET 1 ROWS FETCH NEXT 2 ROWS ONLY",
    "SELECT a FROM t LIMIT 1, 2",
    "SELECT {d '2020-01-01'}, {fn CONCAT('a', 'b')}, ?, :p, @v, $1, {{x}}, @@g",
    "SELECT b'abc', x'1F', r'a\\b', N'x', e'\\n', U&'d\\0061t'",
    "IF a THEN SELECT 1",
    "WHILE a DO SELECT 1",
]

DIALECT_CORPUS = {
    "trino": [
        "WITH FUNCTION f(x int) RETURNS int BEGIN CASE x WHEN 1 THEN RETURN 1; WHEN 2 THEN RETURN 2; ELSE RETURN 3; END CASE; RETURN NULL; END SELECT f(1)",
        "WITH FUNCTION f(x int) RETURNS int BEGIN CASE WHEN x > 1 THEN RETURN 1; END CASE; RETURN 0; END SELECT f(1)",
        "WITH FUNCTION f(x int) RETURNS int BEGIN IF x > 1 THEN RETURN 1; ELSEIF x > 0 THEN RETURN 2; ELSE RETURN 3; END IF; END SELECT f(1)",
        "WITH FUNCTION f() RETURNS int BEGIN DECLARE i int DEFAULT 0; WHILE i < 3 DO SET i = i + 1; END WHILE; RETURN i; END SELECT f()",
        "WITH FUNCTION f() RETURNS int BEGIN DECLARE i int DEFAULT 0; top: LOOP SET i = i + 1; IF i > 3 THEN LEAVE top; END IF; ITERATE top; END LOOP; RETURN i; END SELECT f()",
        "WITH FUNCTION f() RETURNS int BEGIN DECLARE i int DEFAULT 0; REPEAT SET i = i + 1; UNTIL i > 3 END REPEAT; RETURN i; END SELECT f()",
        "WITH FUNCTION f(x int) RETURNS int RETURN x + 1 SELECT f(1)",
        "SELECT a FROM t CROSS JOIN UNNEST(b) WITH ORDINALITY AS u (c, n) WHERE TRY(CAST(a AS INTEGER)) IS NOT NULL",
        "SELECT JSON_QUERY(j, 'lax $.a' WITH ARRAY WRAPPER), JSON_VALUE(j, 'strict $.b' RETURNING INT DEFAULT 0 ON EMPTY) FROM t",
    ],
    "tsql": [
        "IF x = 1 BEGIN SELECT 1 END ELSE BEGIN SELECT 2 END", "WHILE @i < 3 BEGIN SET @i = @i + 1 END", "DECLARE @t TABLE (a INT), @x INT = 1",
        "CREATE PROCEDURE p @a INT = 1, @b VARCHAR(10) OUTPUT AS BEGIN SELECT @a END", "SELECT TOP 3 a FROM t WITH (NOLOCK) OPTION (RECOMPILE, MAXDOP 1)",
        "BEGIN TRY SELECT 1 END TRY BEGIN CATCH SELECT 2 END CATCH", "EXEC p @a = 1", "SELECT a FROM t FOR XML PATH('x'), ROOT('r')", "SELECT x = a, y = b FROM t",
        "CREATE TABLE t (a INT IDENTITY(1, 1), b AS (a + 1) PERSISTED, PERIOD FOR SYSTEM_TIME (s, e)) WITH (SYSTEM_VERSIONING = ON (HISTORY_TABLE = dbo.h))",
        "SELECT a FROM t CROSS APPLY f(a) OUTER APPLY g(a)", "INSERT INTO t OUTPUT INSERTED.a VALUES (1)", "SELECT CONVERT(VARCHAR(10), a, 120), a AT TIME ZONE 'UTC' FROM t",
        "ALTER TABLE t SET (SYSTEM_VERSIONING = OFF)", "GOTO lbl",
    ],
    "snowflake": [
        "CREATE OR REPLACE PROCEDURE p() RETURNS INT LANGUAGE SQL AS $$ BEGIN RETURN 1; END $$", "SELECT a:b.c::int, PARSE_JSON(x):y[0] FROM t, LATERAL FLATTEN(input => t.x, outer => TRUE) f",
        "COPY INTO t FROM @s/p FILE_FORMAT = (TYPE = CSV SKIP_HEADER = 1) PATTERN = '.*' ON_ERROR = CONTINUE", "SHOW TERSE TABLES LIKE 'x' IN SCHEMA s STARTS WITH 'a' LIMIT 1 FROM 'b'",
        "SELECT * FROM t SAMPLE BERNOULLI (10) SEED (1) QUALIFY ROW_NUMBER() OVER (ORDER BY a) = 1", "CREATE STAGE s URL = 's3://x' CREDENTIALS = (AWS_KEY_ID = 'k')",
        "ALTER SESSION SET x = 1", "SELECT * FROM t AT (TIMESTAMP => 'x'::timestamp) CHANGES (INFORMATION => DEFAULT)", "CREATE TABLE t (a INT AUTOINCREMENT START 1 INCREMENT 1, b VARIANT) CLUSTER BY (a)",
        "SELECT * FROM t MATCH_CONDITION (a > b)", "SELECT a FROM t ASOF JOIN u MATCH_CONDITION (t.a >= u.a) ON t.k = u.k", "SELECT * EXCLUDE (a) RENAME (b AS c) ILIKE '%x%' FROM t",
        "CREATE OR REPLACE TAG x ALLOWED_VALUES 'a'", "PUT file://x @s", "SELECT DATE_TRUNC('DAY', a), a LIKE ANY ('x') FROM t", "CREATE TABLE t CLONE u AT (OFFSET => -1)",
    ],
    "bigquery": [
        "SELECT * EXCEPT (a) REPLACE (1 AS b) FROM `p.d.t` WHERE a IN UNNEST([1, 2])", "CREATE TEMP FUNCTION f(x INT64) RETURNS INT64 AS (x + 1)", "DECLARE x, y INT64 DEFAULT 1",
        "SELECT ARRAY(SELECT AS STRUCT 1 AS a), STRUCT<a INT64>(1), SAFE_CAST(x AS INT64), x[OFFSET(0)], x[SAFE_ORDINAL(1)]",
        "SELECT a FROM t FOR SYSTEM_TIME AS OF TIMESTAMP_SUB(CURRENT_TIMESTAMP(), INTERVAL 1 HOUR)", "FROM t |> WHERE a > 1 |> AGGREGATE COUNT(*) AS c GROUP BY b |> EXTEND c + 1 AS d",
        "EXPORT DATA OPTIONS (uri = 'gs://x') AS SELECT 1", "CREATE TABLE t (a INT64 OPTIONS (description = 'x')) PARTITION BY DATE(b) CLUSTER BY a OPTIONS (k = 'v')",
        "SELECT a FROM t WINDOW w AS (PARTITION BY a)", "SELECT WITH DIFFERENTIAL_PRIVACY OPTIONS (epsilon = 1) a FROM t", "BEGIN SELECT 1; EXCEPTION WHEN ERROR THEN SELECT 2; END",
        "SELECT * FROM ML.PREDICT(MODEL m, TABLE t)", "SELECT FORMAT_DATE('%Y', d), PARSE_TIMESTAMP('%F', s), DATE_ADD(d, INTERVAL 1 DAY) FROM t",
    ],
    "clickhouse": [
        "SELECT a FROM t FINAL SAMPLE 0.1 OFFSET 0.5 PREWHERE b > 1 WHERE c GLOBAL NOT IN (SELECT 1) LIMIT 1 BY a LIMIT 2 SETTINGS max_threads = 1 FORMAT JSON",
        "CREATE TABLE t (a UInt8 CODEC(ZSTD(1)), b Nullable(String) DEFAULT 'x' TTL d + INTERVAL 1 DAY, INDEX i a TYPE minmax GRANULARITY 1) ENGINE = MergeTree ORDER BY (a) PARTITION BY b PRIMARY KEY a SETTINGS index_granularity = 1",
        "SELECT arrayMap(x -> x + 1, [1, 2]), {p: UInt8}, quantile(0.5)(a), sumIf(a, b), a.1, t.b.^c FROM t", "SELECT a FROM t ARRAY JOIN b AS c LEFT ARRAY JOIN d",
        "SELECT * FROM t GLOBAL ANY LEFT JOIN u USING (a) ASOF JOIN v ON t.a = v.a AND t.b >= v.b", "INSERT INTO t FORMAT Values", "ALTER TABLE t ON CLUSTER c DELETE WHERE a = 1",
        "ALTER TABLE t REPLACE PARTITION p FROM u", "CREATE DICTIONARY d (a UInt8) PRIMARY KEY a SOURCE(CLICKHOUSE(TABLE 't')) LIFETIME(MIN 0 MAX 1) LAYOUT(FLAT())",
        "SELECT a FROM t WITH FILL FROM 1 TO 2 STEP 1 INTERPOLATE (b AS b + 1)", "WITH 1 AS x SELECT x", "SELECT a FROM t GROUP BY a WITH ROLLUP WITH TOTALS",
        "ATTACH TABLE t", "SELECT CAST(a, 'UInt8'), a::Nullable(Int8), toTypeName(a) FROM t", "SELECT * APPLY(sum) EXCEPT(a) FROM t",
    ],
    "postgres": [
        "SELECT a FROM t WHERE b @> ARRAY[1] AND c ->> 'k' = 'v' AND d ~* 'x' AND e && f AND g <@ h", "INSERT INTO t VALUES (1) ON CONFLICT ON CONSTRAINT c DO NOTHING RETURNING *",
        "CREATE FUNCTION f() RETURNS int LANGUAGE plpgsql AS $$ BEGIN RETURN 1; END $$", "SELECT * FROM generate_series(1, 3) WITH ORDINALITY AS g(x, n)",
        "SELECT a::int[], b FROM t TABLESAMPLE SYSTEM (10) REPEATABLE (1)", "CREATE TABLE t (a int GENERATED ALWAYS AS IDENTITY, b text COLLATE \"C\", EXCLUDE USING gist (c WITH &&)) PARTITION BY RANGE (a)",
        "COMMENT ON COLUMN t.a IS 'x'", "SELECT a FROM t FOR NO KEY UPDATE OF t SKIP LOCKED", "SELECT a FROM ONLY t, LATERAL (SELECT 1) l", "CREATE TABLE p PARTITION OF t FOR VALUES FROM (1) TO (2)",
        "SELECT x IS JSON, y OVERLAPS z, a OPERATOR(pg_catalog.+) b, VARIADIC c FROM t", "SELECT $1, $2::text", "DO $$ BEGIN END $$", "VACUUM ANALYZE t", "LISTEN c",
    ],
    "mysql": [
        "SELECT a FROM t USE INDEX (i) IGNORE INDEX FOR JOIN (j) WHERE MATCH(a, b) AGAINST('x' IN BOOLEAN MODE) LOCK IN SHARE MODE", "INSERT IGNORE INTO t SET a = 1 ON DUPLICATE KEY UPDATE a = VALUES(a)",
        "CREATE TABLE t (a INT UNSIGNED AUTO_INCREMENT PRIMARY KEY, b ENUM('x', 'y') CHARACTER SET utf8 COLLATE utf8_bin, KEY k (b(10)), FULLTEXT INDEX f (b)) ENGINE=InnoDB DEFAULT CHARSET=utf8 AUTO_INCREMENT=5",
        "SHOW FULL TABLES FROM db LIKE 'x'", "SHOW INDEX FROM t", "SELECT GROUP_CONCAT(DISTINCT a ORDER BY b SEPARATOR ',') FROM t", "SET @x := 1, @@global.y = 2", "ALTER TABLE t MODIFY COLUMN a BIGINT FIRST, ADD INDEX i (a) USING BTREE",
        "SELECT a FROM t WHERE b MEMBER OF(c) XOR d AND e REGEXP 'x' AND f <=> g", "SELECT a FROM t STRAIGHT_JOIN u PARTITION (p0)", "REPLACE INTO t VALUES (1)", "SELECT CAST(a AS SIGNED), CONVERT(b USING utf8), CHAR(65 USING ascii) FROM t",
        "LOCK TABLES t WRITE", "SELECT SQL_CALC_FOUND_ROWS a FROM t LIMIT 1 OFFSET 2 FOR UPDATE", "DELETE t1, t2 FROM t1 INNER JOIN t2 WHERE t1.a = t2.a",
    ],
    "oracle": [
        "SELECT a FROM t START WITH a = 1 CONNECT BY NOCYCLE PRIOR a = b ORDER SIBLINGS BY a", "SELECT * FROM t WHERE ROWNUM <= 1 FETCH FIRST 1 ROWS WITH TIES", "SELECT a FROM t@dblink, TABLE(f(1)) WHERE x(+) = y",
        "SELECT * FROM XMLTABLE('/r' PASSING x COLUMNS a INT PATH 'a') t", "SELECT /*+ INDEX(t i) */ a FROM t SAMPLE (10) SEED (1)", "CREATE TABLE t (a NUMBER(10, 2) DEFAULT ON NULL 1, b VARCHAR2(10 CHAR)) TABLESPACE ts",
        "INSERT ALL INTO t VALUES (1) INTO u VALUES (2) SELECT 1 FROM dual", "SELECT LISTAGG(a, ',') WITHIN GROUP (ORDER BY b) OVER (PARTITION BY c), a BULK COLLECT INTO v FROM t", "SELECT JSON_TABLE(j, '$' COLUMNS (a INT PATH '$.a')) FROM t",
        "SELECT a FROM t PIVOT XML (SUM(b) FOR c IN (ANY))", "SELECT DBMS_RANDOM.VALUE, SYSDATE, s.NEXTVAL FROM dual",
    ],
    "spark": [
        "SELECT /*+ BROADCAST(t), REPARTITION(3) */ a, TRANSFORM(b, x -> x + 1) FROM t LATERAL VIEW OUTER EXPLODE(c) e AS d CLUSTER BY a", "CREATE TABLE t (a INT COMMENT 'x') USING PARQUET PARTITIONED BY (b) CLUSTERED BY (a) INTO 4 BUCKETS TBLPROPERTIES ('k'='v')",
        "INSERT OVERWRITE TABLE t PARTITION (b = 1, c) IF NOT EXISTS SELECT 1", "SELECT a FROM t DISTRIBUTE BY a SORT BY b", "CACHE LAZY TABLE t OPTIONS ('k' = 'v') AS SELECT 1", "REFRESH TABLE t", "SELECT * FROM t TABLESAMPLE (10 ROWS)",
        "ADD JAR x", "SELECT TRANSFORM(a, b) USING 'cat' AS (c, d) FROM t", "SELECT a FROM t WHERE b RLIKE 'x' AND c <=> d", "ALTER TABLE t ADD COLUMNS (a INT AFTER b)", "DESCRIBE FORMATTED t PARTITION (a = 1)", "SELECT 1Y, 2S, 3L, 4.0BD, 5D, 6F",
    ],
    "duckdb": [
        "SELECT a, COLUMNS('x.*'), * EXCLUDE (b) FROM t POSITIONAL JOIN u QUALIFY ROW_NUMBER() OVER () = 1", "PIVOT t ON a IN ('x') USING SUM(b) GROUP BY c", "UNPIVOT t ON a, b INTO NAME n VALUE v",
        "SELECT {'a': 1}.a, [1, 2][1:2], x -> x + 1, MAP {1: 2}, a ** 2, a // 2, list_transform(l, x -> x) FROM t", "ATTACH 'x.db' AS x (READ_ONLY)", "SUMMARIZE SELECT 1", "SELECT * FROM t ASOF LEFT JOIN u USING (a)",
        "INSTALL x", "CREATE MACRO f(x, y := 1) AS x + y", "COPY t TO 'x' (FORMAT PARQUET, PARTITION_BY (a))", "SELECT * FROM read_csv('x', header = TRUE) USING SAMPLE 10%", "FROM t SELECT a WHERE b", "SELECT a FROM t GROUP BY ALL ORDER BY ALL LIMIT 10%",
        "CREATE TYPE e AS ENUM ('a', 'b')", "SELECT $1, ?, $p", "SELECT STRUCT_PACK(a := 1), UNION_VALUE(k := 1), a::STRUCT(x INT)[] FROM t",
    ],
    "hive": ["SELECT a FROM t LATERAL VIEW EXPLODE(b) e AS c WHERE d RLIKE 'x' CLUSTER BY a", "CREATE EXTERNAL TABLE t (a INT) ROW FORMAT DELIMITED FIELDS TERMINATED BY ',' STORED AS TEXTFILE LOCATION 'x'", "INSERT OVERWRITE DIRECTORY 'x' SELECT 1", "MSCK REPAIR TABLE t", "ALTER TABLE t SET SERDEPROPERTIES ('k' = 'v')"],
    "teradata": ["SEL a FROM t SAMPLE 10", "SELECT a FROM t QUALIFY RANK() OVER (ORDER BY a) = 1", "CREATE VOLATILE TABLE t AS (SELECT 1 AS a) WITH DATA PRIMARY INDEX (a) ON COMMIT PRESERVE ROWS", "LOCKING ROW FOR ACCESS SELECT a FROM t", "UPDATE t FROM u SET a = 1 WHERE t.k = u.k", "SELECT CAST(a AS DATE FORMAT 'YYYY-MM-DD'), b MOD 2, c ** 2 FROM t", "COLLECT STATISTICS ON t COLUMN (a)"],
    "redshift": ["CREATE TABLE t (a INT ENCODE ZSTD, b VARCHAR(MAX)) DISTSTYLE KEY DISTKEY(a) COMPOUND SORTKEY(a, b)", "UNLOAD ('SELECT 1') TO 's3://x' IAM_ROLE 'r' PARQUET", "SELECT APPROXIMATE COUNT(DISTINCT a) FROM t", "COPY t FROM 's3://x' IAM_ROLE 'r' CSV GZIP", "SELECT a.b[0].c FROM t AS a", "ALTER TABLE t ALTER SORTKEY (a)"],
    "sqlite": ["INSERT OR REPLACE INTO t VALUES (1)", "SELECT a FROM t WHERE b MATCH 'x' AND c GLOB 'y' AND d NOTNULL", "CREATE TABLE t (a INTEGER PRIMARY KEY AUTOINCREMENT, b TEXT) WITHOUT ROWID, STRICT", "ATTACH DATABASE 'x' AS y", "SELECT a FROM t INDEXED BY i LIMIT 1 OFFSET 2"],
    "databricks": ["SELECT a:b.c, a::int, TRY_CAST(b AS INT) FROM t", "CREATE TABLE t (a INT GENERATED ALWAYS AS IDENTITY) USING DELTA LOCATION 'x'", "OPTIMIZE t ZORDER BY (a)", "COPY INTO t FROM 'x' FILEFORMAT = CSV FORMAT_OPTIONS ('h' = 't') COPY_OPTIONS ('m' = 't')", "SELECT * FROM t VERSION AS OF 1", "DESCRIBE HISTORY t"],
    "doris": ["CREATE TABLE t (a INT) UNIQUE KEY (a) DISTRIBUTED BY HASH (a) BUCKETS 3 PROPERTIES ('k' = 'v')", "SELECT a FROM t PARTITION (p) TABLET (1)", "CREATE MATERIALIZED VIEW v BUILD IMMEDIATE REFRESH AUTO ON SCHEDULE EVERY 1 DAY AS SELECT 1"],
    "starrocks": ["CREATE TABLE t (a INT) PRIMARY KEY (a) DISTRIBUTED BY HASH (a) BUCKETS 3 ORDER BY (a) PROPERTIES ('k' = 'v')", "SELECT a FROM t, UNNEST(b) AS u(c)", "REFRESH MATERIALIZED VIEW v"],
    "presto": ["SELECT a FROM t CROSS JOIN UNNEST(b) WITH ORDINALITY AS u (c, n)", "SELECT TRY_CAST(a AS ROW(x INT, y ARRAY(VARCHAR))), ELEMENT_AT(m, 'k'), a IS DISTINCT FROM b FROM t", "SELECT * FROM t TABLESAMPLE SYSTEM (10)", "PREPARE p FROM SELECT ?", "EXECUTE p USING 1"],
    "athena": ["CREATE EXTERNAL TABLE t (a INT) PARTITIONED BY (b STRING) STORED AS PARQUET LOCATION 's3://x' TBLPROPERTIES ('k' = 'v')", "SELECT a FROM t CROSS JOIN UNNEST(b) AS u (c)", "UNLOAD (SELECT 1) TO 's3://x' WITH (format = 'PARQUET')", "MSCK REPAIR TABLE t"],
    "exasol": ["SELECT a FROM t WHERE b REGEXP_LIKE 'x' GROUP BY LOCAL.c", "CREATE TABLE t (a DECIMAL(18, 0) IDENTITY, b VARCHAR(10) UTF8, DISTRIBUTE BY a)", "SELECT a FROM t QUALIFY ROW_NUMBER() OVER (ORDER BY a) = 1 LIMIT 1"],
    "materialize": ["CREATE SOURCE s FROM KAFKA CONNECTION c (TOPIC 't') FORMAT JSON", "SELECT a FROM t AS OF 1", "SELECT MAP['a' => 1], LIST[1, 2]", "SUBSCRIBE TO t"],
    "risingwave": ["CREATE SOURCE s (a INT) WITH (connector = 'kafka') FORMAT PLAIN ENCODE JSON", "SELECT a FROM TUMBLE(t, ts, INTERVAL '1' MINUTE)", "CREATE SINK k FROM t WITH (connector = 'x')"],
    "singlestore": ["SELECT a::$b, c::%d, e :> INT, f !:> TEXT FROM t", "CREATE ROWSTORE TABLE t (a INT, SHARD KEY (a), SORT KEY (a))", "SELECT a FROM t WHERE b MATCH ANY 'x'", "CREATE PIPELINE p AS LOAD DATA S3 'x' INTO TABLE t"],
    "dune": ["SELECT 0xabcd, x'AB', X'CD' FROM t"],
    "drill": ["SELECT a FROM dfs.`x/y.json` AS t WHERE FLATTEN(b) IS NOT NULL"],
    "druid": ["SELECT FLOOR(__time TO HOUR), MV_TO_ARRAY(a) FROM t WHERE __time >= CURRENT_TIMESTAMP - INTERVAL '1' DAY"],
    "dremio": ["SELECT a FROM t AT BRANCH main", "SELECT TO_CHAR(a, 'yyyy'), CURRENT_DATE_UTC FROM t"],
    "fabric": ["SELECT TOP 1 a, CAST(b AS DATETIME2(6)) FROM t", "CREATE TABLE t (a VARCHAR(MAX), b UNIQUEIDENTIFIER)"],
    "solr": ["SELECT a FROM t WHERE b = 'x' OR c LIKE 'y' LIMIT 10"],
    "tableau": ["SELECT IF a THEN b ELSE c END, COUNTD(a), [x y] FROM t"],
    "prql": ["from t | filter a > 1 | derive {b = a + 1} | select {a, b} | sort {-a} | take 10", "from t | group {a} (aggregate {c = count this}) | join u (==a)"],
    "dax": ["EVALUATE SUMMARIZECOLUMNS('t'[a], \"x\", SUM('t'[b]))"],
}


# =========================================================================================== minimise + key
def skeleton(sql: str) -> str:
    _, _, _, tokens, *_ = sg()
    TT = tokens.TokenType
    toks = safe_base_tokenize(sql)
    if toks is None:
        return "raw:" + "".join(c if ord(c) < 128 and not c.isalnum() else ("w" if c.isalnum() else "u") for c in sql)[:80]
    out = []
    for t in toks:
        if t.token_type in (TT.VAR, TT.IDENTIFIER):
            out.append("id")
        elif t.token_type == TT.NUMBER:
            out.append("n")
        elif t.token_type in (TT.STRING, TT.NATIONAL_STRING, TT.RAW_STRING, TT.BYTE_STRING, TT.HEX_STRING, TT.BIT_STRING, TT.HEREDOC_STRING, TT.UNICODE_STRING):
            out.append("lit")
        else:
            out.append(t.text.upper())
    return " ".join(out)[:160]


def same_failure(a: dict, b: dict) -> bool:
    if a["exc"] in ("StepBudget", "Timeout", "RecursionError"):
        return (not b["ok"]) and a["phase"] == b["phase"] and a["exc"] == b["exc"]
    return (not b["ok"]) and a["phase"] == b["phase"] and a["exc"] == b["exc"] and a["frame"] == b["frame"] and a["parser_errors"] == b["parser_errors"]


def minimise(sql, dialect, level, write, verdict, max_runs=250, max_s=12.0):
    """delta-debug over token texts (then characters for short inputs) keeping the same failure signature"""
    runs = 0
    t_end = time.time() + max_s

    def bad(s):
        nonlocal runs
        runs += 1
        if os.environ.get("C05_DEBUG_DUMP"):
            print("min", runs, repr(s)[:100], dialect, level, write, flush=True)
        if time.time() > t_end:
            runs = max_runs
            return False
        return same_failure(verdict, run_pipeline(s, dialect, level, write))

    toks = split_tokens(sql)
    joined = " ".join(toks)
    if not toks or not bad(joined):
        toks = None
    if toks is not None:
        chunk = max(1, len(toks) // 2)
        while chunk >= 1 and runs < max_runs:
            i = 0
            changed = False
            while i < len(toks) and runs < max_runs:
                cand = toks[:i] + toks[i + chunk:]
                if cand and bad(" ".join(cand)):
                    toks = cand
                    changed = True
                else:
                    i += chunk
            if chunk == 1 and not changed:
                break
            chunk = max(1, chunk // 2) if not changed or chunk > 1 else 1
            if chunk == 1 and not changed:
                break
        sql = " ".join(toks)
    if len(sql) <= 40:
        i = 0
        while i < len(sql) and runs < max_runs:
            cand = sql[:i] + sql[i + 1:]
            if cand and bad(cand):
                sql = cand
            else:
                i += 1
    return sql


def finding_key(verdict: dict, dialect, skel: str | None) -> str:
    base = f"{verdict['phase']}|{verdict['exc']}|{verdict['frame']}"
    if skel is None:
        return base
    return f"{base}|{dialect or 'base'}|{skel}"


def loop_owner(sql, dialect, level, write, verdict) -> str:
    """the method that owns a spinning loop: deepest `_parse_*` frame common to the stacks at two different budgets"""
    common = list(verdict.get("stack") or [])
    # budgets that differ by a few units stop the spinning loop at different points of its body
    for scale in (1.37, 1.3707, 1.3719, 1.3731, 1.3747, 1.3761, 1.3779, 1.3803, 1.3817, 1.3841, 1.39, 1.41):
        b = run_pipeline(sql, dialect, level, write, scale=scale).get("stack") or []
        keep = []
        for x, y in zip(common, b):
            if x != y:
                break
            keep.append(x)
        common = keep
    for name in reversed(common):
        if name.split(".")[-1].startswith("_parse_") and name.split(".")[-1] not in GENERIC_PARSE_HELPERS:
            return name
    return verdict["frame"]


def known_prefix(chk: Check, prefix: str, ctx: dict) -> bool:
    """does a known-finding entry of this property match every key that starts with `prefix|`?  (lets the search skip
    delta-debugging for defects that are already recorded; the entry is still matched by core on the full key)"""
    import re
    for k in chk._known:
        if k.get("property") != chk.pid or k.get("kind") != "known":
            continue
        m = k.get("match", {})
        if "key_regex" in m and re.fullmatch(m["key_regex"], prefix + "|any|any", re.S):
            if all(ctx.get(ck) == cv for ck, cv in m.get("context", {}).items()):
                return True
    return False


def consider(chk: Check, sql, dialect, level, write, verdict, tag="search"):
    """turn a failing verdict into a (minimised, keyed) violation report"""
    ctx = {"phase": verdict["phase"], "parser_errors": bool(verdict["parser_errors"]), "level": level,
           "lenient": level != "IMMEDIATE"}
    if verdict["exc"] == "StepBudget" and verdict["phase"] == "parse":
        verdict = dict(verdict, frame=loop_owner(sql, dialect, level, write, verdict))
    prefix = finding_key(verdict, dialect, None)
    msql = sql
    if known_prefix(chk, prefix, ctx):
        key = prefix + f"|{dialect or 'base'}|unminimised"
    elif len(chk.violations) >= 4 or any(v["key"].startswith(prefix + "|") for v in chk.violations):
        key = prefix + f"|{dialect or 'base'}|unminimised"   # enough minimised replays already; keep the run short
    else:
        msql = minimise(sql, dialect, level, write, verdict, max_runs=(3 if verdict["exc"] == "Timeout" else 250))
        v2 = run_pipeline(msql, dialect, level, write)
        if same_failure(verdict, v2):
            if v2["exc"] == "StepBudget" and v2["phase"] == "parse":
                v2 = dict(v2, frame=loop_owner(msql, dialect, level, write, v2))
            verdict = v2
        else:
            msql = sql
        key = finding_key(verdict, dialect, skeleton(msql))
    shown = repr(msql) if len(msql) <= 300 else repr(msql[:300]) + f"… ({len(msql)} characters, full text in the replay)"
    what = (f"{verdict['phase']} of {shown} (dialect={dialect or 'base'}, error_level={level}"
            f"{', write=' + str(write) if write is not None else ''}) "
            + (f"did not finish within its budget: {verdict['msg']}" if verdict["exc"] in ("StepBudget", "Timeout", "RecursionError")
               else f"leaked {verdict['exc']}: {verdict['msg']} [in {verdict['frame']}]"))
    chk.report_violation(key, what, {"sql": msql, "dialect": dialect, "level": level, "write": write, "original": sql if sql != msql else None,
                                     "expect": {"phase": verdict["phase"], "exc": verdict["exc"], "frame": verdict["frame"]}}, ctx)


# =========================================================================================== correspondence (A)
TOKMAP = ["L_PAREN", "R_PAREN", "COMMA", "VAR", "NUMBER", "SELECT", "FROM", "DOT", "STAR", "STRING"]


def rand_prog(rng, depth=0, wf=False):
    """random combinator program (JSON shape shared with the Lean driver)"""
    leafs = ["eps", "nothing", "tok", "tokSet", "peek", "pair", "anyTok", "fail", "textSeq", "textSeq", "restOfChunk", "peekAt", "peekAt"] + ([] if wf else ["advance"])
    if depth >= 4 or rng.random() < 0.3:
        k = rng.choice(leafs)
        if k in ("tok", "peek"):
            return [k, rng.randrange(len(TOKMAP))]
        if k == "tokSet":
            return [k, sorted(set(rng.randrange(len(TOKMAP)) for _ in range(rng.randint(0, 3))))]
        if k == "pair":
            return [k, rng.randrange(len(TOKMAP)), rng.randrange(len(TOKMAP))]
        if k == "textSeq":
            return [k, [rng.randrange(9) for _ in range(rng.randint(0, 3))], rng.random() < 0.7]
        if k == "peekAt":
            return [k, rng.randint(0, 3), rng.randrange(len(TOKMAP)), "strict" if wf else rng.choice(["strict", "strict", "offByOne", "none"])]
        return [k]
    k = rng.choice(["andThen", "both", "orElse", "attempt", "tryParse", "tryParse", "csv", "csv", "wrapped", "wrapped", "many",
                    "ifTok", "tableLoop", "tableLoop", "optionLoop"])
    if k == "optionLoop":
        body = rand_prog(rng, depth + 1, wf)
        if wf or rng.random() < 0.7:
            body = rng.choice([["tokSet", sorted(set(rng.randrange(len(TOKMAP)) for _ in range(rng.randint(1, 4))))], ["andThen", ["anyTok"], body]])
        mode = rng.choice(["skip", "breakAfterRaise"]) if wf else rng.choice(["skip", "breakAfterRaise", "relyOnRaise"])
        return [k, rng.choice([1, 1, 3]), body, mode]
    if k == "ifTok":
        return [k, sorted(set(rng.randrange(len(TOKMAP)) for _ in range(rng.randint(0, 3)))), rand_prog(rng, depth + 1, wf), rand_prog(rng, depth + 1, wf)]
    if k == "tableLoop":
        consume = rng.random() < 0.6
        body = rand_prog(rng, depth + 1, wf)
        if not consume and (wf or rng.random() < 0.8):
            body = ["andThen", ["anyTok"], body] if rng.random() < 0.5 else ["anyTok"]
        return [k, sorted(set(rng.randrange(len(TOKMAP)) for _ in range(rng.randint(1, 4)))), body, consume]
    if k in ("andThen", "both", "orElse"):
        return [k, rand_prog(rng, depth + 1, wf), rand_prog(rng, depth + 1, wf)]
    if k == "attempt":
        return [k, rand_prog(rng, depth + 1, wf)]
    if k == "tryParse":
        return [k, rand_prog(rng, depth + 1, wf), rng.random() < 0.3]
    if k == "csv":
        return [k, rand_prog(rng, depth + 1, wf), rng.choice([2, 2, 2, 7, 3])]
    if k == "wrapped":
        return [k, rand_prog(rng, depth + 1, wf), rng.random() < 0.4]
    body = rand_prog(rng, depth + 1, wf)
    if wf or rng.random() < 0.8:
        body = ["andThen", ["tokSet", sorted(set(rng.randrange(len(TOKMAP)) for _ in range(rng.randint(1, 4))))], body] if rng.random() < 0.7 else ["anyTok"]
    return [k, body]


class Diverged(Exception):
    pass


def interp(psr, prog, fuel, TT):
    """the combinator idioms written with the REAL Parser primitives; returns None / falsy / truthy Python values"""
    k = prog[0]
    if k == "eps":
        return True
    if k == "nothing":
        return None
    if k == "tok":
        return psr._match(TT[prog[1]])
    if k == "tokSet":
        return psr._match_set({TT[i] for i in prog[1]})
    if k == "peek":
        return psr._match(TT[prog[1]], advance=False)
    if k == "pair":
        return psr._match_pair(TT[prog[1]], TT[prog[2]])
    if k == "anyTok":
        if psr._curr:
            psr._advance()
            return psr._prev
        return None
    if k == "advance":
        return psr._advance()
    if k == "fail":
        return psr.raise_error("expected something")
    if k == "andThen":
        x = interp(psr, prog[1], fuel, TT)
        if not x:
            return None
        return interp(psr, prog[2], fuel, TT)
    if k == "both":
        interp(psr, prog[1], fuel, TT)
        interp(psr, prog[2], fuel, TT)
        return True
    if k == "orElse":
        return interp(psr, prog[1], fuel, TT) or interp(psr, prog[2], fuel, TT)
    if k == "attempt":
        index = psr._index
        x = interp(psr, prog[1], fuel, TT)
        if not x:
            psr._retreat(index)
        return x
    if k == "tryParse":
        return psr._try_parse(lambda: interp(psr, prog[1], fuel, TT), retreat=prog[2])
    if k == "csv":
        return psr._parse_csv(lambda: interp(psr, prog[1], fuel, TT), sep=TT[prog[2]])
    if k == "wrapped":
        return psr._parse_wrapped(lambda: interp(psr, prog[1], fuel, TT), optional=prog[2])
    if k == "textSeq":
        return psr._match_text_seq(*[TOKMAP[i] for i in prog[1]], advance=prog[2])
    if k == "peekAt":
        j = psr._index + prog[1]
        ok = {"strict": j < psr._tokens_size, "offByOne": not (j > psr._tokens_size), "none": True}[prog[3]]
        return ok and psr._tokens[j].token_type == TT[prog[2]]
    if k == "optionLoop":
        n = 0
        while True:
            if n >= fuel:
                raise Diverged()
            n += 1
            if not (psr._curr and not psr._match(TT[prog[1]])):
                break
            x = interp(psr, prog[2], fuel, TT)
            if x:
                continue
            if prog[3] == "skip":
                if psr._curr:
                    psr._advance()
            elif prog[3] == "breakAfterRaise":
                psr.raise_error("expected an option")
                break
            else:
                psr.raise_error("expected an option")
        return True
    if k == "restOfChunk":
        while psr._curr:
            psr._advance()
        return True
    if k == "ifTok":
        if psr._match_set({TT[i] for i in prog[1]}):
            return interp(psr, prog[2], fuel, TT)
        return interp(psr, prog[3], fuel, TT)
    if k == "tableLoop":
        keys = {TT[i] for i in prog[1]}
        acc = False
        n = 0
        while True:
            if n >= fuel:
                raise Diverged()
            n += 1
            if psr._match_set(keys, advance=prog[3]):
                x = interp(psr, prog[2], fuel, TT)
                if not x:
                    return acc
                acc = True
            else:
                break
        return acc
    if k == "many":
        items = []
        n = 0
        while True:
            if n >= fuel:
                raise Diverged()
            n += 1
            x = interp(psr, prog[1], fuel, TT)
            if not x:
                break
            items.append(x)
        return items
    raise HarnessError(f"bad program {prog}")


def run_real_prog(prog, toks_ids, level, fuel):
    _, _, parser, tokens, errors, *_ = sg()
    TT = [tokens.TokenType[n] for n in TOKMAP]
    toks = [tokens.Token(TT[i], text=TOKMAP[i].lower(), line=1, col=j + 1, start=j, end=j) for j, i in enumerate(toks_ids)]
    psr = parser.Parser(error_level=errors.ErrorLevel[level])
    psr.reset()
    psr.sql = " " * (len(toks) + 1)
    psr._chunks = [toks]
    psr._chunk_index = 0
    psr._advance_chunk()
    MON.install()
    MON.reset()
    MON.p_cap = 20000
    MON.w_cap = 60000
    try:
        try:
            v = with_watchdog(lambda: interp(psr, prog, fuel, TT), 5.0)
            out = "ret none" if v is None else ("ret truthy" if v else "ret falsy")
        except errors.ParseError:
            out = "raised"
        except Diverged:
            out = "diverged"
        except (StepBudget, _Watchdog):
            out = "diverged"
        except Exception as e:  # noqa
            out = "internal"
        steps = MON.p_steps
    finally:
        MON.reset()
    if out == "diverged":
        return "diverged"
    return f"{out} idx={psr._index} steps={steps} errs={len(psr.errors)} lvl={psr.error_level.name}"


def correspond_programs(chk: Check) -> list:
    rng = chk.rng
    n = chk.pick(2500, 40000)
    cases, lines, expect = [], [], []
    # hand-written boundary programs first
    fixed = [
        (["csv", ["tok", 3], 2], [3, 2, 3, 2], "RAISE"),
        (["orElse", ["csv", ["fail"], 7], ["pair", 9, 7]], [7, 2], "IGNORE"),
        (["wrapped", ["csv", ["tok", 3], 2], False], [0, 3, 2, 3], "WARN"),
        (["wrapped", ["tok", 3], False], [3], "IMMEDIATE"),
        (["tryParse", ["andThen", ["tok", 3], ["fail"]], False], [3, 3], "RAISE"),
        (["tryParse", ["tok", 3], True], [3, 3], "IGNORE"),
        (["both", ["tok", 3], ["advance"]], [3], "RAISE"),
        (["tryParse", ["both", ["tok", 3], ["both", ["advance"], ["advance"]]], False], [3, 4], "WARN"),
        (["many", ["eps"]], [3], "RAISE"),
        (["attempt", ["andThen", ["tok", 3], ["tok", 4]]], [3, 3], "RAISE"),
        (["textSeq", [3, 4, 5], True], [3, 4, 6], "RAISE"),
        (["textSeq", [3, 4], False], [3, 4, 6], "WARN"),
        (["tableLoop", [7], ["tok", 3], True], [7, 3, 7, 3, 7], "RAISE"),
        (["tableLoop", [7], ["attempt", ["andThen", ["tok", 7], ["tok", 3]]], False], [7, 3, 7, 4], "IGNORE"),
        (["tableLoop", [7], ["eps"], False], [7, 3], "RAISE"),
        (["ifTok", [5], ["tok", 3], ["ifTok", [6], ["restOfChunk"], ["tok", 3]]], [6, 1, 1, 1], "RAISE"),
        (["both", ["restOfChunk"], ["restOfChunk"]], [3, 3], "IMMEDIATE"),
        (["both", ["tok", 9], ["peekAt", 3, 0, "offByOne"]], [9, 5, 6, 7], "IMMEDIATE"),
        (["both", ["tok", 0], ["optionLoop", 1, ["tok", 7], "skip"]], [0, 7, 9, 7, 1, 3], "WARN"),
        (["both", ["tok", 0], ["optionLoop", 1, ["tok", 7], "breakAfterRaise"]], [0, 7, 9, 7, 1, 3], "WARN"),
        (["optionLoop", 1, ["nothing"], "relyOnRaise"], [5], "RAISE"),
        (["optionLoop", 1, ["nothing"], "relyOnRaise"], [5], "IMMEDIATE"),
        (["both", ["tok", 9], ["peekAt", 3, 0, "strict"]], [9, 5, 6, 7], "RAISE"),
        (["tryParse", ["peekAt", 2, 3, "none"], False], [3], "WARN"),
        (["andThen", ["pair", 3, 4], ["anyTok"]], [3, 4], "RAISE"),
        (["csv", ["tryParse", ["andThen", ["tok", 3], ["andThen", ["tok", 3], ["fail"]]], False], 2], [3, 3, 2, 3], "WARN"),
    ]
    for prog, toks, lvl in fixed:
        cases.append((prog, toks, lvl, len(toks) + 1))
    for _ in range(n):
        wf = rng.random() < 0.6
        prog = rand_prog(rng, 0, wf)
        m = rng.choice([0, 1, 2, 3, 4, 5, 6, 8, 10, 14])
        weights = [3, 3, 4, 4, 2, 1, 1, 1, 1, 1]
        toks = rng.choices(range(len(TOKMAP)), weights=weights, k=m)
        lvl = rng.choice(LEVELS)
        fuel = len(toks) + 1   # the real _parse_csv has no cap; with size+1 the model's never runs out (csv_terminates)
        cases.append((prog, toks, lvl, fuel))
    kinds = {}
    for prog, toks, lvl, fuel in cases:
        lines.append(json.dumps({"op": "prog", "prog": prog, "toks": toks, "lvl": lvl, "fuel": fuel}))
        r = run_real_prog(prog, toks, lvl, fuel)
        expect.append(r)
        kk = r.split(" idx")[0]
        kinds[kk] = kinds.get(kk, 0) + 1
        chk.count("prog-outcome:" + kk)
        chk.case(("prog", prog, toks, lvl, fuel), nontrivial=len(json.dumps(prog)) > 20,
                 sample={"prog": prog, "toks": toks, "lvl": lvl, "real": r} if len(chk.samples) < 3 else None)
    got = chk.driver("C05", lines)
    chk.corr_cases += len(cases)
    bad = []
    for g, e, c in zip(got, expect, cases):
        if g != e:
            chk.correspondence_broken("combinator program on the real Parser primitives",
                                      {"prog": c[0], "toks": c[1], "lvl": c[2], "fuel": c[3], "model": g, "impl": e})
            bad.append(c)
    return bad


def correspond_find_parser(chk: Check) -> None:
    """Parser._find_parser on the REAL parser (real in_trie / new_trie) vs the Lean two-step lookup model, on random
    dicts and token texts with leading / trailing / repeated blanks, tabs and newlines"""
    _, _, parser, tokens, errors, *_ = sg()
    from sqlglot.trie import new_trie
    rng = chk.rng
    WORDS = ["A", "B", "C", "GLOBAL", "STATUS", "TERSE", "TABLES"]
    TEXTS = ["A", "B", "C", "A ", " A", "A  B", "A B", "A\tB", "A\nB", "", " ", "  ", "\t", "A B C", "B C", "GLOBAL", "GLOBAL ", "\tGLOBAL",
             "GLOBAL STATUS", "GLOBAL  STATUS", "STATUS", "TERSE TABLES", "TERSE  TABLES", "TERSE", "TABLES", " TABLES", "A B "]
    n = chk.pick(700, 8000)
    lines, expect, cases = [], [], []
    MON.install()
    for _ in range(n):
        keys = sorted({" ".join(rng.choice(WORDS) for _ in range(rng.choice([1, 1, 2, 2, 3]))) for _ in range(rng.randint(1, 5))})
        texts = [rng.choice(TEXTS) for _ in range(rng.randint(0, 4))]
        parsers = {k: (lambda self, _k=k: _k) for k in keys}
        toks = [tokens.Token(tokens.TokenType.IDENTIFIER, text=tx, line=1, col=j + 1, start=j, end=j) for j, tx in enumerate(texts)]
        psr = parser.Parser(error_level=errors.ErrorLevel.RAISE)
        psr.reset()
        psr.sql = " " * (len(toks) + 1)
        psr._chunks = [toks]
        psr._chunk_index = 0
        psr._advance_chunk()
        MON.reset()
        MON.p_cap = 1000
        try:
            r = with_watchdog(lambda: psr._find_parser(parsers, new_trie(k.split(" ") for k in parsers)), 5.0)
            out = "none" if r is None else "found " + json.dumps(r(psr))
        except KeyError as e:
            out = "keyerror " + json.dumps(e.args[0])
        except IndexError:
            out = "indexerror"
        except BaseException as e:  # noqa
            out = "other " + type(e).__name__
        finally:
            MON.reset()
        lines.append(json.dumps({"op": "find", "keys": keys, "toks": texts}))
        expect.append(out)
        cases.append((keys, texts))
        chk.count("find-outcome:" + out.split(" ")[0])
        chk.case(("find", keys, texts), nontrivial=len(texts) > 0)
    got = chk.driver("C05", lines)
    chk.corr_cases += len(lines)
    for g, e, c in zip(got, expect, cases):
        if g != e:
            chk.correspondence_broken("Parser._find_parser vs the two-step lookup model", {"keys": c[0], "token_texts": c[1], "model": g, "impl": e})


def correspond_format_scan(chk: Check) -> None:
    """sqlglot.parsers.mysql._has_time_specifier on the real code vs the guarded `%`-walk model, on adversarial format strings"""
    import random
    try:
        from sqlglot.parsers import mysql as mysql_parsers
        real, spec = mysql_parsers._has_time_specifier, "".join(sorted(mysql_parsers.TIME_SPECIFIERS))
    except Exception as e:  # noqa
        chk.broken.append({"kind": "translator", "what": f"C05: sqlglot.parsers.mysql._has_time_specifier / TIME_SPECIFIERS not found ({e})"})
        return
    rng = random.Random(f"C05fmt:{chk.seed}")
    fixed = ["", "%", "%%", "%Y-%m-%", "%d days, 100%", "%H", "a%", "%%%", "%Y %H:%i", "100%%", "é%", "%é", "%" * 7, "%Y" * 50 + "%"]
    strings = fixed + ["".join(rng.choice("%%%YmdHis- a") for _ in range(rng.randint(0, 9))) for _ in range(chk.pick(500, 5000))]
    lines, expect = [], []
    for st in strings:
        try:
            out = "true" if real(st) else "false"
        except IndexError:
            out = "indexerror"
        except Exception as e:  # noqa
            out = "other " + type(e).__name__
        lines.append(json.dumps({"op": "fmt", "s": st, "spec": spec}))
        expect.append(out)
        chk.case(("fmt", st), nontrivial="%" in st)
    got = chk.driver("C05", lines)
    chk.corr_cases += len(lines)
    for g, e, st in zip(got, expect, strings):
        if g != e:
            chk.correspondence_broken("mysql._has_time_specifier vs the guarded %-walk model", {"format": st, "model": g, "impl": e})


# =========================================================================================== correspondence (B), (C)
def token_type_ids():
    _, _, _, tokens, *_ = sg()
    names = [t.name for t in tokens.TokenType]
    order = ["L_PAREN", "R_PAREN", "COMMA"] + [n for n in names if n not in ("L_PAREN", "R_PAREN", "COMMA")]
    return {n: i for i, n in enumerate(order)}


def correspond_activations(chk: Check) -> list:
    """real parses with every _try_parse/_parse_csv/_parse_wrapped activation recorded, replayed through the model"""
    _, exp, parser, tokens, errors, generator, tc, Dialect, _ = sg()
    rng = chk.rng
    gen = Gen(rng)
    ids = token_type_ids()
    dialects = all_dialects()
    n_inputs = chk.pick(400, 4000)
    lines, expect, meta = [], [], []
    bad_inputs = []
    contract_bad = 0
    MON.install()
    n_acts = {"try": 0, "csv": 0, "wrapped": 0}
    scan_lines, scan_expect, scan_meta = [], [], []
    rewinds_seen = {}
    t_start = time.time()
    sweep: list = []
    for ii in range(n_inputs):
        d = rng.choice(dialects)
        lvl = rng.choice(LEVELS)
        kind, sql = gen_input(rng, gen, dialect_keywords(d), table_keywords(d)["all"])
        if time.time() - t_start > chk.pick(45, 600) or chk.corr_disagreements >= 5:
            chk.note(f"activation monitoring stopped early after {ii} inputs")
            break
        if not sweep:
            # list-shaped constructs with a constraint keyword in element position (the `_parse_csv` element parsers that
            # half-consume and give back): all of them, first
            sweep.extend(t.replace("{R}", w) for t in ELEMENT_TEMPLATES[:12]
                         for w in ["NOT", "NULL", "DEFAULT", "PRIMARY", "CHECK", "UNIQUE", "REFERENCES", "CONSTRAINT", ",", ")", "AS", "COLLATE"])
        if ii < len(sweep):
            sql, d = sweep[ii], rng.choice(["", "", d])
        if ii % 9 == 0:
            sql = rng.choice(["SELECT 12abc, 1e, 3x FROM t", "SELECT $tag$ body $tag$, $1", "SELECT $a b$ x", "SELECT $9$", "SELECT $x", "SELECT 1_0f + 2d",
                              "SELECT $$ a $$ || $t$b$t$", "$", "$a", "$a$", "1a", "1a 2b$c$", "SELECT 0xfg, 0b12, 1.e5x"]) + (" " + sql if rng.random() < 0.5 else "")
        dd = Dialect.get_or_raise(d or None)
        # ---- (C) tokenizer trace
        MON.reset()
        MON.ttrace = []
        MON.t_cap = 50 * (len(sql) + 2)
        toks = None
        try:
            toks = with_watchdog(lambda: dd.tokenize(sql))
        except errors.SqlglotError:
            pass
        except (StepBudget, _Watchdog):
            pass
        except Exception:  # noqa
            pass
        trace = MON.ttrace
        MON.ttrace = None
        MON.reset()
        passes = []
        for rec in trace:
            if rec[0] == "<tokenize>":
                passes.append({"size": rec[1], "iters": [], "last": 0, "ok": True})
                continue
            if not passes:
                passes.append({"size": len(sql), "iters": [], "last": 0, "ok": True})
            ps = passes[-1]
            caller, i, before, after, start = rec
            iters = ps["iters"]
            if caller == "_scan":
                blanks = start - before if start > before else 0
                if before != ps["last"] and iters:
                    # forward assignment between two _advance calls (find fast path of _extract_string)
                    iters[-1]["m"].append(before - ps["last"])
                it = {"c": before, "b": blanks, "m": []}
                iters.append(it)
                exp_after = before + (blanks if blanks > 0 else 1)
                if after != exp_after:
                    it["m"].append(after - exp_after)
                ps["last"] = after
                continue
            if not iters:
                ps["ok"] = False
                continue
            if before != ps["last"]:
                iters[-1]["m"].append(before - ps["last"])
            iters[-1]["m"].append(i)
            if i < 0:
                rewinds_seen[caller] = rewinds_seen.get(caller, 0) + 1
            if after != before + i:
                iters[-1]["m"].append(after - before - i)   # alnum fast loop
            ps["last"] = after
        for ps in passes:
            if ps["ok"] and ps["iters"]:
                scan_lines.append(json.dumps({"op": "scan", "size": ps["size"], "start": ps["iters"][0]["c"],
                                              "iters": [[it["b"], it["m"]] for it in ps["iters"]]}))
                # what really happened: final _current and number of iterations
                scan_expect.append(f"ok current={ps['last']} iters={len(ps['iters'])}")
                scan_meta.append((d, sql))
        # ---- (B) parser activations
        if toks is None:
            continue
        MON.reset()
        MON.acts = []
        MON._tokens_by_id = {}
        MON.p_cap = 4000 * (len(toks) + 2)
        MON.w_cap = 20000 * (len(toks) + 2)
        p = dd.parser(error_level=errors.ErrorLevel[lvl])
        outcome = "ok"
        try:
            with_watchdog(lambda: p.parse(toks, sql))
        except errors.SqlglotError:
            outcome = "sqlglot"
        except (StepBudget, _Watchdog):
            outcome = "budget"
        except RecursionError:
            outcome = "recursion"
        except Exception:  # noqa
            outcome = "internal"
        for b in MON.table_breaches[:2]:
            chk.correspondence_broken("dispatch-table entry returned a truthy result without progress (hypothesis of table_loop_terminates)",
                                      {"sql": sql, "dialect": d, "level": lvl, **b})
            bad_inputs.append((sql, d, lvl))
        acts = MON.acts
        tokmap = MON._tokens_by_id
        MON.acts = None
        MON._tokens_by_id = {}
        MON.reset()
        chk.count("parse-outcome:" + outcome)
        chk.case(("act", d, lvl, sql), nontrivial=len(acts) > 0,
                 sample={"dialect": d, "level": lvl, "sql": sql, "activations": len(acts)} if ii % 97 == 0 else None)
        cur_tok_id = None
        for a in acts:
            n_acts[a["kind"]] += 1
            tl = tokmap.get(a["toks"], [])
            size = len(tl)
            # ---- contracts (hypotheses of the *_any_method theorems), checked directly on the real activation
            problems = []
            if a["out"] not in ("internal", "budget") and not (a["i0"] <= size and a["i1"] <= size):
                problems.append("cursor out of range")
            if a["kind"] == "try":
                if (a["out"] in ("none", "falsy") or a["rt"]) and a["i1"] != a["i0"]:
                    problems.append("_try_parse returned a falsy value / retreat=True with the cursor moved")
                if a["lvl1"] != a["lvl0"]:
                    problems.append("_try_parse did not restore error_level")
                if a["out"] == "raised":
                    problems.append("_try_parse raised ParseError")
            for e in a["inner"]:
                if e["out"] not in ("internal", "raised") and e["i1"] < e["i0"]:
                    problems.append("element / body method moved the cursor backwards")
            if a["kind"] != "try" and a["out"] not in ("internal", "raised", "budget") and a["i1"] < a["i0"]:
                problems.append("cursor moved backwards")
            if problems:
                contract_bad += 1
                chk.correspondence_broken("cursor contract on the real parser: " + "; ".join(sorted(set(problems))),
                                          {"sql": sql, "dialect": d, "level": lvl, "activation": {k: v for k, v in a.items() if k != "toks"}})
                bad_inputs.append((sql, d, lvl))
                continue
            if a["out"] in ("internal", "budget") or any(e["out"] == "internal" for e in a["inner"]):
                continue  # leaks / exhausted budgets are the search oracle's business; the model glue is compared on the rest
            # ---- replay through the model glue
            if cur_tok_id != a["toks"]:
                cur_tok_id = a["toks"]
                lines.append(json.dumps({"op": "tokens", "toks": [ids[t.token_type.name] for t in tl]}))
                expect.append("ok")
                meta.append(None)
            rec = {"op": "act", "kind": a["kind"], "i0": a["i0"], "lvl": a["lvl0"],
                   "inner": [[e["i0"], e["out"], e["i1"], e["steps"], e["lvl"], e["errs"]] for e in a["inner"]]}
            if a["kind"] == "try":
                rec["rt"] = a["rt"]
            elif a["kind"] == "csv":
                rec["sep"] = ids[a["sep"]]
            else:
                rec["optional"] = a["optional"]
            lines.append(json.dumps(rec))
            out = {"none": "ret none", "falsy": "ret falsy", "truthy": "ret truthy", "raised": "raised"}[a["out"]]
            # a csv result is a list: [] is falsy, never None
            expect.append(f"{out} idx={a['i1']} steps={a['steps']} errs={a['errs']} lvl={a['lvl1']}")
            meta.append((sql, d, lvl, a))
    for k, v in n_acts.items():
        chk.count("activation:" + k, v)
    for k, v in rewinds_seen.items():
        chk.count("tokenizer-rewind-in:" + k, v)
    chk.cov["activations_replayed"] = sum(1 for m in meta if m)
    chk.cov["contract_violations_on_real_activations"] = contract_bad
    chk.cov["scan_traces_replayed"] = len(scan_lines)
    # rewinds must come from the sites the translator found
    known_fns = {f for f, _ in getattr(chk, "_c05_rewind_sites", set())}
    for fn in rewinds_seen:
        if fn not in known_fns:
            chk.broken.append({"kind": "translator", "what": f"C05: observed a negative TokenizerCore._advance from {fn}, which the ast translator did not list"})
    got = chk.driver("C05", lines + scan_lines) if (lines or scan_lines) else []
    chk.corr_cases += len(lines) + len(scan_lines)
    for g, e, m in zip(got[: len(lines)], expect, meta):
        if g != e and m is not None:
            sql, d, lvl, a = m
            chk.correspondence_broken(f"{a['kind']} activation on the real parser vs model glue",
                                      {"sql": sql, "dialect": d, "level": lvl, "activation": {k: v for k, v in a.items() if k != "toks"},
                                       "model": g, "impl": e})
            bad_inputs.append((sql, d, lvl))
    for g, e, m in zip(got[len(lines):], scan_expect, scan_meta):
        if g != e:
            chk.correspondence_broken("TokenizerCore._scan position trace vs progress model",
                                      {"sql": m[1], "dialect": m[0], "model": g, "impl": e})
            bad_inputs.append((m[1], m[0], "RAISE"))
    return bad_inputs


# =========================================================================================== search
def search(chk: Check, hints: list, budget_s: float) -> None:
    rng = chk.rng
    gen = Gen(rng)
    dialects = all_dialects()
    t0 = time.time()
    tried = failing = 0
    MAXV = int(os.environ.get("C05_MAX_VIOLATIONS", "8"))
    gen_families: dict = {}
    breaches: dict = {}
    maxr = {"parse_lin": 0.0, "parse_quad": 0.0, "tok": 0.0, "gen": 0.0, "work": 0.0}
    corpus = []
    cdir = os.path.join(os.path.dirname(os.path.dirname(os.path.dirname(os.path.abspath(__file__)))), "corpus", "C05")
    if os.path.isdir(cdir):
        for fn in sorted(os.listdir(cdir)):
            if fn.endswith(".json"):
                try:
                    rec = json.load(open(os.path.join(cdir, fn)))
                    for r in rec if isinstance(rec, list) else [rec]:
                        corpus.append((r["sql"], r.get("dialect", ""), r.get("level", "IGNORE"), r.get("write")))
                except Exception as e:  # noqa
                    raise HarnessError(f"bad corpus file {fn}: {e}")

    def one(sql, d, lvl, write, kind):
        nonlocal tried, failing
        tried += 1
        if os.environ.get("C05_DEBUG_DUMP"):
            print("one", tried, round(time.time() - t0, 1), repr(sql)[:80], d, lvl, flush=True)
        v = run_pipeline(sql, d, lvl, write)
        n = v["n_tokens"]
        st = v["steps"]
        if "parse" in st:
            maxr["parse_lin"] = max(maxr["parse_lin"], st["parse"] / (n + 1))
            maxr["parse_quad"] = max(maxr["parse_quad"], st["parse"] / ((n + 1) ** 2))
        if "work" in st:
            maxr["work"] = max(maxr["work"], st["work"] / ((n + 1) ** 2))
        if "tokenize" in st:
            maxr["tok"] = max(maxr["tok"], st["tokenize"] / (len(sql) + 1))
        if "generate" in st and v.get("nodes"):
            maxr["gen"] = max(maxr["gen"], st["generate"] / (v["nodes"] + 1))
        chk.count("input:" + kind)
        chk.count("level:" + lvl)
        chk.count("verdict:" + ("ok" if v["ok"] else f"{v['phase']}-{v['exc']}"))
        chk.case(("s", sql, d, lvl, write), nontrivial=n > 2)
        for b in v.get("table_breaches") or []:
            breaches[(b["table"], b["key"], b["parser"])] = breaches.get((b["table"], b["key"], b["parser"]), 0) + 1
            if breaches[(b["table"], b["key"], b["parser"])] == 1:
                chk.correspondence_broken("dispatch-table entry returned a truthy result without progress (hypothesis of table_loop_terminates)",
                                          {"sql": sql, "dialect": d, "level": lvl, **b})
        if not v["ok"] and v["phase"] == "generate":
            fam = f"{v['exc']}|{v['frame']}|{'incomplete' if v['parser_errors'] else 'error-free'}"
            gen_families[fam] = gen_families.get(fam, 0) + 1
        if not v["ok"]:
            failing += 1
            consider(chk, sql, d, lvl, write, v)

    for sql, d, lvl in hints[:40]:
        for l2 in LEVELS:
            one(sql, d, l2, None, "hint")
    for sql, d, lvl, write in corpus:
        one(sql, d, lvl, write, "corpus")
    # deterministic sweep: every constraint / property keyword in element position of column lists and schema definitions
    for d in ["", rng.choice(dialects)]:
        for i, sql in enumerate(element_sweep(d, 8 if chk.quick else 12)):
            if len(chk.violations) >= MAXV:
                break
            one(sql, d, LEVELS[1 + (i % 3)], None, "element-sweep")
    # systematic prefix sweep of the statement corpus (every token position; chunk end right after the prefix)
    n_pre = 0
    for i, (sql, d) in enumerate(prefix_sweep(dialects, chk.quick)):
        if len(chk.violations) >= MAXV or time.time() - t0 > budget_s:
            break
        one(sql, d, LEVELS[i % 4], None, "prefix-sweep")
        n_pre += 1
    chk.cov["prefix_sweep_inputs"] = n_pre
    # the generator side: trees the parser returns at IGNORE for incomplete input (every k-th prefix of the corpus, parsed in
    # the base dialect) pushed through EVERY dialect's generator; leaks are tallied by crash-site family
    pre_all = [sql for j, (sql, d) in enumerate(prefix_sweep([""], True)) if d == "" and not sql.endswith("; SELECT 2")]
    step_k = max(1, len(pre_all) // chk.pick(90, 900))
    n_inc = 0
    for sql in pre_all[::step_k]:
        for d in dialects:
            if len(chk.violations) >= MAXV or time.time() - t0 > budget_s:
                break
            one(sql, "", "IGNORE", d, "incomplete-tree-generate")
            n_inc += 1
    chk.cov["incomplete_tree_generate_runs"] = n_inc
    # tokenizer-only phase: adversarial delimiter / keyword-case stream and length stress, per dialect, from the live tables
    n_tok = 0
    stress_dialects = dialects if not chk.quick else sorted({"", "dune"} & set(dialects)) + rng.sample(dialects, min(3, len(dialects)))
    for d in dialects:
        stream = list(tokenizer_stream(d, rng, chk.quick))
        if d in stress_dialects:
            stream += list(tokenizer_stress(d, chk.pick(2000, 3000)))
        for sql in stream:
            n_tok += 1
            if tokenize_only(sql, d) is not None and len(chk.violations) < MAXV:
                one(sql, d, "IMMEDIATE", None, "tokenizer-stream")
    chk.cov["tokenizer_stream_inputs"] = n_tok
    chk.count("input:tokenizer-only", n_tok)
    # deterministic sweep: every key that a dialect adds to / overrides in a loop-driving dispatch table (and, for the base
    # parser, every such key) after each left context, followed by each "wrong" continuation
    n_sweep = 0
    for d in dialects:
        tkw = table_keywords(d)
        words = tkw["loop"] if not d else tkw["specific"]
        if not chk.quick:
            words = tkw["all"] if not d else sorted(set(tkw["specific"]) | set(rng.sample(tkw["all"], min(25, len(tkw["all"])))))
        shape = (None, None) if not chk.quick else ((4, 5) if not d else (8, 5))
        for i, sql in enumerate(keyword_sweep(d, words, *shape)):
            if len(chk.violations) >= MAXV or time.time() - t0 > budget_s:
                break
            one(sql, d, LEVELS[i % 4], None, "keyword-sweep")
            n_sweep += 1
    # statement / function / property / constraint parsers a dialect adds or overrides: the keyword at statement start, as a
    # function head and in property / constraint position, cut off at every point of a short continuation
    ENTRY_FORMS = ["{K}", "{K} x", "{K} (", "{K} TABLE t", "{K} x (", "SELECT {K}(", "SELECT {K}(x", "SELECT {K}(x,", "SELECT {K}(x, y) FROM",
                   "CREATE TABLE t (a INT {K}", "CREATE TABLE t (a INT {K} (", "CREATE TABLE t (a INT) {K}", "CREATE TABLE t (a INT) {K} = (", "{K} f() RETURNS int BEGIN"]
    for d in dialects:
        for w in table_keywords(d)["entry_specific"]:
            for i, form in enumerate(ENTRY_FORMS[::2] + ENTRY_FORMS[-1:] if chk.quick else ENTRY_FORMS):
                if len(chk.violations) >= MAXV or time.time() - t0 > budget_s:
                    break
                one(form.replace("{K}", w), d, LEVELS[i % 4], None, "keyword-sweep")
                n_sweep += 1
    # quoted identifiers with degenerate texts in every position that re-interprets identifier text
    n_di = 0
    for d in dialects:
        for i, sql in enumerate(degenerate_identifier_sweep(d, chk.quick)):
            if len(chk.violations) >= MAXV or time.time() - t0 > budget_s:
                break
            one(sql, d, LEVELS[i % 4], None, "degenerate-identifier")
            n_di += 1
    chk.cov["degenerate_identifier_inputs"] = n_di
    # function builders that look inside a string-literal argument, with adversarial literals
    _SEEN_BUILDERS.clear()
    n_bl = 0
    for d in dialects:
        for i, sql in enumerate(builder_literal_sweep(d, chk.quick)):
            if len(chk.violations) >= MAXV or time.time() - t0 > budget_s:
                break
            one(sql, d, LEVELS[i % 4], None, "builder-literal")
            n_bl += 1
    chk.cov["builder_literal_inputs"] = n_bl
    # trie-driven lookups (SHOW / SET sub-parsers): every key as a quoted token with whitespace / case variants
    _SEEN_TRIE_TABLES.clear()
    for d in dialects:
        for i, sql in enumerate(trie_key_sweep(d, chk.quick)):
            if len(chk.violations) >= MAXV or time.time() - t0 > budget_s:
                break
            one(sql, d, LEVELS[i % 4], None, "trie-key-sweep")
            n_sweep += 1
    chk.cov["keyword_sweep_inputs"] = n_sweep
    # a fixed number of inputs per tier (deterministic for a given VERIF_SEED), with the time budget as a safety cap
    n_inputs = int(os.environ.get("C05_INPUTS", "0")) or (chk.pick(700, 70000) * (2 if chk.broken else 1))
    for _ in range(n_inputs):
        if time.time() - t0 > budget_s or len(chk.violations) >= MAXV:
            break
        d = rng.choice(dialects)
        kind, sql = gen_input(rng, gen, dialect_keywords(d), table_keywords(d)["all"])
        write = rng.choice(dialects) if rng.random() < 0.3 else None
        lv = LEVELS if rng.random() < 0.25 else [rng.choice(LEVELS)]
        for lvl in lv:
            one(sql, d, lvl, write, kind)
    chk.cov["generator_leak_families"] = dict(sorted(gen_families.items(), key=lambda kv: -kv[1])[:60])
    chk.cov["calibration"] = {"K_PARSE": K_PARSE, "K_TOKENIZE": K_TOKENIZE, "K_GENERATE": K_GENERATE,
                              "max_parser_steps_per_token": round(maxr["parse_lin"], 2),
                              "max_parser_steps_per_token_squared": round(maxr["parse_quad"], 3),
                              "K_WORK": K_WORK, "max_parser_work_per_token_squared": round(maxr["work"], 2),
                              "max_tokenizer_steps_per_char": round(maxr["tok"], 2),
                              "max_generator_calls_per_node": round(maxr["gen"], 2)}
    chk.search_info = {"ran": True, "budget_s": budget_s, "inputs": tried, "failing": failing,
                       "oracle": "tokenize/parse/generate raise only sqlglot.errors.SqlglotError and stay within "
                                 f"{K_PARSE}(n+1)^2 Parser._advance calls, {K_WORK}(n+1)^2+{WORK_CONST} parser work units, {K_TOKENIZE}(len+1) TokenizerCore._advance calls, "
                                 f"{K_GENERATE}(nodes+1) Generator.sql calls; {WATCHDOG_S}s watchdog"}


# =========================================================================================== run / replay
def run(chk: Check) -> None:
    chk.trusted.append("C05: hand-written models Model/Cursor.lean (Parser cursor primitives and glue) and Model/ScanProgress.lean "
                       "(TokenizerCore._scan position arithmetic); the harness-side interpreter of combinator programs over the real "
                       "Parser primitives; the monkeypatched step counters (Parser._advance, TokenizerCore._advance, Generator.sql)")
    chk.assumptions += [
        "PARTIAL: termination / no-leak is PROVED only for the modelled cursor glue and for programs written in the modelled idioms; "
        "the ~200 real _parse_* methods are covered by run-time contract monitoring (Sound/Restoring on every _try_parse, _parse_csv, "
        "_parse_wrapped activation) and by the step-bounded search oracle, not by proof",
        "the generator is covered by the search oracle only (Generator.sql call budget + exception family)",
        "a tree returned under IGNORE counts as 'returned with recorded errors' when any node fails Expression.error_messages() "
        "(what every other level would have recorded)",
        "RecursionError on pathologically nested input is not counted as a leak (generators produce depth ≤ 6)",
    ]
    chk.write_generated(translate(chk))
    proved = chk.prove(MODULES, "Properties.C05", THEOREMS)
    hints = []
    load_dialects(chk)
    if os.environ.get("C05_DEBUG_DUMP"):
        import faulthandler
        faulthandler.dump_traceback_later(float(os.environ["C05_DEBUG_DUMP"]), exit=True)
    try:
        try:
            correspond_programs(chk)
            correspond_find_parser(chk)
            correspond_format_scan(chk)
            chk.cov["t_programs_s"] = round(chk.elapsed(), 1)
            if os.environ.get("C05_DEBUG_DUMP"):
                print("after A", chk.elapsed(), flush=True)
            hints = correspond_activations(chk)
            chk.cov["t_activations_s"] = round(chk.elapsed(), 1)
            if os.environ.get("C05_DEBUG_DUMP"):
                print("after B", chk.elapsed(), flush=True)
        except HarnessError as e:
            if proved:
                raise
            chk.note(f"model driver unavailable ({e}); continuing with the search on the real code")
        budget = chk.pick(60, 600)
        if chk.broken:
            budget *= 2
        search(chk, hints, budget)
    finally:
        MON.remove()


def replay(path: str) -> int:
    sys.path.insert(0, REPO)
    rec = json.load(open(path))
    r = rec.get("replay")
    if not r or "sql" not in r:
        print(json.dumps(rec, indent=1)[:3000])
        return 1
    v = run_pipeline(r["sql"], r["dialect"], r["level"], r.get("write"))
    MON.remove()
    if v["ok"]:
        print("replay: holds")
        return 0
    print(f"replay: VIOLATES: {v['phase']} leaked/exceeded {v['exc']} in {v['frame']}: {v['msg']}")
    return 1
