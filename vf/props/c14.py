"""C14 — Error levels change how problems are reported, never what is produced (DESIGN.md §4 C14).

translate : ast over sqlglot/parser.py, generator.py, errors.py, parsers/*, generators/*, dialects/*:
            every read/write site of error_level / errors / unsupported_level / unsupported_messages, every
            `except ParseError|SqlglotError|UnsupportedError|Exception`, every caller of check_errors, plus the
            level-relevant statement skeletons of raise_error, validate_expression, _try_parse, check_errors,
            concat_messages, Generator.unsupported, Generator.generate  ->  Generated/C14.lean.
            Properties/C14.lean proves `level_sites_ok` / `level_skeletons_ok` by `decide` against the lists the
            lemmas were proved for (Model/Levels.lean: expectedSites / expectedSkeletons).
prove     : Properties/C14.lean — for EVERY program of the combinator language, rule table, input and fuel.
correspond: harness-side wrappers on raise_error / _try_parse / validate_expression / check_errors (and
            Generator.unsupported) record one event trace per run.  The WARN trace is turned into a straight-line
            `Comb` program, the Lean model runs it under all four levels, and its four predicted outcomes (returned /
            raised, errors, log batches, rendered, "... and k more") are compared with the four real runs; the level
            observed at every event is compared with the model's rule (IMMEDIATE inside _try_parse, the run's
            level outside, restored afterwards).
search    : the property's own oracle on the real code = the four-run relation itself.
"""

from __future__ import annotations

import ast
import glob
import json
import logging
import os
import re
import time

from vf.core import Check, REPO, HarnessError, lean_str, lean_list

MODULES = ["Model.Levels", "Proofs.Levels", "Generated.C14", "Properties.C14"]
NS = "SqlglotModel.Properties.C14."
THEOREMS = [NS + n for n in [
    "ignore_warn_same",
    "raise_iff_warn_logs",
    "raise_reports_all",
    "message_at_most_max",
    "immediate_is_first",
    "immediate_first_of_raise",
    "try_parse_restores_level",
    "level_preserved",
    "try_parse_level_independent",
    "warn_batches_are_prefixes",
    "raise_errors_prefix_of_warn",
    "merge_errors_singletons",
    "xrun_confined",
    "x_ignore_warn_same_partial",
    "x_strict_iff_warn_partial",
    "hard_error_level_blind",
    "hint_subparser_counterexample",
    "hint_subparser_confined_ok",
    "builder_direct_raise_counterexample",
    "unsupported_levels_partial",
    "unsupported_raise_iff_warn_logs_partial",
    "immediate_raises_first_partial",
    "hard_unsupported_counterexample",
    "preprocess_propagates",
    "preprocess_immediate_raises",
    "return_in_finally_swallows_immediate",
    "no_exception_swallowing_on_unsupported_path",
    "generate_resets_messages",
    "level_sites_ok",
    "level_skeletons_ok",
    "direct_raise_sites_ok",
    "nested_parser_sites_ok",
    "unrestored_level_witness",
]]

LEVELS = ["IGNORE", "WARN", "RAISE", "IMMEDIATE"]
MAXNODES_TEXT = "Maximum number of AST nodes"

# ------------------------------------------------------------------------------------------ translate
ATTRS = {"error_level", "errors", "unsupported_level", "unsupported_messages"}
EXC_NAMES = ("ParseError", "SqlglotError", "UnsupportedError", "Exception", "BaseException", "<bare>")
SKELETON_FUNCS = [
    ("sqlglot/parser.py", "Parser.raise_error"),
    ("sqlglot/parser.py", "Parser.validate_expression"),
    ("sqlglot/parser.py", "Parser._try_parse"),
    ("sqlglot/parser.py", "Parser.check_errors"),
    ("sqlglot/errors.py", "concat_messages"),
    ("sqlglot/generator.py", "Generator.unsupported"),
    ("sqlglot/generator.py", "Generator.generate"),
]


def source_files() -> list:
    fs = ["sqlglot/parser.py", "sqlglot/generator.py", "sqlglot/errors.py", "sqlglot/transforms.py"]
    for d in ("parsers", "generators", "dialects"):
        fs += sorted(os.path.relpath(p, REPO) for p in glob.glob(os.path.join(REPO, "sqlglot", d, "*.py")))
    return fs


def _const(v) -> str:
    if v is None:
        return "?"
    if isinstance(v, ast.Attribute) and isinstance(v.value, ast.Name):
        return f"{v.value.id}.{v.attr}"
    if isinstance(v, ast.Attribute):
        return f"<expr>.{v.attr}"
    if isinstance(v, ast.Name):
        return v.id
    if isinstance(v, ast.List) and not v.elts:
        return "[]"
    if isinstance(v, ast.Constant):
        return repr(v.value)
    if isinstance(v, ast.BoolOp):
        return type(v.op).__name__ + "(" + ",".join(_const(x) for x in v.values) + ")"
    if isinstance(v, ast.UnaryOp):
        return type(v.op).__name__ + "(" + _const(v.operand) + ")"
    if isinstance(v, ast.Compare):
        return "Cmp(" + _const(v.left) + "," + ",".join(type(o).__name__ for o in v.ops) + "," + ",".join(
            _const(c) for c in v.comparators) + ")"
    if isinstance(v, ast.BinOp):
        return type(v.op).__name__ + "(" + _const(v.left) + "," + _const(v.right) + ")"
    if isinstance(v, ast.Call):
        args = [_const(a) for a in v.args] + [f"{k.arg}={_const(k.value)}" for k in v.keywords]
        return "Call(" + _const(v.func) + ")" + ("(" + ",".join(args) + ")" if args else "")
    if isinstance(v, ast.ListComp):
        return "ListComp(" + _const(v.elt) + " for " + ",".join(_const(g.iter) for g in v.generators) + ")"
    if isinstance(v, ast.Subscript):
        return "Sub(" + _const(v.value) + "," + _const(v.slice) + ")"
    if isinstance(v, ast.Slice):
        return "Slice(" + _const(v.lower) + ":" + _const(v.upper) + ")"
    return type(v).__name__


class SiteVisitor(ast.NodeVisitor):
    def __init__(self, fname):
        self.fname = fname
        self.stack: list = []
        self.sites: list = []
        self.parents: dict = {}
        self.funcs: dict = {}

    def generic_visit(self, node):
        for ch in ast.iter_child_nodes(node):
            self.parents[ch] = node
        super().generic_visit(node)

    def visit_ClassDef(self, n):
        self.stack.append(n.name)
        self.generic_visit(n)
        self.stack.pop()

    def visit_FunctionDef(self, n):
        self.stack.append(n.name)
        self.funcs[".".join(self.stack)] = n
        self.generic_visit(n)
        self.stack.pop()

    visit_AsyncFunctionDef = visit_FunctionDef

    def visit_Lambda(self, n):
        self.stack.append("<lambda>")
        self.generic_visit(n)
        self.stack.pop()

    def where(self):
        return ".".join(self.stack) or "<module>"

    def visit_Attribute(self, n):
        if n.attr in ATTRS:
            self.sites.append((self.fname, self.where(), n.attr, self.kind(n)))
        self.generic_visit(n)

    def visit_keyword(self, n):
        if n.arg in ("error_level", "unsupported_level"):
            self.sites.append((self.fname, self.where(), n.arg, "kwarg"))
        self.generic_visit(n)

    def visit_Constant(self, n):
        # getattr(self, "error_level") / setattr / kwargs["unsupported_level"] style accesses
        if isinstance(n.value, str) and n.value in ATTRS:
            p = self.parents.get(n)
            if isinstance(p, ast.Call) and isinstance(p.func, ast.Name) and p.func.id in ("getattr", "setattr", "hasattr", "delattr"):
                self.sites.append((self.fname, self.where(), n.value, "dynamic:" + p.func.id))

    def visit_ExceptHandler(self, n):
        t = n.type
        for x in ([t] if not isinstance(t, ast.Tuple) else t.elts):
            nm = "<bare>" if x is None else x.id if isinstance(x, ast.Name) else x.attr if isinstance(x, ast.Attribute) else "<expr>"
            if nm in EXC_NAMES:
                self.sites.append((self.fname, self.where(), nm, "except"))
        self.generic_visit(n)

    def visit_Call(self, n):
        f = n.func
        if isinstance(f, ast.Attribute) and f.attr == "check_errors":
            self.sites.append((self.fname, self.where(), "check_errors", "call"))
        self.generic_visit(n)

    def kind(self, n):
        base = n.value.id if isinstance(n.value, ast.Name) else "<expr>"
        p = self.parents.get(n)
        if isinstance(n.ctx, ast.Store):
            return f"{base}:write:{_const(getattr(p, 'value', None))}"
        if isinstance(n.ctx, ast.Del):
            return f"{base}:del"
        if isinstance(p, ast.Compare):
            ops = ",".join(type(o).__name__ for o in p.ops)
            others = [x for x in [p.left] + p.comparators if x is not n]
            return f"{base}:compare:{ops}:{','.join(_const(o) for o in others)}"
        if isinstance(p, ast.Attribute) and isinstance(self.parents.get(p), ast.Call) and self.parents[p].func is p:
            return f"{base}:call:{p.attr}"
        if isinstance(p, ast.BoolOp):
            return f"{base}:truth:{type(p.op).__name__}"
        if isinstance(p, (ast.If, ast.While, ast.IfExp)) and p.test is n:
            return f"{base}:truth"
        if isinstance(p, ast.UnaryOp) and isinstance(p.op, ast.Not):
            return f"{base}:truth:Not"
        if isinstance(p, ast.For) and p.iter is n:
            return f"{base}:iterate"
        if isinstance(p, ast.Assign):
            tg = p.targets[0]
            return f"{base}:read-into:{tg.id if isinstance(tg, ast.Name) else '<expr>'}"
        if isinstance(p, ast.Call):
            fn = p.func
            nm = fn.id if isinstance(fn, ast.Name) else (fn.attr if isinstance(fn, ast.Attribute) else "<expr>")
            return f"{base}:arg-of:{nm}"
        if isinstance(p, ast.Subscript):
            return f"{base}:subscript"
        return f"{base}:read:{type(p).__name__}"


def _mentions(node, names=ATTRS | {"maximum", "remaining", "max_nodes", "_node_count"}) -> bool:
    for x in ast.walk(node):
        if isinstance(x, ast.Attribute) and x.attr in names:
            return True
        if isinstance(x, ast.Name) and x.id in names:
            return True
    return False


def skeleton(fn: ast.FunctionDef) -> list:
    """the level-relevant statements of a function, in order, with nesting depth"""
    out: list = []

    def walk(stmts, d):
        for s in stmts:
            if isinstance(s, ast.Expr) and isinstance(s.value, ast.Constant) and isinstance(s.value.value, str):
                continue  # docstring
            if isinstance(s, ast.If):
                out.append(f"{d}:if:{_const(s.test)}" if _mentions(s.test) or isinstance(s.test, (ast.BoolOp, ast.UnaryOp)) else f"{d}:if")
                walk(s.body, d + 1)
                if s.orelse:
                    out.append(f"{d}:else")
                    walk(s.orelse, d + 1)
            elif isinstance(s, ast.For):
                out.append(f"{d}:for:{_const(s.iter)}")
                walk(s.body, d + 1)
                if s.orelse:
                    out.append(f"{d}:for-else")
                    walk(s.orelse, d + 1)
            elif isinstance(s, ast.While):
                out.append(f"{d}:while")
                walk(s.body, d + 1)
            elif isinstance(s, ast.Try):
                out.append(f"{d}:try")
                walk(s.body, d + 1)
                for h in s.handlers:
                    out.append(f"{d}:except:{_const(h.type)}")
                    walk(h.body, d + 1)
                if s.orelse:
                    out.append(f"{d}:try-else")
                    walk(s.orelse, d + 1)
                if s.finalbody:
                    out.append(f"{d}:finally")
                    walk(s.finalbody, d + 1)
            elif isinstance(s, ast.With):
                out.append(f"{d}:with")
                walk(s.body, d + 1)
            elif isinstance(s, ast.Raise):
                out.append(f"{d}:raise:{_const(s.exc)}")
            elif isinstance(s, ast.Return):
                out.append(f"{d}:return:{_const(s.value)}")
            elif isinstance(s, (ast.Assign, ast.AugAssign, ast.AnnAssign)):
                tgts = s.targets if isinstance(s, ast.Assign) else [s.target]
                if any(_mentions(t) for t in tgts) or (s.value is not None and _mentions(s.value)) or any(
                        isinstance(t, ast.Name) and t.id in ("this", "msg") for t in tgts):
                    op = "aug" if isinstance(s, ast.AugAssign) else "set"
                    out.append(f"{d}:{op}:{','.join(_const(t) for t in tgts)}={_const(s.value)}")
            elif isinstance(s, ast.Expr) and isinstance(s.value, ast.Call):
                c = s.value
                if _mentions(c) or (isinstance(c.func, ast.Attribute) and c.func.attr in (
                        "raise_error", "_retreat", "error", "warning", "append", "check_errors")):
                    args = ",".join(_const(a) for a in c.args)
                    out.append(f"{d}:call:{_const(c.func)}({args})")
            elif isinstance(s, (ast.Break, ast.Continue)):
                out.append(f"{d}:{type(s).__name__.lower()}")
    walk(fn.body, 0)
    return out


def extract(chk: Check | None = None):
    sites: list = []
    skels: list = []
    funcs: dict = {}
    for f in source_files():
        src = open(os.path.join(REPO, f), encoding="utf-8").read()
        v = SiteVisitor(f)
        v.visit(ast.parse(src))
        sites += v.sites
        for k, fn in v.funcs.items():
            funcs[(f, k)] = fn
    for key in SKELETON_FUNCS:
        fn = funcs.get(key)
        if fn is None:
            if chk is not None:
                chk.broken.append({"kind": "translator", "what": f"C14 translator: structure changed: {key[1]} not found in {key[0]}"})
            skels.append((key[1], ["<missing>"]))
        else:
            skels.append((key[1], skeleton(fn)))
    return sites, skels


SQLGLOT_ERRORS = {"ParseError", "UnsupportedError", "TokenError", "SqlglotError", "OptimizeError", "SchemaError", "ExecuteError"}
NESTED_CALLS = {"maybe_parse", "parse_one", "parse_into", "parse_json_path", "to_json_path", "alias_", "build", "parser", "tokenize", "parse"}


class RaiseVisitor(ast.NodeVisitor):
    """`raise <sqlglot error>(…)` statements (they bypass raise_error / Generator.unsupported) and constructions of nested
    parsers / tokenizers (sub-parsers run at a level of their own)"""

    def __init__(self, fname):
        self.f = fname
        self.stack: list = []
        self.raises: list = []
        self.nested: list = []

    def visit_ClassDef(self, n):
        self.stack.append(n.name)
        self.generic_visit(n)
        self.stack.pop()

    def visit_FunctionDef(self, n):
        self.stack.append(n.name)
        self.generic_visit(n)
        self.stack.pop()

    visit_AsyncFunctionDef = visit_FunctionDef

    def where(self):
        return ".".join(self.stack) or "<module>"

    def visit_Raise(self, n):
        e = n.exc
        nm = None
        if isinstance(e, ast.Call):
            f = e.func
            nm = f.id if isinstance(f, ast.Name) else f.attr if isinstance(f, ast.Attribute) else None
        elif isinstance(e, ast.Name):
            nm = e.id
        if nm in SQLGLOT_ERRORS:
            self.raises.append((self.f, self.where(), nm))
        self.generic_visit(n)

    def visit_Call(self, n):
        f = n.func
        nm = f.id if isinstance(f, ast.Name) else f.attr if isinstance(f, ast.Attribute) else None
        keep = nm in NESTED_CALLS or bool(nm and nm.endswith("Parser") and nm[:1].isupper())
        if keep and nm == "build":
            keep = isinstance(f, ast.Attribute) and _const(f.value).endswith("DataType")
        if keep and nm == "parser":
            keep = isinstance(f, ast.Attribute)  # `parser(self)` on a local name is a dispatch-table entry, not a construction
        if keep and nm == "parse":
            keep = isinstance(f, ast.Attribute) and isinstance(f.value, ast.Name) and f.value.id == "sqlglot"
        if keep:
            lvl = next((_const(k.value) for k in n.keywords if k.arg == "error_level"), "-")
            self.nested.append((self.f, self.where(), nm, lvl))
        self.generic_visit(n)


def exception_flow_sites():
    """constructs that can make an exception DISAPPEAR on the way from a `raise UnsupportedError` / `self.unsupported(...)` /
    `raise_error` site to the caller: `return` / `break` / `continue` inside a `finally:` block (Python discards the in-flight
    exception), and handlers for SqlglotError / UnsupportedError / ParseError / Exception / bare that do not re-raise.
    (file, function, kind, detail)"""
    out = []
    files = ["sqlglot/parser.py", "sqlglot/generator.py", "sqlglot/transforms.py", "sqlglot/errors.py"]
    for d in ("parsers", "generators", "dialects"):
        files += sorted(os.path.relpath(p, REPO) for p in glob.glob(os.path.join(REPO, "sqlglot", d, "*.py")))
    for rel in files:
        t = ast.parse(open(os.path.join(REPO, rel), encoding="utf-8").read())

        def walk(node, prefix):
            for ch in ast.iter_child_nodes(node):
                if isinstance(ch, (ast.FunctionDef, ast.AsyncFunctionDef, ast.ClassDef)):
                    walk(ch, prefix + ch.name + ".")
                    continue
                if isinstance(ch, ast.Try):
                    where = prefix.rstrip(".") or "<module>"
                    for st in ch.finalbody:
                        for n in ast.walk(st):
                            if isinstance(n, (ast.Return, ast.Break, ast.Continue)):
                                out.append((rel, where, "jump-in-finally", type(n).__name__.lower()))
                    for h in ch.handlers:
                        names = []
                        for x in ([h.type] if not isinstance(h.type, ast.Tuple) else h.type.elts):
                            names.append("<bare>" if x is None else x.id if isinstance(x, ast.Name) else x.attr if isinstance(x, ast.Attribute) else "<expr>")
                        if not any(nm in EXC_NAMES for nm in names):
                            continue
                        reraises = any(isinstance(n, ast.Raise) for st in h.body for n in ast.walk(st))
                        calls = sorted({(n.func.attr if isinstance(n.func, ast.Attribute) else getattr(n.func, "id", "?"))
                                        for st in h.body for n in ast.walk(st) if isinstance(n, ast.Call)})
                        out.append((rel, where, "handler:" + "|".join(names), ("re-raises" if reraises else "swallows") + ":" + ",".join(calls)))
                walk(ch, prefix)

        walk(t, "")
    return out


def extract_raises():
    def scan(files):
        R, N = [], []
        for f in files:
            v = RaiseVisitor(f)
            v.visit(ast.parse(open(os.path.join(REPO, f), encoding="utf-8").read()))
            R += v.raises
            N += v.nested
        return R, N

    def sub(d):
        return sorted(os.path.relpath(p, REPO) for p in glob.glob(os.path.join(REPO, "sqlglot", d, "*.py")))

    pfiles = ["sqlglot/parser.py", "sqlglot/jsonpath.py", "sqlglot/expressions/core.py", "sqlglot/expressions/datatypes.py"] + sub("parsers") + sub("dialects")
    gfiles = ["sqlglot/generator.py", "sqlglot/transforms.py"] + sub("generators") + sub("dialects")
    pr, pn = scan(pfiles)
    gr, _ = scan(gfiles)
    counts: dict = {}
    for k in pn:
        counts[k] = counts.get(k, 0) + 1
    nested = [k + (str(c),) for k, c in sorted(counts.items())]
    return ([r for r in pr if r[2] == "ParseError"], [r for r in gr if r[2] == "UnsupportedError"], nested)


def translate(chk: Check) -> str:
    sites, skels = extract(chk)
    chk.cov["level_sites"] = len(sites)
    lines = [
        "-- GENERATED by vf/props/c14.py (ast over sqlglot/parser.py, generator.py, errors.py, parsers/, generators/, dialects/). Do not edit.",
        "namespace SqlglotModel.Generated.C14",
        "/-- (file, function, name, kind of use) for error_level / errors / unsupported_level / unsupported_messages,",
        "    `except` handlers that could swallow a ParseError/UnsupportedError, and callers of check_errors -/",
        "def sites : List (String × String × String × String) := [",
    ]
    lines += ["  (" + ", ".join(lean_str(x) for x in s) + ")" + ("," if i + 1 < len(sites) else "") for i, s in enumerate(sites)]
    lines += ["]", "/-- level-relevant statement skeletons of the mirrored functions -/",
              "def skeletons : List (String × List String) := ["]
    lines += ["  (" + lean_str(n) + ", " + lean_list(lean_str(x) for x in sk) + ")" + ("," if i + 1 < len(skels) else "")
              for i, (n, sk) in enumerate(skels)]
    lines += ["]"]
    pr, gr, nested = extract_raises()
    chk.cov["direct_raise_sites"] = {"ParseError": len(pr), "UnsupportedError": len(gr), "nested_parser_constructions": len(nested)}

    def table(name, doc, ty, rows):
        out = [f"/-- {doc} -/", f"def {name} : List ({ty}) := ["]
        out += ["  (" + ", ".join(lean_str(x) for x in r) + ")" + ("," if i + 1 < len(rows) else "") for i, r in enumerate(rows)]
        return out + ["]"]

    lines += table("parseErrorRaiseSites", "(file, function, class): `raise ParseError(…)` statements on the parsing side — each one bypasses raise_error",
                   "String × String × String", pr)
    lines += table("unsupportedRaiseSites", "(file, function, class): `raise UnsupportedError(…)` statements on the generating side — all but Generator.unsupported / generate bypass unsupported_level",
                   "String × String × String", gr)
    ef = exception_flow_sites()
    chk.cov["exception_flow_sites"] = len(ef)
    lines += table("exceptionFlowSites", "(file, function, kind, detail): return/break/continue inside finally, and handlers that could swallow a sqlglot error",
                   "String × String × String × String", ef)
    lines += table("nestedParserSites", "(file, function, callee, error_level argument, count): nested parser / tokenizer constructions reachable from parsing",
                   "String × String × String × String × String", nested)
    lines += ["end SqlglotModel.Generated.C14", ""]
    return "\n".join(lines)


# ------------------------------------------------------------------------------------------ the real side
class LogCap(logging.Handler):
    def __init__(self):
        super().__init__(level=logging.DEBUG)
        self.records: list = []

    def emit(self, record):
        self.records.append((record.levelname, record.getMessage()))


SITES_REACHED: set = set()   # line numbers of transforms.py unsupported sites reached by some run


def transforms_unsupported_sites():
    """(function, line, kind) of every `raise UnsupportedError(` / `.unsupported(` in transforms.py"""
    out = []
    t = ast.parse(open(os.path.join(REPO, "sqlglot", "transforms.py"), encoding="utf-8").read())

    def walk(node, prefix):
        for ch in ast.iter_child_nodes(node):
            if isinstance(ch, (ast.FunctionDef, ast.ClassDef)):
                walk(ch, prefix + ch.name + ".")
                continue
            if isinstance(ch, ast.Raise) and isinstance(ch.exc, ast.Call) and getattr(ch.exc.func, "id", getattr(ch.exc.func, "attr", "")) == "UnsupportedError":
                out.append((prefix.rstrip("."), ch.lineno, "raise"))
            if isinstance(ch, ast.Call) and isinstance(ch.func, ast.Attribute) and ch.func.attr == "unsupported":
                out.append((prefix.rstrip("."), ch.lineno, "unsupported"))
            walk(ch, prefix)

    walk(t, "")
    return out


# statements aimed at the unsupported sites inside transforms.py (reached through a dialect's preprocess([...]) chain)
UNSUPPORTED_SITE_SQL = [
    ("SELECT * FROM t CROSS JOIN UNNEST(x)", "presto"),
    ("SELECT a, b FROM UNNEST(x, y) AS t(a, b)", "presto"),
    ("SELECT * FROM t CROSS JOIN UNNEST(x) AS u(a, b, c)", "presto"),
    ("SELECT * FROM t CROSS JOIN UNNEST(x, y) AS u(a, b)", "presto"),
    ("SELECT * FROM UNNEST(x) AS u(a, b, c)", "presto"),
    ("SELECT a FROM t CROSS JOIN UNNEST(x) WITH ORDINALITY", "presto"),
]
UNSUPPORTED_SITE_WRITES = ["hive", "spark2", "spark", "databricks"]

_CAP = LogCap()
_TRACE: dict = {"cur": None, "stack": [], "in_validate": 0, "gen": None, "root": None, "sub": 0}
_INSTALLED = False


def sg():
    import sqlglot
    from sqlglot import exp
    from sqlglot.errors import ErrorLevel, ParseError, UnsupportedError, TokenError, SqlglotError
    return sqlglot, exp, ErrorLevel, ParseError, UnsupportedError, TokenError, SqlglotError


def install():
    """wrap the five functions (harness side; /repo is not touched) and attach the log capture"""
    global _INSTALLED
    if _INSTALLED:
        return
    _INSTALLED = True
    import sqlglot.parser as sp
    import sqlglot.generator as sgen
    P = sp.Parser
    lg = logging.getLogger("sqlglot")
    lg.addHandler(_CAP)
    lg.propagate = False
    lg.setLevel(logging.DEBUG)

    def lvl(self):
        return getattr(self.error_level, "name", str(self.error_level))

    def mine(self):
        """only the run's own parser is traced: sub-parsers started inside a parse (exp.maybe_parse for hints at the
        default IMMEDIATE, DataType.build at a fixed IGNORE) are separate Parser objects with a level of their own"""
        if _TRACE["cur"] is None:
            return False
        if _TRACE["root"] is not self:
            _TRACE["sub"] += 1
            return False
        return True

    def emit(ev):
        (_TRACE["stack"][-1] if _TRACE["stack"] else _TRACE["cur"]).append(ev)

    o_raise, o_val, o_try, o_chk = P.raise_error, P.validate_expression, P._try_parse, P.check_errors

    def raise_error(self, message, *a, **k):
        if not mine(self):
            return o_raise(self, message, *a, **k)
        emit({"k": "R", "msg": str(message), "lvl": lvl(self), "n": len(self.errors), "inv": _TRACE["in_validate"] > 0})
        return o_raise(self, message, *a, **k)

    def validate_expression(self, expression, args=None):
        if not mine(self):
            return o_val(self, expression, args)
        try:
            msgs = [str(m) for m in expression.error_messages(args)]
        except Exception as e:  # noqa
            msgs = ["<error_messages raised " + type(e).__name__ + ">"]
        emit({"k": "V", "msgs": msgs, "lvl": lvl(self), "n": len(self.errors), "nodes": getattr(self, "_node_count", None)})
        _TRACE["in_validate"] += 1
        try:
            return o_val(self, expression, args)
        finally:
            _TRACE["in_validate"] -= 1

    def _try_parse(self, parse_method, retreat=False):
        if not mine(self):
            return o_try(self, parse_method, retreat)
        node = {"k": "T", "retreat": bool(retreat), "lvl": lvl(self), "n": len(self.errors), "idx": self._index, "body": []}
        emit(node)
        saved_iv = _TRACE["in_validate"]
        _TRACE["in_validate"] = 0
        _TRACE["stack"].append(node["body"])
        try:
            r = o_try(self, parse_method, retreat)
            node["out"] = "some" if r else "none"
            return r
        except BaseException as e:
            node["out"] = "leak:" + type(e).__name__
            raise
        finally:
            _TRACE["stack"].pop()
            _TRACE["in_validate"] = saved_iv
            node["lvl_out"] = lvl(self)
            node["n_out"] = len(self.errors)
            node["idx_out"] = self._index

    def check_errors(self):
        if not mine(self):
            return o_chk(self)
        before = len(_CAP.records)
        ev = {"k": "C", "lvl": lvl(self), "errs": list(self.errors), "max": self.max_errors, "parser": self}
        emit(ev)
        try:
            return o_chk(self)
        finally:
            ev["logged"] = _CAP.records[before:]

    o_parse = P._parse

    def _parse(self, *a, **k):
        # the outermost _parse of a run belongs to the run's own parser (for athena: the delegate that does the work)
        if _TRACE["cur"] is not None and _TRACE["root"] is None and (a[2] if len(a) > 2 else k.get("sql")) == _TRACE.get("sql"):
            _TRACE["root"] = self
        return o_parse(self, *a, **k)

    P._parse = _parse
    P.raise_error, P.validate_expression, P._try_parse, P.check_errors = raise_error, validate_expression, _try_parse, check_errors

    import sqlglot.transforms as strans
    import sys as _sys

    class _RecordingUnsupportedError(strans.UnsupportedError):
        """records which `raise UnsupportedError(...)` line of transforms.py was reached (site coverage)"""

        def __init__(self, *a, **k):
            super().__init__(*a, **k)
            f = _sys._getframe(1)
            if f.f_code.co_filename.endswith("transforms.py"):
                SITES_REACHED.add(f.f_lineno)

    strans.UnsupportedError = _RecordingUnsupportedError

    G = sgen.Generator
    o_uns = G.unsupported

    def unsupported(self, message):
        f = _sys._getframe(1)
        if f.f_code.co_filename.endswith("transforms.py"):
            SITES_REACHED.add(f.f_lineno)
        g = _TRACE["gen"]
        if g is not None:
            g.append((str(message), getattr(self.unsupported_level, "name", str(self.unsupported_level)), len(self.unsupported_messages)))
        return o_uns(self, message)

    G.unsupported = unsupported


class _Watchdog(Exception):
    pass


TIMEOUTS: list = []  # inputs on which a call into sqlglot did not come back within the watchdog (reported in the evidence)


class watchdog:
    """SIGALRM guard around one call into sqlglot: a call that does not come back is C05's subject, not a level matter"""

    def __init__(self, seconds=10.0):
        self.seconds = seconds

    def __enter__(self):
        import signal

        def handler(signum, frame):
            raise _Watchdog()

        self.old = signal.signal(signal.SIGALRM, handler)
        signal.setitimer(signal.ITIMER_REAL, self.seconds)

    def __exit__(self, *a):
        import signal
        signal.setitimer(signal.ITIMER_REAL, 0)
        signal.signal(signal.SIGALRM, self.old)
        return False


def dump_tree(e):
    if e is None:
        return None
    try:
        return e.dump()
    except Exception:  # noqa
        return repr(e)


def err_desc(e):
    d = e.errors[0] if getattr(e, "errors", None) else {}
    return d.get("description") or str(e)


def parse_run(sql, dialect, level, max_errors=3, max_nodes=None, api="parse"):
    """one real run under one level -> record with trace, outcome, log records"""
    sqlglot, exp, ErrorLevel, ParseError, UnsupportedError, TokenError, SqlglotError = sg()
    install()
    _TRACE["cur"] = []
    _TRACE["stack"] = []
    _TRACE["in_validate"] = 0
    _TRACE["root"] = None
    _TRACE["sub"] = 0
    _TRACE["sql"] = sql
    from sqlglot.dialects.dialect import Dialect as _D
    _D.get_or_raise(dialect)  # import the dialect module (it may parse things of its own) before tracing starts
    before = len(_CAP.records)
    rec: dict = {"level": level}
    if dialect == "athena":
        max_nodes = None  # AthenaParser.__init__ has no max_nodes parameter (a TypeError under every level alike)
    opts: dict = {"error_level": ErrorLevel[level], "max_errors": max_errors}
    if max_nodes is not None:
        opts["max_nodes"] = max_nodes
    try:
        with watchdog():
            if api == "parse":
                trees = sqlglot.parse(sql, read=dialect, **opts)
            else:
                from sqlglot.dialects.dialect import Dialect
                d = Dialect.get_or_raise(dialect)
                trees = d.parser(**opts).parse(d.tokenize(sql), sql)
        rec["status"] = "returned"
        rec["trees"] = [dump_tree(t) for t in trees]
    except _Watchdog as e:
        rec["status"] = "RecursionError"  # treated like the other resource limit
        rec["exc"] = e
        rec["timeout"] = True
        _TRACE["stack"] = []
        if len(TIMEOUTS) < 10:
            TIMEOUTS.append({"call": "parse", "sql": sql, "dialect": dialect, "level": level})
    except ParseError as e:
        rec["status"] = "ParseError"
        rec["exc"] = e
    except TokenError as e:
        rec["status"] = "TokenError"
        rec["exc"] = e
    except RecursionError as e:
        rec["status"] = "RecursionError"
        rec["exc"] = e
    except Exception as e:  # noqa
        rec["status"] = "internal:" + type(e).__name__
        rec["exc"] = e
    rec["trace"] = _TRACE["cur"]
    rec["sub_events"] = _TRACE["sub"]
    root = _TRACE["root"]
    rec["root_level_after"] = getattr(getattr(root, "error_level", None), "name", None) if root is not None else None
    _TRACE["cur"] = None
    rec["log"] = _CAP.records[before:]
    del _CAP.records[:]
    return rec


def flat_events(trace, out=None, top=True):
    """C events of a run, in order (also nested ones)"""
    out = [] if out is None else out
    for ev in trace:
        if ev["k"] == "C":
            out.append(ev)
        elif ev["k"] == "T":
            flat_events(ev["body"], out, False)
    return out


# ------------------------------------------------------------------------------------------ the property's oracle
def four_run_relation(sql, dialect, max_errors=3, max_nodes=None, api="parse", runs=None):
    """Evaluates the C14 parser statement on one input. Returns (list of (kind, text), runs)."""
    runs = runs or {L: parse_run(sql, dialect, L, max_errors, max_nodes, api) for L in LEVELS}
    bad: list = []
    ig, wa, ra, im = (runs[L] for L in LEVELS)
    # whatever way the run ended (returned, ParseError, an internal exception escaping a speculative sub-parse), the parser
    # object must be back at the level it was created with (try_parse_restores_level / C15 try_parse_restores_level_all_exits)
    for L, r in runs.items():
        la = r.get("root_level_after")
        if la is not None and la != L:
            bad.append(("level-not-restored", f"parser.error_level is {la} after a {L} run that ended with {r['status']}"))
    if bad:
        return bad, runs
    if any(r["status"] == "TokenError" for r in runs.values()):
        # did the TOKENIZER reject the text before any parser ran (the same for every level, nothing to compare), or did a
        # tokenizer started INSIDE the parse (the hint sub-parser re-tokenizes the comment) raise through the running parser?
        try:
            from sqlglot.dialects.dialect import Dialect
            with watchdog():
                Dialect.get_or_raise(dialect).tokenize(sql)
            outer_ok = True
        except Exception:  # noqa
            outer_ok = False
        if not outer_ok:
            if not all(r["status"] == "TokenError" for r in runs.values()):
                bad.append(("token-error-level-dependent", f"statuses {[r['status'] for r in runs.values()]}"))
            return bad, runs
        for r in (ig, wa):
            if r["status"] == "TokenError":
                bad.append(("lenient-raises-TokenError", f"{r['level']} raised TokenError: {str(r['exc'])[:120]}"))
        if bad:
            return bad, runs
    if any(r["status"] == "RecursionError" for r in runs.values()):
        return bad, runs  # resource limit / watchdog, C05's business; nothing to compare
    for r in (ig, wa):
        if r["status"] != "returned":
            kind = "lenient-raises-ParseError" if r["status"] == "ParseError" else "lenient-" + r["status"]
            bad.append((kind, f"{r['level']} raised {type(r['exc']).__name__}: {str(r['exc'])[:120]}"))
    if bad:
        return bad, runs
    if ig["trees"] != wa["trees"]:
        bad.append(("ignore-warn-trees-differ", "IGNORE and WARN returned different trees"))
    if any(lv == "ERROR" for lv, _ in ig["log"]):
        bad.append(("ignore-logged", "IGNORE emitted ERROR records"))
    # what WARN logged: ERROR records, batch by batch (one batch per check_errors call)
    checks = flat_events(wa["trace"])
    batches = [c["errs"] for c in checks]
    for c in checks:
        got = [m for lv, m in c.get("logged", []) if lv == "ERROR"]
        if got != [str(e) for e in c["errs"]]:
            bad.append(("warn-log-mismatch", f"check_errors under WARN logged {len(got)} records for {len(c['errs'])} collected errors"))
    n_err_records = sum(1 for lv, _ in wa["log"] if lv == "ERROR")
    if n_err_records != sum(len(b) for b in batches):
        bad.append(("warn-log-outside-check", f"{n_err_records} ERROR records, {sum(len(b) for b in batches)} through check_errors"))
    first_batch = next((b for b in batches if b), None)
    warn_logged = n_err_records >= 1
    # RAISE
    if ra["status"] == "returned":
        if warn_logged:
            bad.append(("raise-silent", f"WARN logged {n_err_records} error(s) but RAISE returned"))
        elif ra["trees"] != wa["trees"]:
            bad.append(("raise-warn-trees-differ", "RAISE returned different trees than WARN"))
    elif ra["status"] == "ParseError":
        e = ra["exc"]
        if not warn_logged:
            bad.append(("raise-spurious", f"RAISE raised but WARN logged nothing: {str(e)[:100]}"))
        elif first_batch is not None:
            want = [d for err in first_batch for d in err.errors]
            if e.errors != want:
                bad.append(("raise-not-all-errors", f"RAISE reports {len(e.errors)} errors, WARN logged {len(want)} at that check"))
            shown = [str(x) for x in first_batch[:max_errors]]
            more = len(first_batch) - max_errors
            text = "\n\n".join(shown + ([f"... and {more} more"] if more > 0 else []))
            if str(e) != text:
                bad.append(("raise-message", f"message is not concat_messages(errors, {max_errors}): {str(e)[:80]!r}"))
            if len(shown) > max(max_errors, 0):
                bad.append(("raise-message-too-long", "more than max_errors rendered"))
    else:
        bad.append(("raise-" + ra["status"], f"RAISE: {type(ra['exc']).__name__}: {str(ra['exc'])[:100]}"))
    # IMMEDIATE
    final_errs = batches[-1] if batches else []
    if im["status"] == "returned":
        if final_errs:
            bad.append(("immediate-silent", f"WARN collected {len(final_errs)} error(s) but IMMEDIATE returned"))
        elif im["trees"] != wa["trees"]:
            bad.append(("immediate-warn-trees-differ", "IMMEDIATE returned different trees than WARN"))
    elif im["status"] == "ParseError":
        e = im["exc"]
        if not final_errs:
            bad.append(("immediate-spurious", f"IMMEDIATE raised but WARN collected nothing: {str(e)[:100]}"))
        else:
            f = final_errs[0]
            if e.errors != f.errors or str(e) != str(f):
                bad.append(("immediate-not-first", f"IMMEDIATE raised {err_desc(e)!r}, WARN's first error is {err_desc(f)!r}"))
            if first_batch and first_batch[0] is not f:
                bad.append(("immediate-not-first-of-raise", "first error of RAISE's batch differs"))
    else:
        bad.append(("immediate-" + im["status"], f"IMMEDIATE: {type(im['exc']).__name__}: {str(im['exc'])[:100]}"))
    # the level is handed back
    for L, r in runs.items():
        for c in flat_events(r["trace"])[-1:]:
            now = getattr(c["parser"].error_level, "name", None)
            if now != L:
                bad.append(("level-not-restored", f"parser.error_level is {now} after a {L} run"))
    return bad, runs


# ------------------------------------------------------------------------------------------ trace -> model program
class Intern:
    def __init__(self):
        self.ids: dict = {}

    def __call__(self, text: str) -> int:
        if text.startswith(MAXNODES_TEXT):
            return 0
        return self.ids.setdefault(text, len(self.ids) + 1)


def trace_to_prog(trace, intern):
    """a straight-line Comb program that performs the WARN run's events"""
    items = []
    for ev in trace:
        k = ev["k"]
        if k == "R":
            if ev["inv"]:
                continue  # produced by validate_expression itself (the model does that)
            items.append({"c": "raise", "m": intern(ev["msg"])})
        elif k == "V":
            items.append({"c": "validate", "ms": [intern(m) for m in ev["msgs"]]})
        elif k == "T":
            items.append({"c": "try", "retreat": ev["retreat"], "body": trace_to_prog(ev["body"], intern)})
        elif k == "C":
            items.append({"c": "check"})
    return items


def level_rule_violations(trace, L, depth=0):
    """the model's level rule on a real trace: IMMEDIATE inside _try_parse, the run's level outside, restored at exit"""
    bad = []
    want = "IMMEDIATE" if depth else L
    for ev in trace:
        if ev["lvl"] != want:
            bad.append(f"{ev['k']} event saw error_level {ev['lvl']}, model says {want}")
        if ev["k"] == "T":
            bad += level_rule_violations(ev["body"], L, depth + 1)
            if ev.get("lvl_out") != want:
                bad.append(f"_try_parse left error_level {ev.get('lvl_out')}, model says {want}")
            if ev.get("n_out") != ev["n"]:
                bad.append("_try_parse changed the errors list")
            if str(ev.get("out", "")).startswith("leak:ParseError"):
                bad.append("_try_parse let a ParseError through")
    return bad


def shape(trace):
    """event sequence of a trace (for prefix comparison between levels)"""
    out = []
    for ev in trace:
        if ev["k"] == "R":
            if not ev["inv"]:
                out.append(("R", ev["msg"]))
        elif ev["k"] == "V":
            out.append(("V", tuple(ev["msgs"])))
        elif ev["k"] == "C":
            out.append(("C",))
        else:
            out.append(("T+", ev["retreat"]))
            out += shape(ev["body"])
            out.append(("T-", ev.get("out")))
    return out


def real_outcome(r, intern, max_errors):
    """canonical outcome of one real run in the model's vocabulary"""
    checks = flat_events(r["trace"])
    if r["status"] == "returned":
        errs = [intern(err_desc(e)) for e in (checks[-1]["errs"] if checks else [])]
        log = [[intern(err_desc(e)) for e in c["errs"]] for c in checks if c["lvl"] == "WARN"]
        return f"ok errors={errs} log={log}"
    if r["status"] == "ParseError":
        e = r["exc"]
        ids = [intern(d.get("description") or "") for d in e.errors]
        # how many error texts does the message render?  (the raising check's error list is known)
        src = checks[-1]["errs"] if checks and r["level"] == "RAISE" else None
        if src is not None:
            text = str(e)
            k = 0
            pos = 0
            for x in src:
                sx = str(x)
                if text.startswith(sx, pos):
                    k += 1
                    pos += len(sx) + 2
                else:
                    break
            m = re.search(r"\.\.\. and (\d+) more$", text)
            more = int(m.group(1)) if m else 0
            rendered = ids[:k]
        else:
            rendered, more = ids, 0
        return f"exc errors={ids} rendered={rendered} more={more}"
    return "other " + r["status"]


# ------------------------------------------------------------------------------------------ input generators
IDS = ["a", "b", "c", "x", "y", "t", "u", "tbl", "col1"]
TYPES = ["INT", "BIGINT", "VARCHAR(10)", "TEXT", "DECIMAL(10, 2)", "DATE", "TIMESTAMP", "BOOLEAN", "DOUBLE", "ARRAY<INT>",
         "INT[]", "STRUCT<a INT, b TEXT>", "MAP<TEXT, INT>", "TIMESTAMP WITH TIME ZONE", "FLOAT64", "Nullable(Int32)"]
BINOPS = ["+", "-", "*", "/", "%", "||", "=", "<>", "<", ">=", "AND", "OR", "LIKE", "IS", "->", "->>", "&", "|", "<<", "::"]
KEYWORDS = ["SELECT", "FROM", "WHERE", "GROUP", "BY", "ORDER", "AS", "ON", "JOIN", "AND", "OR", "NOT", "IN", "(", ")", ",", ";",
            "CASE", "WHEN", "THEN", "ELSE", "END", "CAST", "NULL", "*", ".", "=", "<", "[", "]", "INTERVAL", "OVER", "WITH",
            "UNION", "LIMIT", "BETWEEN", "IS", "DISTINCT", "::", "->", "{", "}", ":", "BEGIN", "VALUES", "SET", "TABLE", "LATERAL",
            "1", "'s'", "x", "@", "?", "EXISTS", "ALL", "ANY", "USING", "WINDOW", "QUALIFY", "PIVOT", "FOR", "TO"]


def g_expr(rng, d=0):
    r = rng.random()
    if d > 3 or r < 0.22:
        return rng.choice(IDS + ["t.a", "u.b", "1", "2.5", "'s'", "NULL", "TRUE", "*", "?", "@v", "DATE '2020-01-01'", "x.y.z"])
    if r < 0.45:
        op = rng.choice(BINOPS)
        if op == "::":
            return f"{g_expr(rng, d + 1)}::{rng.choice(TYPES)}"
        if op == "IS":
            return f"{g_expr(rng, d + 1)} IS {rng.choice(['NULL', 'NOT NULL', 'TRUE', 'DISTINCT FROM 1'])}"
        return f"{g_expr(rng, d + 1)} {op} {g_expr(rng, d + 1)}"
    if r < 0.53:
        return f"CAST({g_expr(rng, d + 1)} AS {rng.choice(TYPES)})"
    if r < 0.60:
        return f"({g_expr(rng, d + 1)})"
    if r < 0.66:
        return f"CASE WHEN {g_expr(rng, d + 1)} THEN {g_expr(rng, d + 1)} ELSE {g_expr(rng, d + 1)} END"
    if r < 0.72:
        return f"{g_expr(rng, d + 1)} {rng.choice(['', 'NOT '])}IN ({g_expr(rng, d + 1)}, {g_expr(rng, d + 1)})"
    if r < 0.76:
        return f"{g_expr(rng, d + 1)} BETWEEN {g_expr(rng, d + 1)} AND {g_expr(rng, d + 1)}"
    if r < 0.80:
        return f"{rng.choice(['SUM', 'COUNT', 'MAX', 'ROW_NUMBER', 'LAG'])}({g_expr(rng, d + 1)}) OVER (PARTITION BY {g_expr(rng, d + 1)} ORDER BY {g_expr(rng, d + 1)} {rng.choice(['', 'ROWS BETWEEN 1 PRECEDING AND CURRENT ROW', 'DESC NULLS LAST'])})"
    if r < 0.84:
        return f"{rng.choice(['TRANSFORM', 'FILTER', 'LIST_TRANSFORM'])}({g_expr(rng, d + 1)}, {rng.choice(['x', '(x, y)'])} -> {g_expr(rng, d + 1)})"
    if r < 0.87:
        return f"INTERVAL {rng.choice(['1', chr(39) + '1' + chr(39), chr(39) + '1 day' + chr(39), 'x'])} {rng.choice(['DAY', 'MONTH', 'YEAR TO MONTH', ''])}"
    if r < 0.90:
        return f"(SELECT {g_expr(rng, d + 2)} FROM t)"
    if r < 0.93:
        return f"{g_expr(rng, d + 1)}[{g_expr(rng, d + 2)}]"
    if r < 0.96:
        return f"EXTRACT({rng.choice(['YEAR', 'DAY', 'EPOCH'])} FROM {g_expr(rng, d + 1)})"
    f = rng.choice(["COALESCE", "IF", "CONCAT", "DATE_TRUNC", "SUBSTRING", "TRIM", "ARRAY", "STRUCT", "TRY_CAST", "JSON_EXTRACT",
                    "DATE_ADD", "DATEDIFF", "STR_TO_DATE", "TO_CHAR", "GENERATE_SERIES", "NVL2", "APPROX_DISTINCT", "foo"])
    if f == "TRY_CAST":
        return f"TRY_CAST({g_expr(rng, d + 1)} AS {rng.choice(TYPES)})"
    return f"{f}({', '.join(g_expr(rng, d + 1) for _ in range(rng.choice([0, 1, 2, 2, 3])))})"


def g_select(rng, d=0):
    s = "SELECT " + rng.choice(["", "", "DISTINCT ", "ALL ", "TOP 3 "]) + ", ".join(
        g_expr(rng, d + 1) + rng.choice(["", "", " AS c1", " c2"]) for _ in range(rng.randint(1, 3)))
    if rng.random() < 0.85:
        src = rng.choice(["t", "t AS u", "db.t", "(SELECT * FROM t) AS s", "t TABLESAMPLE (10 PERCENT)", "UNNEST(arr) AS u(x)",
                          "t, LATERAL (SELECT 1) AS l", "t PIVOT(SUM(a) FOR b IN ('x', 'y'))", "generate_series(1, 3) AS g"])
        s += " FROM " + src
        if rng.random() < 0.4:
            s += f" {rng.choice(['', 'LEFT ', 'INNER ', 'CROSS ', 'FULL OUTER ', 'LEFT SEMI ', 'ASOF '])}JOIN u ON {g_expr(rng, d + 1)}"
        if rng.random() < 0.2:
            s += " LATERAL VIEW EXPLODE(arr) e AS x"
    if rng.random() < 0.5:
        s += " WHERE " + g_expr(rng, d + 1)
    if rng.random() < 0.3:
        s += " GROUP BY " + rng.choice(["a", "1, 2", "ALL", "ROLLUP (a, b)", "GROUPING SETS ((a), (b))", "CUBE (a)"])
        if rng.random() < 0.4:
            s += " HAVING " + g_expr(rng, d + 1)
    if rng.random() < 0.12:
        s += " QUALIFY " + g_expr(rng, d + 1)
    if rng.random() < 0.3:
        s += " ORDER BY " + g_expr(rng, d + 2) + rng.choice(["", " DESC", " NULLS FIRST", " ASC NULLS LAST"])
    if rng.random() < 0.3:
        s += rng.choice([" LIMIT 10", " LIMIT 5 OFFSET 2", " FETCH FIRST 3 ROWS ONLY", " LIMIT 1, 2"])
    if rng.random() < 0.08:
        s += rng.choice([" FOR UPDATE", " FOR SHARE", " INTO OUTFILE 'f'"])
    if d < 2 and rng.random() < 0.12:
        s += rng.choice([" UNION ALL ", " UNION ", " EXCEPT ", " INTERSECT "]) + g_select(rng, d + 1)
    if d == 0 and rng.random() < 0.15:
        s = f"WITH {rng.choice(['', 'RECURSIVE '])}cte AS ({g_select(rng, 2)}) " + s
    return s


def g_statement(rng):
    r = rng.random()
    if r < 0.55:
        return g_select(rng)
    cols = ", ".join(f"{c} {rng.choice(TYPES)}{rng.choice(['', ' NOT NULL', ' DEFAULT 0', ' PRIMARY KEY', ' COMMENT ' + chr(39) + 'c' + chr(39)])}"
                     for c in rng.sample(IDS, rng.randint(1, 3)))
    opts = [
        lambda: f"CREATE {rng.choice(['', 'OR REPLACE ', 'TEMPORARY '])}TABLE {rng.choice(['', 'IF NOT EXISTS '])}t ({cols}){rng.choice(['', ' PARTITIONED BY (a)', ' ENGINE=InnoDB', ' WITH (format=' + chr(39) + 'x' + chr(39) + ')', ' USING parquet', ' CLUSTER BY (a)'])}",
        lambda: f"CREATE TABLE t AS {g_select(rng, 1)}",
        lambda: f"CREATE {rng.choice(['', 'MATERIALIZED '])}VIEW v AS {g_select(rng, 1)}",
        lambda: f"INSERT INTO t {rng.choice(['', '(a, b) '])}VALUES ({g_expr(rng, 2)}, {g_expr(rng, 2)}){rng.choice(['', ' ON CONFLICT DO NOTHING', ' RETURNING a'])}",
        lambda: f"INSERT {rng.choice(['INTO', 'OVERWRITE TABLE'])} t {g_select(rng, 1)}",
        lambda: f"UPDATE t SET a = {g_expr(rng, 2)} WHERE {g_expr(rng, 2)}",
        lambda: f"DELETE FROM t WHERE {g_expr(rng, 2)}",
        lambda: f"ALTER TABLE t {rng.choice(['ADD COLUMN z INT', 'DROP COLUMN a', 'RENAME TO u', 'ALTER COLUMN a SET DATA TYPE TEXT', 'ADD PARTITION (a=1)', 'SET TBLPROPERTIES (x=1)'])}",
        lambda: f"DROP {rng.choice(['TABLE', 'VIEW', 'INDEX', 'SCHEMA'])} {rng.choice(['', 'IF EXISTS '])}t{rng.choice(['', ' CASCADE'])}",
        lambda: f"MERGE INTO t USING u ON t.a = u.a WHEN MATCHED THEN UPDATE SET b = u.b WHEN NOT MATCHED THEN INSERT (a) VALUES (u.a)",
        lambda: rng.choice(["SET x = 1", "SHOW TABLES", "DESCRIBE t", "USE db", "TRUNCATE TABLE t", "COMMIT", "BEGIN", "ROLLBACK",
                            "GRANT SELECT ON t TO u", "ANALYZE TABLE t COMPUTE STATISTICS", "EXPLAIN SELECT 1", "VACUUM t",
                            "CALL p(1)", "COMMENT ON TABLE t IS 'x'", "PRAGMA foo", "CACHE TABLE t", "OPTIMIZE TABLE t",
                            "COPY t FROM 's3://b' WITH (FORMAT csv)", "CREATE FUNCTION f(x INT) RETURNS INT AS 'x'",
                            "CREATE INDEX i ON t (a)", "DECLARE @x INT = 1", "KILL 1", "REFRESH TABLE t", "LOAD DATA INPATH 'p' INTO TABLE t"]),
        lambda: f"SELECT /*+ {rng.choice(['BROADCAST(t)', 'FOO(a b)', 'A(', 'INDEX(t i), USE_NL(u)', 'x y', ')'])} */ a FROM t",
        lambda: f"IF {g_expr(rng, 2)} BEGIN {g_select(rng, 2)}; {g_select(rng, 2)} END",
        lambda: f"BEGIN {g_select(rng, 2)}; {g_select(rng, 2)}; END",
        lambda: f"WHILE {g_expr(rng, 2)} BEGIN {g_select(rng, 2)}; END",
    ]
    return rng.choice(opts)()


TOK_RE = re.compile(r"'[^']*'|\"[^\"]*\"|`[^`]*`|[A-Za-z_@][A-Za-z_0-9]*|\d+(?:\.\d+)?|::|->>|->|<>|>=|<=|\|\||<<|/\*\+|\*/|[^\sA-Za-z_0-9]")


def toks(sql):
    return TOK_RE.findall(sql)


def untoks(ts):
    return " ".join(ts)


def mutate(rng, sql):
    ts = toks(sql)
    for _ in range(rng.choice([1, 1, 1, 2, 3])):
        if not ts:
            break
        i = rng.randrange(len(ts))
        r = rng.random()
        if r < 0.35:
            del ts[i]
        elif r < 0.55:
            ts.insert(i, rng.choice(KEYWORDS))
        elif r < 0.7:
            ts[i] = rng.choice(KEYWORDS)
        elif r < 0.8 and len(ts) > 1:
            j = min(i + 1, len(ts) - 1)
            ts[i], ts[j] = ts[j], ts[i]
        elif r < 0.9:
            ts = ts[:i]
        else:
            ts.insert(i, ts[i])
    return untoks(ts)


def g_script(rng):
    n = rng.choice([1, 1, 1, 2, 2, 3, 4])
    parts = []
    for _ in range(n):
        s = g_statement(rng)
        r = rng.random()
        if r < 0.45:
            s = mutate(rng, s)
        parts.append(s)
    return ";\n".join(parts) + rng.choice(["", "", ";", "; ;"])


CORPUS = [
    "SELECT CAST(a AS) FROM t",
    "SELECT a FROM",
    "SELECT (a, FROM t; SELECT 1; SELECT CAST(1 AS FOO BAR)",
    "SELECT 1; SELECT a b c; SELECT 2 +; SELECT 3",
    "SELECT CASE WHEN a THEN b FROM t",
    "SELECT x -> FROM t",
    "SELECT a::INT[ FROM t",
    "CREATE TABLE t (a DECIMAL(10, ), b INT",
    "SELECT * FROM t WHERE a IN (1, 2; DROP TABLE",
    "SELECT INTERVAL FROM t",
    "SELECT a FROM t JOIN ON x",
    "INSERT INTO t VALUES (1, ), (2",
    "SELECT a FROM t ORDER BY LIMIT",
    "SELECT foo(a, b => ) FROM t",
    "IF a BEGIN SELECT 1 +; SELECT CAST(a AS) END",
    "BEGIN SELECT ); SELECT 2; END",
    "SELECT /*+ A( */ CAST(a AS) FROM",
    "WITH c AS (SELECT 1 SELECT * FROM c",
    "SELECT a FROM t WHERE EXISTS (SELECT",
    "SELECT COUNT(DISTINCT) OVER (PARTITION BY ORDER BY) FROM t",
    "GRANT SELECT ON t TO u; SELECT 1 +",
    "SELECT 1 +; GRANT SELECT ON t TO u; SELECT CAST(a AS)",
    "SELECT y =",
    "SELECT y = FROM t; SELECT x = 1",
    "SELECT DATE_ADD(a, 1), DATE_SUB(b, c)",
    "SELECT /*+ */ 1",
    "SELECT a:b:c::INT, x -> 'k' ->> FROM t",
    "SELECT a FROM t LIMIT VAR_MAP(1)",
    "SELECT a FROM t, DATE_ADD(1)",
    "SELECT a FROM t, HASHBYTES(x); SELECT a FROM t WHERE",
]


def all_dialects():
    """the Dialects enum UNION the importable dialect modules (the enum has no entry for every module, e.g. singlestore)"""
    from sqlglot.dialects.dialect import Dialects
    import sqlglot.dialects as dmod
    names = {d.value for d in Dialects if d.value} | set(getattr(dmod, "DIALECT_MODULE_NAMES", ()))
    return [None] + sorted(names)


# ------------------------------------------------------------------------------------------ correspondence
def correspond(chk: Check, budget_s: float) -> list:
    """WARN trace -> straight-line model program; model outcomes at four levels vs the four real runs"""
    rng = chk.rng
    dialects = all_dialects()
    t0 = time.time()
    cases = []
    inputs = [(s, d) for s in CORPUS for d in (None, rng.choice(dialects))]
    n_target = chk.pick(700, 12000)
    while len(inputs) < n_target:
        inputs.append((g_script(rng), rng.choice(dialects)))
    lines, expect, meta = [], [], []
    hints = []
    for sql, d in inputs:
        if time.time() - t0 > budget_s:
            break
        max_errors = rng.choice([0, 1, 2, 3, 3, 5])
        max_nodes = None if d == "athena" else rng.choice([None, None, None, None, 3, 12])
        runs = {L: parse_run(sql, d, L, max_errors, max_nodes, api=rng.choice(["parse", "parser"])) for L in LEVELS}
        if any(r["status"] not in ("returned", "ParseError") for r in runs.values()):
            chk.count("corr:skipped-" + ",".join(sorted({r["status"] for r in runs.values()})))
            if not all(r["status"] == "TokenError" for r in runs.values()):
                hints.append((sql, d, max_errors, max_nodes))
            continue
        wa = runs["WARN"]
        if wa["status"] != "returned":
            hints.append((sql, d, max_errors, max_nodes))
            continue
        intern = Intern()
        prog = trace_to_prog(wa["trace"], intern)
        n_ev = len(shape(wa["trace"]))
        has_try_err = '"c": "try"' in json.dumps(prog) and bool(flat_events(wa["trace"]) and flat_events(wa["trace"])[-1]["errs"])
        chk.case(("corr", sql, d, max_errors, max_nodes), nontrivial=n_ev > 2,
                 sample={"sql": sql[:120], "dialect": d, "events": n_ev} if len(cases) % 173 == 0 else None)
        chk.count("corr:events", n_ev)
        chk.count("corr:warn-errors>0" if flat_events(wa["trace"]) and flat_events(wa["trace"])[-1]["errs"] else "corr:warn-clean")
        if has_try_err:
            chk.count("corr:errors-after-try_parse")
        # Python-side trace validation (mirrors try_parse_restores_level / level_preserved / lockstep lemmas)
        sw = shape(wa["trace"])
        for L, r in runs.items():
            for msg in level_rule_violations(r["trace"], L)[:1]:
                chk.correspondence_broken("error_level seen at an event", {"sql": sql, "dialect": d, "level": L, "what": msg})
                hints.append((sql, d, max_errors, max_nodes))
            sl = shape(r["trace"])
            if L == "IGNORE" and sl != sw:
                chk.correspondence_broken("IGNORE and WARN event traces differ (control flow depends on the level)",
                                          {"sql": sql, "dialect": d, "first_diff": next((i for i, (a, b) in enumerate(zip(sl, sw)) if a != b), min(len(sl), len(sw)))})
                hints.append((sql, d, max_errors, max_nodes))
            if L in ("RAISE", "IMMEDIATE") and sl != sw[:len(sl)]:
                chk.correspondence_broken(f"{L} event trace is not a prefix of WARN's",
                                          {"sql": sql, "dialect": d, "first_diff": next((i for i, (a, b) in enumerate(zip(sl, sw)) if a != b), None)})
                hints.append((sql, d, max_errors, max_nodes))
        for L in LEVELS:
            lines.append(json.dumps({"op": "parse", "level": L, "max": max_errors, "maxNodes": max_nodes, "prog": prog}))
            expect.append(real_outcome(runs[L], intern, max_errors))
            meta.append((sql, d, max_errors, max_nodes, L))
        cases.append((sql, d))
    got = chk.driver("C14", lines) if lines else []
    chk.corr_cases += len(cases)
    seen = set()
    for g, e, m in zip(got, expect, meta):
        if g != e and m[:2] not in seen:
            seen.add(m[:2])
            chk.correspondence_broken("four-level outcome of the WARN trace replayed through the model",
                                      {"sql": m[0], "dialect": m[1], "max_errors": m[2], "max_nodes": m[3], "level": m[4], "model": g, "impl": e})
            hints.append(m[:4])
    return hints


# generator side ---------------------------------------------------------------------------------------
GEN_SQL = [
    "SELECT a FROM t TABLESAMPLE (10 PERCENT)",
    "SELECT a FROM t QUALIFY ROW_NUMBER() OVER (PARTITION BY a ORDER BY b) = 1",
    "SELECT * FROM t PIVOT(SUM(a) FOR b IN ('x', 'y'))",
    "SELECT a FROM t FOR UPDATE",
    "SELECT a ILIKE ANY ('x', 'y') FROM t",
    "SELECT * FROM t LATERAL VIEW EXPLODE(arr) e AS x",
    "INSERT INTO t VALUES (1) RETURNING a",
    "SELECT ARRAY_AGG(a ORDER BY b) FROM t",
    "SELECT a FROM t GROUP BY ALL",
    "SELECT * , COUNT(*) FROM t GROUP BY ALL",
    "SELECT DISTINCT ON (a) a, b FROM t",
    "SELECT a FROM t ORDER BY a NULLS FIRST LIMIT 1 WITH TIES",
    "SELECT JSON_EXTRACT(a, '$.x[*].y') FROM t",
    "SELECT a FROM t1 FULL OUTER JOIN t2 USING (a)",
    "SELECT * FROM UNNEST(a, b) AS u(x, y)",
    "SELECT EXPLODE(a), EXPLODE(b) FROM t",
    "SELECT DATE_TRUNC('week', a), a AT TIME ZONE 'UTC' FROM t",
    "CREATE TABLE t (a INT) PARTITIONED BY (b) CLUSTER BY (a)",
    "CREATE TABLE t (a INT COMMENT 'x', b TEXT COLLATE 'c') WITH (x=1)",
    "SELECT a FROM t MATCH_RECOGNIZE (PARTITION BY a PATTERN (x+) DEFINE x AS a > 1)",
    "SELECT SAFE_CAST(a AS INT64), a IS DISTINCT FROM b, TRY_CAST(a AS DATE FORMAT 'x') FROM t",
    "SELECT x FROM t, LATERAL FLATTEN(input => a) f",
    "SELECT MEDIAN(a), PERCENTILE_CONT(0.5) WITHIN GROUP (ORDER BY a), APPROX_QUANTILE(a, 0.5) FROM t",
    "SELECT a FROM t WHERE a REGEXP_LIKE 'x' OR a RLIKE 'y' OR a SIMILAR TO 'z'",
    "WITH RECURSIVE c AS (SELECT 1 UNION ALL SELECT a + 1 FROM c) SELECT * FROM c",
    "SELECT STRUCT(1 AS a, 'x' AS b), MAP(ARRAY['a'], ARRAY[1]), [1, 2][1]",
    "SELECT DATE_ADD(a, INTERVAL 1 MONTH), DATEDIFF(a, b), LAST_DAY(a), TO_TIMESTAMP(a, 'yyyy') FROM t",
    "SELECT * FROM t AS OF TIMESTAMP '2020-01-01'",
    "SELECT * FROM t FOR SYSTEM_TIME AS OF '2020-01-01'",
    "SELECT * EXCEPT (a) REPLACE (b AS c) FROM t",
    "SELECT IFF(a, 1, 2), NVL2(a, 1, 2), a ? 'k', a @> b, a <-> b FROM t",
    "SELECT a FROM t ORDER BY a LIMIT 10 BY b",
    "SELECT a FROM t SETTINGS x = 1 FORMAT JSON",
    "UPDATE t SET a = 1 FROM u WHERE t.a = u.a RETURNING *",
    "SELECT LISTAGG(a, ',') WITHIN GROUP (ORDER BY b), GROUP_CONCAT(DISTINCT a ORDER BY b SEPARATOR ';'), STRING_AGG(a, ',') FROM t",
    "SELECT CAST(a AS STRUCT<x INT, y ARRAY<TEXT>>), CAST(b AS MAP<TEXT, INT>), CAST(c AS TIMESTAMPTZ), CAST(d AS UUID) FROM t",
]


def gen_run(tree, write, level, max_unsupported=3, via=None):
    sqlglot, exp, ErrorLevel, ParseError, UnsupportedError, TokenError, SqlglotError = sg()
    install()
    _TRACE["gen"] = []
    before = len(_CAP.records)
    rec: dict = {"level": level}
    try:
        with watchdog():
            if via is None:
                rec["sql"] = tree.sql(dialect=write, unsupported_level=ErrorLevel[level], max_unsupported=max_unsupported)
            else:
                sql, read = via
                rec["sql"] = sqlglot.transpile(sql, read=read, write=write, unsupported_level=ErrorLevel[level],
                                               max_unsupported=max_unsupported)
        rec["status"] = "returned"
    except _Watchdog as e:
        rec["status"] = "RecursionError"
        rec["exc"] = e
        rec["timeout"] = True
        if len(TIMEOUTS) < 10:
            TIMEOUTS.append({"call": "generate", "sql": tree.sql()[:400], "write": write, "level": level})
    except UnsupportedError as e:
        rec["status"] = "UnsupportedError"
        rec["exc"] = e
    except RecursionError as e:
        rec["status"] = "RecursionError"
        rec["exc"] = e
    except Exception as e:  # noqa
        rec["status"] = "internal:" + type(e).__name__
        rec["exc"] = e
    rec["calls"] = _TRACE["gen"]
    _TRACE["gen"] = None
    rec["log"] = _CAP.records[before:]
    del _CAP.records[:]
    return rec


def gen_relation(tree, write, max_unsupported=3, via=None, runs=None):
    runs = runs or {L: gen_run(tree, write, L, max_unsupported, via) for L in LEVELS}
    ig, wa, ra, im = (runs[L] for L in LEVELS)
    bad: list = []
    if any(r["status"].startswith("internal") or r["status"] == "RecursionError" for r in runs.values()):
        return bad, runs  # C05's business (a crash is the same crash under every level unless shown otherwise)
    msgs = [m for m, _, _ in wa["calls"]]
    if wa["status"] == "UnsupportedError" or ig["status"] == "UnsupportedError":
        # an UnsupportedError raised directly (not through Generator.unsupported): WARN logs nothing, yet RAISE raises
        texts = {str(r["exc"]) if r["status"] == "UnsupportedError" else "<returned>" for r in runs.values()}
        bad.append(("hard-unsupported", f"UnsupportedError raised whatever the unsupported_level: {sorted(texts)[0][:90]}"))
        return bad, runs
    warn_logged = [m for lv, m in wa["log"] if lv == "WARNING" and m in msgs]
    if warn_logged != msgs:
        bad.append(("gen-warn-log", f"WARN: {len(msgs)} unsupported() calls, {len(warn_logged)} WARNING records"))
    if ig["sql"] != wa["sql"]:
        bad.append(("gen-ignore-warn-differ", "IGNORE and WARN produced different SQL"))
    if [m for lv, m in ig["log"] if m in msgs and lv == "WARNING"] and msgs:
        bad.append(("gen-ignore-logged", "IGNORE logged unsupported messages"))
    if ra["status"] == "returned":
        if msgs:
            bad.append(("gen-raise-silent", f"WARN logged {len(msgs)} message(s) but RAISE returned"))
        elif ra["sql"] != wa["sql"]:
            bad.append(("gen-raise-warn-differ", "RAISE produced different SQL than WARN"))
    else:
        if not msgs:
            bad.append(("gen-raise-spurious", f"RAISE raised but WARN logged nothing: {str(ra['exc'])[:80]}"))
        else:
            more = len(msgs) - max_unsupported
            text = "\n\n".join(msgs[:max_unsupported] + ([f"... and {more} more"] if more > 0 else []))
            if str(ra["exc"]) != text:
                bad.append(("gen-raise-message", f"message is not concat_messages(messages, {max_unsupported})"))
    if im["status"] == "returned":
        if msgs:
            bad.append(("gen-immediate-silent", f"WARN logged {len(msgs)} message(s) but IMMEDIATE returned"))
        elif im["sql"] != wa["sql"]:
            bad.append(("gen-immediate-warn-differ", "IMMEDIATE produced different SQL than WARN"))
    else:
        if not msgs:
            bad.append(("gen-immediate-spurious", f"IMMEDIATE raised but WARN logged nothing: {str(im['exc'])[:80]}"))
        elif str(im["exc"]) != msgs[0]:
            bad.append(("gen-immediate-not-first", f"IMMEDIATE raised {str(im['exc'])[:60]!r}, first message is {msgs[0][:60]!r}"))
    return bad, runs


def gen_inputs(chk, n):
    rng = chk.rng
    sqlglot, exp, ErrorLevel, ParseError, *_ = sg()
    dialects = all_dialects()
    out = []
    pool = list(GEN_SQL)
    tries = 0
    while len(out) < n and tries < n * 4:
        tries += 1
        if rng.random() < 0.55:
            sql, read = rng.choice(pool), rng.choice([None, None] + dialects)
        else:
            sql, read = g_statement(rng), rng.choice(dialects)
        try:
            with watchdog():
                trees = [t for t in sqlglot.parse(sql, read=read) if t is not None]
        except Exception:  # noqa
            continue
        finally:
            del _CAP.records[:]
        for t in trees[:1]:
            out.append((sql, read, t, rng.choice(dialects), rng.choice([0, 1, 2, 3, 3, 5])))
    return out


def correspond_gen(chk: Check, budget_s: float) -> list:
    t0 = time.time()
    hints, lines, expect, meta = [], [], [], []
    for sql, read, tree, write, mx in gen_inputs(chk, chk.pick(350, 6000)):
        if time.time() - t0 > budget_s:
            break
        via = (sql, read) if chk.rng.random() < 0.3 else None
        runs = {L: gen_run(tree, write, L, mx, via) for L in LEVELS}
        wa = runs["WARN"]
        if wa["status"] != "returned" or any(r["status"] not in ("returned", "UnsupportedError") for r in runs.values()):
            chk.count("gencorr:skipped-" + wa["status"])
            hints.append((sql, read, write, mx))
            continue
        intern = Intern()
        calls = [intern(m) for m, _, _ in wa["calls"]]
        chk.case(("gencorr", sql, read, write, mx), nontrivial=bool(calls))
        chk.count("gencorr:unsupported-calls", len(calls))
        chk.count("gencorr:with-unsupported" if calls else "gencorr:clean")
        # the level seen by Generator.unsupported is the configured one, and messages accumulate from zero
        for L, r in runs.items():
            for i, (m, lv, n) in enumerate(r["calls"]):
                if lv != L or (via is None and n != i):
                    chk.correspondence_broken("Generator.unsupported saw another level / stale messages",
                                              {"sql": sql, "read": read, "write": write, "level": L, "seen": lv, "n": n, "i": i})
        text = wa["sql"] if via is None else "\n".join(wa["sql"])
        for L in LEVELS:
            r = runs[L]
            lines.append(json.dumps({"op": "gen", "level": L, "max": mx, "calls": calls, "text": "T"}))
            if r["status"] == "returned":
                rt = r["sql"] if via is None else "\n".join(r["sql"])
                logged = [intern(m) for lv, m in r["log"] if lv == "WARNING" and m in intern.ids]
                expect.append(f"ret same={rt == text} logged={logged}")
            else:
                s = str(r["exc"])
                parts = s.split("\n\n")
                more = 0
                mm = re.fullmatch(r"\.\.\. and (\d+) more", parts[-1]) if parts else None
                if mm:
                    more = int(mm.group(1))
                    parts = parts[:-1]
                expect.append(f"exc rendered={[intern.ids.get(p, -1) for p in parts]} more={more}")
            meta.append((sql, read, write, mx, L))
    got = chk.driver("C14", lines) if lines else []
    chk.corr_cases += len(lines) // 4
    seen = set()
    for g, e, m in zip(got, expect, meta):
        if g != e and m[:3] not in seen:
            seen.add(m[:3])
            chk.correspondence_broken("Generator.generate outcome vs model", {"sql": m[0], "read": m[1], "write": m[2],
                                                                                "max_unsupported": m[3], "level": m[4], "model": g, "impl": e})
            hints.append(m[:4])
    return hints


# ------------------------------------------------------------------------------------------ search
def abstract(sql):
    out = []
    for t in toks(sql):
        if t.startswith("'"):
            out.append("lit")
        elif t[:1] in ('"', "`"):
            out.append("qid")
        elif re.fullmatch(r"\d+(\.\d+)?", t):
            out.append("n")
        elif re.fullmatch(r"[A-Za-z_@][A-Za-z_0-9]*", t) and t.upper() != t:
            out.append("id")
        else:
            out.append(t.upper())
    return " ".join(out)


def ddmin(ts, test):
    n = 2
    while len(ts) >= 2:
        chunk = max(1, len(ts) // n)
        reduced = False
        for i in range(0, len(ts), chunk):
            cand = ts[:i] + ts[i + chunk:]
            if cand and test(cand):
                ts = cand
                n = max(n - 1, 2)
                reduced = True
                break
        if not reduced:
            if chunk == 1:
                break
            n = min(n * 2, len(ts))
    return ts


def abstract_msg(text):
    text = text.split(". Line ")[0].split("\n")[0]
    text = re.sub(r"<class '(?:[\w.]*\.)?(\w+)'>", r"<class \1>", text)
    text = re.sub(r"'[^']*'", "lit", text)
    text = re.sub(r"<Token[^>]*>", "tok", text)
    return re.sub(r"\d+", "n", text)[:120]


_SEEN_KEYS: set = set()


def report_parse(chk, sql, d, mx, mn, bad):
    kind = bad[0][0]
    msg_keyed = kind.startswith("lenient-raises-") or kind.startswith("lenient-internal")
    if msg_keyed:
        # a ParseError / internal exception escaping a lenient run: identified by the raise site's message
        key0 = f"parse:{kind}:msg={abstract_msg(bad[0][1].split(': ', 1)[-1])}"
        if key0 in _SEEN_KEYS:
            chk.count("search:repeat-" + kind)
            return
        _SEEN_KEYS.add(key0)
    deadline = time.time() + (3 if msg_keyed else 8)

    def test(ts):
        if time.time() > deadline:
            return False
        b, _ = four_run_relation(untoks(ts), d, mx, mn)
        return any(k == kind for k, _ in b)

    ts = toks(sql)
    if test(ts):
        ts = ddmin(ts, test)
        sql_min = untoks(ts)
    else:
        sql_min = sql
    b, runs = four_run_relation(sql_min, d, mx, mn)
    text = next((t for k, t in b if k == kind), bad[0][1])
    if msg_keyed:
        # key on the message of the MINIMISED input (the original may have shown another message of the same raise family)
        key = f"parse:{kind}:msg={abstract_msg(text.split(': ', 1)[-1])}"
        _SEEN_KEYS.add(key)
    else:
        key = f"parse:{kind}:{abstract(sql_min)}"
    chk.report_violation(key, text,
                         {"kind": "parse", "sql": sql_min, "dialect": d, "max_errors": mx, "max_nodes": mn, "original": sql},
                         {"dialect": d or "", "immediate": runs["IMMEDIATE"]["status"],
                          "immediate_class": ("same-internal" if runs["IMMEDIATE"]["status"].startswith("internal") and
                                              runs["IMMEDIATE"]["status"] == runs["IGNORE"]["status"] == runs["WARN"]["status"]
                                              else runs["IMMEDIATE"]["status"])})


def report_gen(chk, sql, read, write, mx, bad):
    sqlglot, *_ = sg()
    kind = bad[0][0]

    def test(ts):
        try:
            with watchdog():
                trees = [t for t in sqlglot.parse(untoks(ts), read=read) if t is not None]
        except Exception:  # noqa
            return False
        if not trees:
            return False
        b, _ = gen_relation(trees[0], write, mx)
        return any(k == kind for k, _ in b)

    ts = toks(sql)
    sql_min = untoks(ddmin(ts, test)) if test(ts) else sql
    key = f"gen:{kind}:{abstract(sql_min)}"
    if kind == "hard-unsupported":
        key = f"gen:{kind}:{bad[0][1].split(': ', 1)[-1]}"
    chk.report_violation(key, bad[0][1],
                         {"kind": "gen", "sql": sql_min, "read": read, "write": write, "max_unsupported": mx, "original": sql},
                         {"write": write or ""})


def search(chk: Check, hints, gen_hints, budget_s: float) -> None:
    sqlglot, *_ = sg()
    rng = chk.rng
    dialects = all_dialects()
    t0 = time.time()
    tried = found = gtried = 0

    def consider(sql, d, mx, mn):
        nonlocal tried, found
        tried += 1
        bad, runs = four_run_relation(sql, d, mx, mn, api=rng.choice(["parse", "parser"]))
        st = runs["WARN"]["status"]
        chk.count("search:warn-" + st)
        chk.count("search:raise-" + runs["RAISE"]["status"])
        if bad:
            found += 1
            report_parse(chk, sql, d, mx, mn, bad)
        chk.case(("search", sql, d, mx, mn), nontrivial=runs["RAISE"]["status"] != "returned")

    def consider_gen(sql, read, write, mx):
        nonlocal gtried, found
        try:
            with watchdog():
                trees = [t for t in sqlglot.parse(sql, read=read) if t is not None]
        except Exception:  # noqa
            return
        finally:
            del _CAP.records[:]
        if not trees:
            return
        gtried += 1
        bad, runs = gen_relation(trees[0], write, mx, via=(sql, read) if rng.random() < 0.25 and len(trees) == 1 else None)
        chk.count("search:gen-raise-" + runs["RAISE"]["status"])
        if bad:
            found += 1
            report_gen(chk, sql, read, write, mx, bad)
        chk.case(("gsearch", sql, read, write, mx), nontrivial=runs["RAISE"]["status"] != "returned")

    # every unsupported site inside transforms.py, for all four levels (coverage goes into the evidence)
    for sql, rd in UNSUPPORTED_SITE_SQL:
        for wr in UNSUPPORTED_SITE_WRITES:
            consider_gen(sql, rd, wr, rng.choice([0, 1, 3]))
    for h in hints[:40]:
        consider(*h)
    for h in gen_hints[:40]:
        consider_gen(*h)
    for s in CORPUS:
        for d in (None, rng.choice(dialects), "tsql"):
            consider(s, d, rng.choice([0, 1, 3]), None)
    for s in GEN_SQL:
        consider_gen(s, None, rng.choice(dialects), rng.choice([0, 1, 3]))
    while time.time() - t0 < budget_s and len(chk.violations) < 3:
        if rng.random() < 0.65:
            consider(g_script(rng), rng.choice(dialects), rng.choice([0, 1, 2, 3, 3, 7]), rng.choice([None, None, None, 2, 20]))
        else:
            if rng.random() < 0.5:
                consider_gen(rng.choice(GEN_SQL), rng.choice([None] + dialects), rng.choice(dialects), rng.choice([0, 1, 2, 3, 5]))
            else:
                consider_gen(g_statement(rng), rng.choice(dialects), rng.choice(dialects), rng.choice([0, 1, 3]))
    chk.search_info = {"ran": True, "budget_s": budget_s, "parse_inputs": tried, "generate_inputs": gtried, "violating": found,
                       "oracle": "four-run relation on sqlglot.parse / Parser.parse and Expression.sql / transpile "
                                 "(IGNORE=WARN trees, no raise; RAISE raises iff WARN logged ERROR records via check_errors, all errors, "
                                 "<= max rendered; IMMEDIATE raises the first; level restored; generator: same text, raise iff WARN logs)"}


def run(chk: Check) -> None:
    chk.trusted.append("C14: hand-written model Model/Levels.lean of raise_error, validate_expression, check_errors, _try_parse, "
                       "concat_messages, Generator.unsupported/unsupported_args/generate; the parser proper is abstracted to an arbitrary "
                       "program of the Comb language whose control flow cannot read the level (checked on the source by the site list)")
    chk.assumptions += [
        "messages are interned (equal texts = equal ids); highlight_sql / message formatting is not modelled",
        "max_errors / max_unsupported >= 0 (a negative value slices from the end in Python)",
        "sub-parsers started inside a parse are modelled as Comb.subConfined (errors caught / cannot arise: to_json_path, "
        "DataType.from_str at IGNORE) or XComb.subParse (errors propagate: _parse_hint's maybe_parse at IMMEDIATE); direct "
        "`raise ParseError` as XComb.hardRaise; which site is which is the audited allow-list (direct_raise_sites_ok, "
        "nested_parser_sites_ok); the full level statement is proved for confined programs and refuted by counter-example "
        "theorems otherwise; _parse_hint_body's bare `except ParseError` is reachable only through such a sub-parser",
        "only ERROR records emitted by check_errors count as 'WARN logged an error' (the Command fallback logs a WARNING)",
        "non-sqlglot exceptions and RecursionError are C05's subject; under IGNORE/WARN they are reported here as lenient-internal:*",
        "the executor's Python generator (generators/python.py) is not a transpilation target",
    ]
    chk.write_generated(translate(chk))
    proved = chk.prove(MODULES, "Properties.C14", THEOREMS)
    install()
    hints, ghints = [], []
    try:
        hints = correspond(chk, chk.pick(22, 240))
        ghints = correspond_gen(chk, chk.pick(10, 120))
    except HarnessError as e:
        if proved:
            raise
        chk.note(f"model driver unavailable ({e}); continuing with the search on the real code")
    budget = chk.pick(14, 240)
    if chk.broken:
        budget *= 3
    search(chk, hints, ghints, budget)
    sites = transforms_unsupported_sites()
    chk.cov["transforms_unsupported_sites"] = {"sites": [list(x) for x in sites], "reached_lines": sorted(SITES_REACHED),
                                               "unreached": [list(x) for x in sites if x[1] not in SITES_REACHED]}
    chk.cov["watchdog_timeouts"] = TIMEOUTS
    if TIMEOUTS:
        chk.note(f"{len(TIMEOUTS)} call(s) into sqlglot hit the 10 s watchdog (skipped; termination is C05's subject): "
                 + json.dumps(TIMEOUTS[0])[:300])


def replay(path: str) -> int:
    import sys
    sys.path.insert(0, REPO)
    rec = json.load(open(path))
    r = rec.get("replay")
    if not r:
        print(json.dumps(rec, indent=1)[:4000])
        return 1
    sqlglot, *_ = sg()
    if r["kind"] == "parse":
        bad, _ = four_run_relation(r["sql"], r["dialect"], r["max_errors"], r.get("max_nodes"))
    else:
        trees = [t for t in sqlglot.parse(r["sql"], read=r["read"]) if t is not None]
        bad, _ = gen_relation(trees[0], r["write"], r["max_unsupported"])
    print("replay:", ("VIOLATES: " + "; ".join(f"{k}: {t}" for k, t in bad)) if bad else "holds")
    return 1 if bad else 0
