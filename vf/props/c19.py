"""C19 — Concurrent use from many threads gives the single-threaded answers (DESIGN.md §4 C19). PARTIAL by design.

translate : ast + live objects of sqlglot/dialects/__init__.py and sqlglot/optimizer/__init__.py: the kind of
            `_import_lock` (RLock / Lock / none), whether every `importlib.import_module` / `__import__` in the lazy
            `__getattr__` and every `globals()[name] = value` store sits lexically inside `with _import_lock`
            (Generated/C19.lean; `generated_locking_ok := by decide` breaks the build otherwise); informational:
            whether `_Dialect._try_load` imports under a package lock (it does not: importlib's lock is the assumption)
prove     : Properties/C19.lean — mutual exclusion, no self dead-lock / dead-lock freedom, load exactly once,
            no lost registration, schedule-independent results, benign dispatch race; for every reachable state of
            the interleaving model, any number of threads
correspond: cold subprocesses of the REAL code with N threads, switch interval 1e-6 and a barrier; harness-side
            wrappers (lock proxy, `__getattr__` wrapper, `importlib.import_module` wrapper, an import hook around
            `exec_module`, a recording `_DISPATCH_CACHE`) record an event trace; every trace must be a run of the
            Lean model (Driver/C19.lean replays it step by step)
search    : the property's own oracle on the real code in the same and in additional workload processes (tokenize /
            parse / transpile / optimize over all dialects from cold): no thread raises, no hang, every result equals
            the sequential baseline computed in a separate process (re-confirmed by running the call alone), every
            sqlglot module body executes at most once, racing dispatch fills store equal tables

This file is also the child program:  python c19.py child <spec.json> <out.json>
"""

from __future__ import annotations

import json
import os
import sys
import time

# =====================================================================================================
#                                   the child (fresh interpreter)
# =====================================================================================================

PROBE_DIALECT = '''\
# harness-written plug-in dialect: "a dialect may depend on (i.e., import) other dialects" — here through the
# package's lazy attribute access, i.e. a nested acquisition of sqlglot.dialects._import_lock
import sqlglot.dialects as _d
_base = _d.Postgres
_other = _d.MySQL


class VfProbe(_base):
    pass
'''

PROBE_OPTIMIZER = '''\
# harness-written optimizer sub-module whose body reaches siblings through the package's lazy __getattr__
import sqlglot.optimizer as _o
_a = _o.__getattr__("qualify_columns")
_b = _o.__getattr__("Scope")
marker = "vfprobe_o"
'''


def child_main(spec_path: str, out_path: str) -> None:
    import hashlib
    import importlib
    import importlib.machinery
    import logging
    import threading
    import traceback

    spec = json.load(open(spec_path))
    sys.path.insert(0, spec["repo"])
    logging.disable(logging.CRITICAL)

    FORCE = spec.get("force")  # {"module", "tag", "s_thread", "a_thread"}: the forced two-route schedule
    S_IN = threading.Event()    # the string-route thread is inside exec_module of the target (holds its module lock)
    A_HAS = threading.Event()   # the attribute-route thread holds the package lock
    EVENTS: list = []
    TID: dict = {}
    EXEC_COUNT: dict = {}
    FILLS: dict = {}
    CUR_OP: dict = {}

    def rec(kind, arg=None):
        t = TID.get(threading.get_ident())
        if t is not None:
            EVENTS.append((t, kind, arg))

    # ---- import hook: module body start / end for every sqlglot module -----------------------------------
    class LoaderProxy:
        def __init__(self, loader, name):
            self._l = loader
            self._n = name

        def create_module(self, spec_):
            return self._l.create_module(spec_)

        def exec_module(self, module):
            EXEC_COUNT[self._n] = EXEC_COUNT.get(self._n, 0) + 1
            rec("exec", self._n)
            if FORCE and self._n == FORCE["module"] and TID.get(threading.get_ident()) == FORCE["s_thread"]:
                # pause right after the body "starts", module lock held, until the other route owns the package lock
                S_IN.set()
                rec("paused", self._n)
                A_HAS.wait(3.0)
            try:
                self._l.exec_module(module)
            except BaseException:
                rec("execfail", self._n)
                raise
            rec("reg", self._n)

        def __getattr__(self, item):
            return getattr(self._l, item)

    class Finder:
        @staticmethod
        def find_spec(name, path=None, target=None):
            if not name.startswith("sqlglot"):
                return None
            sp = importlib.machinery.PathFinder.find_spec(name, path, target)
            if sp is not None and sp.loader is not None and hasattr(sp.loader, "exec_module"):
                sp.loader = LoaderProxy(sp.loader, name)
            return sp

    sys.meta_path.insert(0, Finder)

    import sqlglot  # noqa: the cold start: no dialect module and no optimizer rule module is loaded yet
    import sqlglot.dialects as D
    import sqlglot.optimizer as O
    import sqlglot.generator as G

    pre_loaded = sorted(m for m in sys.modules if m.startswith("sqlglot"))

    # ---- probes -------------------------------------------------------------------------------------------
    if spec.get("probe"):
        pd = spec["probe_dir"]
        if "MODULE_BY_ATTRIBUTE" in vars(D):
            D.MODULE_BY_ATTRIBUTE["VfProbe"] = "vfprobe"
        D.__path__.append(pd)
        O.__path__.append(pd)

    # ---- lock proxies -------------------------------------------------------------------------------------
    class LockProxy:
        def __init__(self, real, tag):
            self._real = real
            self._tag = tag

        def _forced(self):
            if FORCE and self._tag == FORCE["tag"] and TID.get(threading.get_ident()) == FORCE["a_thread"]:
                A_HAS.set()

        def acquire(self, *a, **k):
            r = self._real.acquire(*a, **k)
            if r:
                rec("acq", self._tag)
                self._forced()
            return r

        def release(self):
            rec("rel", self._tag)
            self._real.release()

        def __enter__(self):
            self._real.acquire()
            rec("acq", self._tag)
            self._forced()
            return self

        def __exit__(self, *a):
            rec("rel", self._tag)
            self._real.release()

    lock_types = {}
    for tag, pkg in (("dialects", D), ("optimizer", O)):
        real = vars(pkg).get("_import_lock")
        lock_types[tag] = type(real).__name__ if real is not None else None
        if real is not None and hasattr(real, "acquire"):
            pkg._import_lock = LockProxy(real, tag)

    # ---- the lazy __getattr__s: record the call and the module it resolves to ------------------------------
    def wrap_getattr(pkg, tag, resolve):
        orig = vars(pkg).get("__getattr__")
        if orig is None:
            return

        def __getattr__(name):  # the name matters: import_module's wrapper looks at the caller's code name
            target = None if name.startswith("__") else resolve(name)
            if target is None:
                return orig(name)
            rec("call", [tag, target])
            try:
                return orig(name)
            except BaseException:
                rec("callfail", [tag, target])
                raise

        __getattr__._vf_orig = orig
        pkg.__getattr__ = __getattr__

    def resolve_d(name):
        m = getattr(D, "MODULE_BY_ATTRIBUTE", {}).get(name)
        return f"sqlglot.dialects.{m}" if m else None

    def resolve_o(name):
        tgt = getattr(O, "_LAZY_ATTRS", {}).get(name)
        return tgt[0] if tgt else f"sqlglot.optimizer.{name}"

    wrap_getattr(D, "dialects", resolve_d)
    wrap_getattr(O, "optimizer", resolve_o)

    # ---- importlib.import_module: who calls it ------------------------------------------------------------
    real_import_module = importlib.import_module

    def import_module(name, package=None):
        f = sys._getframe(1)
        via = None
        if f.f_code.co_name == "__getattr__":
            g = f.f_globals.get("__name__")
            if g == "sqlglot.dialects":
                via = "dialects"
            elif g == "sqlglot.optimizer":
                via = "optimizer"
        if via:
            rec("imp", [via, name])
        elif name.startswith("sqlglot."):
            rec("dimp", name)
        return real_import_module(name, package)

    importlib.import_module = import_module

    # ---- the dispatch cache -------------------------------------------------------------------------------
    def cls_name(c):
        return f"{c.__module__}.{c.__qualname__}"

    def table_fp(d):
        items = sorted((f"{k.__module__}.{k.__qualname__}", getattr(v, "__qualname__", repr(type(v)))) for k, v in d.items())
        return hashlib.sha1(repr(items).encode()).hexdigest()[:16] + f":{len(items)}"

    REC_LOCK = threading.Lock()  # makes "dict operation + its log entry" one atomic step (the log is the linearisation)

    class RecDict(dict):
        def get(self, k, default=None):
            with REC_LOCK:
                v = dict.get(self, k, default)
                rec("chit" if v is not None else "cmiss", cls_name(k))
            return v

        def __setitem__(self, k, v):
            fp = table_fp(v)
            with REC_LOCK:
                rec("cset", cls_name(k))
                FILLS.setdefault(cls_name(k), []).append(fp)
                dict.__setitem__(self, k, v)

    if isinstance(getattr(G, "_DISPATCH_CACHE", None), dict):
        G._DISPATCH_CACHE = RecDict(G._DISPATCH_CACHE)

    # ---- operations ---------------------------------------------------------------------------------------
    def describe(v):
        import types

        if isinstance(v, type):
            return "class:" + cls_name(v)
        if isinstance(v, types.ModuleType):
            return "module:" + v.__name__
        if callable(v):
            return "callable:" + getattr(v, "__qualname__", type(v).__name__)
        return "value:" + type(v).__name__

    SHARED: dict = {}
    shared_names = set()
    for prog_ in spec["threads"]:
        for op_ in prog_:
            if op_[0] == "sh":
                shared_names.update(x for x in (op_[3], op_[4]) if x)
    if shared_names:
        from sqlglot.dialects.dialect import Dialect as _Dialect_cls

        for nm_ in sorted(shared_names):  # resolved ONCE, in the main thread, before any worker starts
            SHARED[nm_] = _Dialect_cls.get_or_raise(nm_)

    def sh_once(what, sql, d1, d2, opt):
        from sqlglot.errors import ErrorLevel

        kw = {"": {}, "pretty": {"pretty": True}, "identify": {"identify": True},
              "raise": {"unsupported_level": ErrorLevel.RAISE}, "nocomments": {"comments": False}}[opt]
        r, w = SHARED[d1], SHARED[d2 or d1]
        try:
            if what == "transpile":
                return "sql:" + repr(sqlglot.transpile(sql, read=r, write=w, **kw))
            if what == "sql":
                return "sql:" + sqlglot.parse_one(sql, read=r).sql(dialect=w, **kw)
            if what == "generate":
                return "sql:" + w.generate(r.parse(sql)[0], **kw)
            if what == "optimize":
                return "opt:" + O.optimize(sqlglot.parse_one(sql, read=r), dialect=r).sql(dialect=w, **kw)
            if what == "parse":
                return "tree:" + repr(r.parse(sql))
            if what == "tokenize":
                return "tokens:" + repr([(t.token_type.name, t.text) for t in r.tokenize(sql)])
        except Exception as e:  # noqa
            return "raise:" + type(e).__name__ + ":" + str(e)[:300]
        raise ValueError("unknown shared op " + what)

    def run_op(op, local):
        kind = op[0]
        if kind == "vt":
            # transpile / optimize with a dialect SETTINGS string ("spark, version=3.0"), repeated; a changing answer is reported
            _, what, sql, rd, wr, reps = op

            def once():
                try:
                    if what == "optimize":
                        return "opt:" + O.optimize(sqlglot.parse_one(sql, read=wr), dialect=wr).sql(dialect=wr)
                    return "sql:" + repr(sqlglot.transpile(sql, read=rd, write=wr))
                except Exception as e:  # noqa
                    return "raise:" + type(e).__name__ + ":" + str(e).splitlines()[0][:200]

            first = once()
            for _ in range(max(0, reps - 1)):
                again = once()
                if again != first:
                    return "unstable:" + first + " || " + again
            return first
        if kind == "sh":
            _, what, sql, d1, d2, opt, reps = op
            first = sh_once(what, sql, d1, d2, opt)
            for _ in range(max(0, reps - 1)):
                again = sh_once(what, sql, d1, d2, opt)
                if again != first:
                    return "unstable:" + first + " || " + again
            return first
        if kind == "attr":
            pkg = D if op[1] == "dialects" else O
            v = getattr(pkg, op[2])
            if isinstance(v, type):
                local[op[2]] = v
            return describe(v)
        if kind == "gen":
            cls = local.get(op[1])
            if cls is None:
                cls = getattr(D, op[1])
            g = cls().generator()
            return "gen:" + cls_name(type(g)) + ":" + table_fp(g._dispatch)
        if kind == "tokenize":
            toks = sqlglot.tokenize(op[1], read=op[2])
            return "tokens:" + repr([(t.token_type.name, t.text) for t in toks])
        if kind == "parse":
            e = sqlglot.parse_one(op[1], read=op[2])
            return "tree:" + repr(e)
        if kind == "transpile":
            return "sql:" + repr(sqlglot.transpile(op[1], read=op[2], write=op[3]))
        if kind == "optimize":
            e = sqlglot.parse_one(op[1], read=op[2])
            return "opt:" + O.optimize(e, dialect=op[2]).sql(dialect=op[2])
        if kind == "import":
            return describe(real_import_module(op[1]))
        if kind == "dialect":
            from sqlglot.dialects.dialect import Dialect

            d = Dialect.get_or_raise(op[1])
            return "dialect:" + cls_name(type(d))
        raise ValueError("unknown op " + kind)

    if spec.get("mode") == "L":
        # ---- load interference: thread A works in the dialects loaded so far, thread B makes the FIRST use of the next one;
        # the two are sequenced with events so the interleaving is always the same
        import re as _re
        import enum as _enum
        from sqlglot.dialects.dialect import Dialect as _Dl

        def canon(v, depth=0):
            if depth > 7:
                return "…"
            if isinstance(v, dict):
                return "{" + ",".join(sorted(canon(k, depth + 1) + ":" + canon(x, depth + 1) for k, x in v.items())) + "}"
            if isinstance(v, (set, frozenset)):
                return "s{" + ",".join(sorted(canon(x, depth + 1) for x in v)) + "}"
            if isinstance(v, (list, tuple)):
                return "[" + ",".join(canon(x, depth + 1) for x in v) + "]"
            if isinstance(v, type):
                return f"<{v.__module__}.{v.__qualname__}>"
            if isinstance(v, _enum.Enum):
                return str(v)
            if isinstance(v, _re.Pattern):
                return "re:" + v.pattern
            if callable(v):
                return "fn:" + getattr(v, "__qualname__", type(v).__name__)
            if isinstance(v, (str, int, float, bool, bytes)) or v is None:
                return repr(v)
            r = repr(v)
            return r if " at 0x" not in r else "<" + type(v).__name__ + ">"

        def tables(d):
            c = type(_Dl.get_or_raise(d))
            res = {}
            from sqlglot.optimizer.annotate_types import TypeAnnotator as _TA

            for role, k in (("dialect", c), ("tokenizer", c.tokenizer_class), ("jsonpath_tokenizer", c.jsonpath_tokenizer_class),
                            ("parser", c.parser_class), ("generator", c.generator_class), ("annotator", _TA)):
                seen_ = set()
                for kk in k.__mro__:
                    if kk is object:
                        continue
                    for name_, v in list(vars(kk).items()):
                        if name_ in seen_ or name_.startswith("__"):
                            continue
                        seen_.add(name_)
                        if isinstance(v, (dict, set, frozenset, list)) and not (role == "dialect" and name_ == "_classes"):
                            res[f"{role}.{name_}"] = hashlib.sha1(canon(v).encode("utf-8", "replace")).hexdigest()[:12] + f":{len(v)}"
            return res

        def probe(d, sql):
            try:
                if sql.startswith("annotate:"):
                    from sqlglot.optimizer.annotate_types import annotate_types as _at

                    e = _at(sqlglot.parse_one(sql[len("annotate:"):], read=d), dialect=d)
                    return "types:" + repr([x.type.sql() if x.type else None for x in e.selects])
                return "sql:" + repr(sqlglot.transpile(sql, read=d, write=d))
            except Exception as e:  # noqa
                return "raise:" + type(e).__name__ + ":" + str(e).splitlines()[0][:120]

        order = spec["order"]
        probes = spec["probes"]
        go = [threading.Event() for _ in order]
        done = [threading.Event() for _ in order]
        snaps: list = []
        errors: list = []

        def loader():
            TID[threading.get_ident()] = 1
            for k, d in enumerate(order):
                go[k].wait(30)
                try:
                    _Dl.get_or_raise(d)  # the first use of d in this process
                except BaseException as e:  # noqa
                    errors.append(f"first use of {d}: {type(e).__name__}: {e}")
                done[k].set()

        def worker_a():
            TID[threading.get_ident()] = 0
            for k, d in enumerate(order):
                go[k].set()
                done[k].wait(60)
                snap = {}
                for j in range(k + 1):
                    dj = order[j]
                    try:
                        snap[dj] = {"fp": tables(dj), "probes": [probe(dj, q) for q in probes]}
                    except BaseException as e:  # noqa
                        errors.append(f"snapshot of {dj}: {type(e).__name__}: {e}")
                snaps.append(snap)

        t0 = time.time()
        ths = [threading.Thread(target=f, daemon=True) for f in (worker_a, loader)]
        for th in ths:
            th.start()
        for th in ths:
            th.join(max(0.0, t0 + spec.get("timeout", 60) - time.time()))
        with open(out_path, "w") as f:
            json.dump({"snaps": snaps, "errors": errors, "hang": [i for i, th in enumerate(ths) if th.is_alive()],
                       "exec_counts": dict(EXEC_COUNT), "wall": round(time.time() - t0, 3)}, f)
        sys.stdout.flush()
        os._exit(0)

    n = len(spec["threads"])
    results = [[] for _ in range(n)]
    op_execs = [[] for _ in range(n)]
    barrier = threading.Barrier(n)

    def worker(i):
        TID[threading.get_ident()] = i
        local: dict = {}
        try:
            barrier.wait(timeout=20)
        except Exception:
            pass
        if FORCE and i == FORCE["a_thread"]:
            S_IN.wait(5.0)
        for j, op in enumerate(spec["threads"][i]):
            CUR_OP[i] = j
            before = sum(EXEC_COUNT.values())
            rec("op", j)
            try:
                r = run_op(op, local)
            except BaseException as e:  # noqa
                tb = traceback.extract_tb(e.__traceback__)
                where = [f"{os.path.basename(f.filename)}:{f.lineno}:{f.name}" for f in tb[-4:]]
                r = "raise:" + type(e).__name__ + ":" + str(e)[:300] + "|" + ">".join(where)
            rec("opend", j)
            results[i].append(r)
            op_execs[i].append(sum(EXEC_COUNT.values()) - before)
        CUR_OP[i] = None

    sys.setswitchinterval(spec.get("switch", 1e-6))
    threads = [threading.Thread(target=worker, args=(i,), daemon=True) for i in range(n)]
    t0 = time.time()
    for th in threads:
        th.start()
    deadline = t0 + spec.get("timeout", 15)
    for th in threads:
        th.join(max(0.0, deadline - time.time()))
    hang = [i for i, th in enumerate(threads) if th.is_alive()]
    hang_info = {}
    if hang:
        frames = sys._current_frames()
        for i, th in enumerate(threads):
            if th.is_alive():
                fr = frames.get(th.ident)
                st = traceback.extract_stack(fr)[-14:] if fr else []
                hang_info[str(i)] = {"op": CUR_OP.get(i), "stack": [f"{os.path.basename(f.filename)}:{f.lineno}:{f.name}" for f in st]}
    sys.setswitchinterval(0.005)
    out = {
        "events": list(EVENTS),
        "results": results,
        "op_execs": op_execs,
        "exec_counts": {k: v for k, v in EXEC_COUNT.items()},
        "fills": FILLS,
        "hang": hang,
        "hang_info": hang_info,
        "lock_types": lock_types,
        "pre_loaded": pre_loaded,
        "wall": round(time.time() - t0, 3),
    }
    with open(out_path, "w") as f:
        json.dump(out, f)
    sys.stdout.flush()
    os._exit(0)


if __name__ == "__main__" and len(sys.argv) >= 4 and sys.argv[1] == "child":
    child_main(sys.argv[2], sys.argv[3])

# =====================================================================================================
#                                             the harness
# =====================================================================================================

import ast  # noqa: E402
import concurrent.futures  # noqa: E402
import subprocess  # noqa: E402
import tempfile  # noqa: E402

sys.path.insert(0, os.path.dirname(os.path.dirname(os.path.dirname(os.path.abspath(__file__)))))
from vf.core import Check, REPO, HarnessError, lean_str, lean_bool  # noqa: E402

MODULES = ["Model.Threads", "Proofs.Threads", "Generated.C19", "Properties.C19"]
P = "SqlglotModel.Properties.C19."
THEOREMS = [P + n for n in (
    "generated_locking_ok",
    "mutual_exclusion",
    "lock_depth_is_nesting",
    "reentrancy_no_self_deadlock",
    "deadlock_free",
    "plain_lock_deadlocks",
    "load_exactly_once",
    "absent_lock_loads_twice",
    "no_lost_registration",
    "no_lost_registration_final",
    "registration_stable",
    "results_prefix_of_sequential",
    "results_schedule_independent",
    "results_agree",
    "dispatch_race_benign",
    "demo_complete",
    "generated_no_lazy_reentry",
    "lock_order_no_deadlock",
    "source_two_routes_no_deadlock",
    "two_routes_lock_ownership",
    "reentry_two_routes_deadlock",
    "generated_shape_ok",
    "full_module_lock_exclusive",
    "full_load_exactly_once",
    "full_results_prefix",
    "full_results_schedule_independent",
    "full_every_result_sequential",
    "no_half_configured_class_visible",
    "lookups_return_finished_classes",
    "lazy_access_never_partial",
    "dispatch_never_partial",
    "register_first_exposes_half_configured_class",
    "no_wait_exposes_unfinished_module",
    "fast_path_returns_partial_module",
    "publish_early_exposes_partial_table",
    "full_demo_complete",
    "dialect_workers_fresh_per_call",
    "fresh_workers_results_prefix",
    "fresh_workers_schedule_independent",
    "cached_worker_breaks_results",
    "metaclass_rebinds_never_mutates",
    "rebinding_construction_frame",
    "rebinding_construction_wf",
    "rebinding_loads_frame",
    "inplace_update_leaks_into_other_classes",
    "shared_dispatch_never_written_per_instance",
    "readonly_table_never_written",
    "readonly_table_schedule_independent",
    "ctor_write_breaks_results",
    "hot_path_shared_containers_locked_or_absent",
    "memo_lookups_never_raise",
    "memo_all_lookups_return",
    "nonatomic_evict_double_delete",
)]

PYTHON = sys.executable


# ------------------------------------------------------------------------------------------ translate
def _is_import_call(node: ast.AST) -> bool:
    if not isinstance(node, ast.Call):
        return False
    f = node.func
    if isinstance(f, ast.Attribute) and f.attr == "import_module":
        return True
    if isinstance(f, ast.Name) and f.id in ("import_module", "__import__"):
        return True
    return False


def _is_globals_store(node: ast.AST) -> bool:
    if isinstance(node, (ast.Assign, ast.AugAssign, ast.AnnAssign)):
        targets = node.targets if isinstance(node, ast.Assign) else [node.target]
        for tg in targets:
            if isinstance(tg, ast.Subscript) and isinstance(tg.value, ast.Call) and isinstance(tg.value.func, ast.Name) \
                    and tg.value.func.id == "globals":
                return True
    if isinstance(node, ast.Expr) and isinstance(node.value, ast.Call):
        f = node.value.func
        # globals().update(...) / globals().setdefault(...) / setattr(sys.modules[__name__], ...)
        if isinstance(f, ast.Attribute) and f.attr in ("update", "setdefault", "__setitem__") and isinstance(f.value, ast.Call) \
                and isinstance(f.value.func, ast.Name) and f.value.func.id == "globals":
            return True
        if isinstance(f, ast.Name) and f.id == "setattr":
            return True
    return False


def _with_locks(node: ast.With) -> list:
    out = []
    for it in node.items:
        e = it.context_expr
        if isinstance(e, ast.Name):
            out.append(e.id)
        elif isinstance(e, ast.Attribute):
            out.append(e.attr)
    return out


def _scan(fn: ast.AST, lock_name: str) -> dict:
    """count import calls / globals stores in `fn`, and how many are lexically under `with <lock_name>`"""
    res = {"imports": 0, "imports_in": 0, "writes": 0, "writes_in": 0, "nested_defs": 0}

    def walk(node, inside):
        for ch in ast.iter_child_nodes(node):
            if isinstance(ch, (ast.FunctionDef, ast.AsyncFunctionDef, ast.Lambda, ast.ClassDef)):
                res["nested_defs"] += 1
            visit(ch, inside)

    def visit(node, inside):
        if isinstance(node, (ast.With, ast.AsyncWith)) and lock_name in _with_locks(node):
            # the context expressions themselves are evaluated outside the lock, the body inside
            for it in node.items:
                visit(it, inside)
            for b in node.body:
                visit(b, True)
            return
        if _is_import_call(node):
            res["imports"] += 1
            res["imports_in"] += 1 if inside else 0
        if _is_globals_store(node):
            res["writes"] += 1
            res["writes_in"] += 1 if inside else 0
        if isinstance(node, (ast.Import, ast.ImportFrom)):
            # an import statement of a sqlglot module inside the function is an import as well
            names = [node.module or ""] if isinstance(node, ast.ImportFrom) else [a.name for a in node.names]
            if any(nm.startswith("sqlglot") for nm in names):
                res["imports"] += 1
                res["imports_in"] += 1 if inside else 0
        walk(node, inside)

    for st in fn.body:
        visit(st, False)
    return res


def lock_facts(chk: Check, relpath: str, live_mod) -> dict:
    src = open(os.path.join(REPO, relpath), encoding="utf-8").read()
    tree = ast.parse(src)
    defs = 0
    ctor = None
    for st in tree.body:
        if isinstance(st, (ast.Assign, ast.AnnAssign)):
            targets = st.targets if isinstance(st, ast.Assign) else [st.target]
            if any(isinstance(tg, ast.Name) and tg.id == "_import_lock" for tg in targets):
                defs += 1
                v = st.value
                if isinstance(v, ast.Call):
                    ctor = v.func.attr if isinstance(v.func, ast.Attribute) else getattr(v.func, "id", None)
    # any other rebinding anywhere (e.g. inside a function with `global _import_lock`) counts as a definition too
    for node in ast.walk(tree):
        if isinstance(node, ast.Global) and "_import_lock" in node.names:
            defs += 1
    fns = [n for n in tree.body if isinstance(n, ast.FunctionDef) and n.name == "__getattr__"]
    if len(fns) != 1:
        chk.broken.append({"kind": "translator", "what": f"C19 translator: structure changed: {relpath} has {len(fns)} module-level __getattr__"})
        sc = {"imports": 0, "imports_in": 0, "writes": 0, "writes_in": 0, "nested_defs": 0}
    else:
        sc = _scan(fns[0], "_import_lock")
        if sc["nested_defs"]:
            chk.broken.append({"kind": "translator", "what": f"C19 translator: structure changed: nested function/class inside {relpath}:__getattr__"})
    live = vars(live_mod).get("_import_lock")
    import threading

    if live is None:
        kind = "absent"
    elif type(live) is type(threading.RLock()):
        kind = "rlock"
    elif type(live) is type(threading.Lock()):
        kind = "plain"
    else:
        kind = "plain"
        chk.broken.append({"kind": "translator", "what": f"C19 translator: structure changed: {relpath}: _import_lock is a {type(live).__name__}"})
    if ctor is not None and {"RLock": "rlock", "Lock": "plain"}.get(ctor) != kind:
        chk.broken.append({"kind": "translator", "what": f"C19 translator: structure changed: {relpath}: lock constructor {ctor} but live object is {kind}"})
    return {"kind": kind, "defs": defs, **sc}


def try_load_facts() -> dict:
    src = open(os.path.join(REPO, "sqlglot", "dialects", "dialect.py"), encoding="utf-8").read()
    tree = ast.parse(src)
    out = {"imports": 0, "imports_in": 0}
    for cls in [n for n in tree.body if isinstance(n, ast.ClassDef) and n.name == "_Dialect"]:
        for fn in [n for n in cls.body if isinstance(n, ast.FunctionDef) and n.name == "_try_load"]:
            sc = _scan(fn, "_import_lock")
            out = {"imports": sc["imports"], "imports_in": sc["imports_in"]}
    return out


# ---- lock order: does code that runs at import time re-enter a lazy package __getattr__? -------------------------
def _module_path(mod: str):
    base = os.path.join(REPO, *mod.split("."))
    if os.path.isfile(base + ".py"):
        return base + ".py", False
    if os.path.isfile(os.path.join(base, "__init__.py")):
        return os.path.join(base, "__init__.py"), True
    return None, False


def _is_type_checking(test: ast.AST) -> bool:
    return (isinstance(test, ast.Name) and test.id == "TYPE_CHECKING") or \
           (isinstance(test, ast.Attribute) and test.attr == "TYPE_CHECKING")


def _import_time_nodes(tree: ast.Module):
    """every ast node evaluated while the module is imported: top-level statements, class bodies, decorators,
    default arguments, base classes — NOT the bodies of functions / lambdas, not `if TYPE_CHECKING:` blocks"""
    stack = list(reversed(tree.body))
    while stack:
        node = stack.pop()
        if isinstance(node, (ast.FunctionDef, ast.AsyncFunctionDef)):
            for d in node.decorator_list:
                stack.append(d)
            for d in list(node.args.defaults) + [k for k in node.args.kw_defaults if k is not None]:
                stack.append(d)
            continue
        if isinstance(node, ast.Lambda):
            for d in list(node.args.defaults) + [k for k in node.args.kw_defaults if k is not None]:
                stack.append(d)
            continue
        if isinstance(node, ast.If) and _is_type_checking(node.test):
            stack.extend(reversed(node.orelse))
            continue
        yield node
        stack.extend(reversed(list(ast.iter_child_nodes(node))))


def _dotted(node: ast.AST):
    parts = []
    while isinstance(node, ast.Attribute):
        parts.append(node.attr)
        node = node.value
    if isinstance(node, ast.Name):
        parts.append(node.id)
        return list(reversed(parts))
    return None


def _real_names(init_path: str) -> set:
    """names bound by the package __init__ itself at import time (never go through its __getattr__)"""
    tree = ast.parse(open(init_path, encoding="utf-8").read())
    names = set()
    for node in _import_time_nodes(tree):
        if isinstance(node, (ast.Import, ast.ImportFrom)):
            for a in node.names:
                names.add((a.asname or a.name).split(".")[0])
        elif isinstance(node, ast.Name) and isinstance(node.ctx, ast.Store):
            names.add(node.id)
        elif isinstance(node, ast.ClassDef):
            names.add(node.name)
    for st in tree.body:
        if isinstance(st, (ast.FunctionDef, ast.AsyncFunctionDef)):
            names.add(st.name)
    return names


def scan_reentries(chk: Check) -> dict:
    import sqlglot.dialects as D

    lazy_d = set(getattr(D, "MODULE_BY_ATTRIBUTE", {}))
    real = {"sqlglot.dialects": _real_names(os.path.join(REPO, "sqlglot", "dialects", "__init__.py")),
            "sqlglot.optimizer": _real_names(os.path.join(REPO, "sqlglot", "optimizer", "__init__.py"))}

    def is_lazy(pkg: str, name: str, submods: set) -> bool:
        if name.startswith("__") or name in real[pkg]:
            return False
        if pkg == "sqlglot.dialects":
            return name in lazy_d
        return f"{pkg}.{name}" not in submods  # optimizer: anything not bound falls into __getattr__

    roots = []
    for sub in ("dialects", "optimizer"):
        for fn in sorted(os.listdir(os.path.join(REPO, "sqlglot", sub))):
            if fn.endswith(".py") and fn != "__init__.py":
                roots.append(f"sqlglot.{sub}.{fn[:-3]}")
    seen: dict = {}
    sites = []
    todo = list(roots)
    while todo:
        mod = todo.pop()
        if mod in seen:
            continue
        path, is_pkg = _module_path(mod)
        if path is None:
            continue
        seen[mod] = path
        if mod in ("sqlglot.dialects", "sqlglot.optimizer"):
            continue  # the packages' own __init__ define the lazy __getattr__
        try:
            tree = ast.parse(open(path, encoding="utf-8").read())
        except SyntaxError as e:
            chk.broken.append({"kind": "translator", "what": f"C19 translator: cannot parse {mod}: {e}"})
            continue
        pkg_of_mod = mod if is_pkg else mod.rsplit(".", 1)[0]
        alias: dict = {}      # local name -> dotted package it stands for
        submods: set = set()  # sqlglot.optimizer.x imported as a module by this file (a real attribute afterwards)
        nodes = list(_import_time_nodes(tree))
        for node in nodes:
            if isinstance(node, ast.Import):
                for a in node.names:
                    if a.name.startswith("sqlglot"):
                        todo.append(a.name)
                        parts = a.name.split(".")
                        for i in range(1, len(parts)):
                            todo.append(".".join(parts[:i]))
                        submods.add(a.name)
                        if a.asname:
                            alias[a.asname] = a.name
                        else:
                            alias["sqlglot"] = "sqlglot"
            elif isinstance(node, ast.ImportFrom):
                base = node.module or ""
                if node.level:
                    up = pkg_of_mod.split(".")
                    up = up[: len(up) - (node.level - 1)]
                    base = ".".join(up + ([node.module] if node.module else []))
                if not base.startswith("sqlglot"):
                    continue
                todo.append(base)
                for a in node.names:
                    full = f"{base}.{a.name}"
                    if _module_path(full)[0]:
                        todo.append(full)
                        submods.add(full)
                        if full in ("sqlglot.dialects", "sqlglot.optimizer"):
                            alias[a.asname or a.name] = full
        for node in nodes:
            if isinstance(node, ast.ImportFrom) and node.level == 0 and node.module in real:
                for a in node.names:
                    if is_lazy(node.module, a.name, submods if node.module == "sqlglot.optimizer" and False else set()):
                        sites.append((mod, node.lineno, f"from {node.module} import {a.name}"))
            elif isinstance(node, ast.Attribute) and isinstance(node.ctx, ast.Load):
                d = _dotted(node)
                if not d:
                    continue
                if d[0] in alias and alias[d[0]] in real:
                    d = alias[d[0]].split(".") + d[1:]
                elif d[0] in alias and d[0] == "sqlglot":
                    pass
                else:
                    continue
                if len(d) == 3 and ".".join(d[:2]) in real and is_lazy(".".join(d[:2]), d[2], submods):
                    sites.append((mod, node.lineno, ".".join(d)))
    scanned = sorted(seen)
    idx = {m: i for i, m in enumerate(scanned)}
    sites = sorted(set(sites))
    return {"scanned": scanned, "sites": sites, "modules": sorted({idx[m] for m, _, _ in sites})}


# ---- orderings the full model depends on (SourceShape) ------------------------------------------------------------
def _find_class_fn(tree: ast.Module, cls_name: str, fn_name: str):
    for cls in [n for n in tree.body if isinstance(n, ast.ClassDef) and n.name == cls_name]:
        for fn in [n for n in cls.body if isinstance(n, ast.FunctionDef) and n.name == fn_name]:
            return fn
    return None


def _is_classes_store(st: ast.AST) -> bool:
    if not isinstance(st, ast.Assign) or len(st.targets) != 1:
        return False
    tg = st.targets[0]
    return isinstance(tg, ast.Subscript) and isinstance(tg.value, ast.Attribute) and tg.value.attr == "_classes"


def source_shape(chk: Check) -> dict:
    shape = {"registerLast": False, "lookupsWait": False, "dialectsLockFirst": False, "optimizerLockFirst": False,
             "buildThenStore": False}
    notes = {}
    # (2) _Dialect.__new__ / get / __getitem__
    dtree = ast.parse(open(os.path.join(REPO, "sqlglot", "dialects", "dialect.py"), encoding="utf-8").read())
    new = _find_class_fn(dtree, "_Dialect", "__new__")
    if new is None:
        chk.broken.append({"kind": "translator", "what": "C19 translator: structure changed: _Dialect.__new__ not found"})
    else:
        stores = [n for n in ast.walk(new) if _is_classes_store(n)]
        other_writes = [n for n in ast.walk(new) if isinstance(n, ast.Call) and isinstance(n.func, ast.Attribute)
                        and n.func.attr in ("setdefault", "update", "__setitem__") and isinstance(n.func.value, ast.Attribute)
                        and n.func.value.attr == "_classes"]
        body = new.body
        ok = (len(stores) == 1 and not other_writes and len(body) >= 2 and isinstance(body[-1], ast.Return)
              and isinstance(body[-1].value, ast.Name) and body[-2] is stores[0]
              and isinstance(stores[0].value, ast.Name) and stores[0].value.id == body[-1].value.id)
        shape["registerLast"] = bool(ok)
        notes["classes_stores_in_new"] = len(stores)
        if stores:
            notes["store_position"] = f"statement {body.index(stores[0]) + 1 if stores[0] in body else '?'} of {len(body)}"
    waits = []
    for fn_name in ("get", "__getitem__"):
        fn = _find_class_fn(dtree, "_Dialect", fn_name)
        good = False
        if fn is not None:
            for node in ast.walk(fn):
                if isinstance(node, ast.If) and any(isinstance(c, ast.Call) and isinstance(c.func, ast.Attribute) and c.func.attr == "_try_load"
                                                    for b in node.body for c in ast.walk(b)):
                    test = ast.dump(node.test)
                    if "_classes" in test and ("_is_initializing" in test or "_initializing" in test) and isinstance(node.test, ast.BoolOp) \
                            and isinstance(node.test.op, ast.Or):
                        good = True
        waits.append(good)
    init_fn = _find_class_fn(dtree, "_Dialect", "_is_initializing")
    reads_flag = init_fn is not None and "_initializing" in ast.dump(init_fn) and "modules" in ast.dump(init_fn)
    shape["lookupsWait"] = all(waits) and bool(reads_flag)
    notes["lookups_wait"] = {"get": waits[0], "__getitem__": waits[1], "_is_initializing_reads_sys_modules_flag": bool(reads_flag)}

    # (3) no sys.modules / globals() read outside `with _import_lock` in the lazy __getattr__s
    def lock_first(relpath: str):
        tree = ast.parse(open(os.path.join(REPO, relpath), encoding="utf-8").read())
        fns = [n for n in tree.body if isinstance(n, ast.FunctionDef) and n.name == "__getattr__"]
        if len(fns) != 1:
            return False, ["no single __getattr__"]
        outside = []

        def visit(node, inside):
            if isinstance(node, (ast.With, ast.AsyncWith)) and "_import_lock" in _with_locks(node):
                for it in node.items:
                    visit(it, inside)
                for b in node.body:
                    visit(b, True)
                return
            if not inside:
                if isinstance(node, ast.Attribute) and node.attr == "modules" and isinstance(node.value, ast.Name) and node.value.id == "sys":
                    outside.append(f"line {node.lineno}: sys.modules")
                if isinstance(node, ast.Call) and isinstance(node.func, ast.Name) and node.func.id in ("globals", "vars", "locals"):
                    outside.append(f"line {node.lineno}: {node.func.id}()")
                if isinstance(node, ast.Attribute) and node.attr == "__dict__":
                    outside.append(f"line {node.lineno}: __dict__")
            for ch in ast.iter_child_nodes(node):
                visit(ch, inside)

        for st in fns[0].body:
            visit(st, False)
        has_with = any(isinstance(n, (ast.With, ast.AsyncWith)) and "_import_lock" in _with_locks(n) for n in ast.walk(fns[0]))
        return has_with and not outside, outside

    shape["dialectsLockFirst"], o1 = lock_first("sqlglot/dialects/__init__.py")
    shape["optimizerLockFirst"], o2 = lock_first("sqlglot/optimizer/__init__.py")
    notes["reads_outside_lock"] = {"dialects": o1, "optimizer": o2}

    # (4) Generator.__init__: build the table completely, then store it
    gtree = ast.parse(open(os.path.join(REPO, "sqlglot", "generator.py"), encoding="utf-8").read())
    ginit = _find_class_fn(gtree, "Generator", "__init__")
    ok = False
    if ginit is not None:
        def is_cache_store(st):
            return isinstance(st, ast.Assign) and any(isinstance(tg, ast.Subscript) and isinstance(tg.value, ast.Name)
                                                      and tg.value.id == "_DISPATCH_CACHE" for tg in st.targets)
        all_stores = [n for n in ast.walk(ginit) if is_cache_store(n)]
        for node in ast.walk(ginit):
            if isinstance(node, ast.If) and any(is_cache_store(b) for b in node.body):
                body = node.body
                st = body[-1]
                if is_cache_store(st) and len(st.targets) == 1 and isinstance(st.value, ast.Name) and len(all_stores) == 1:
                    var = st.value.id
                    built = [b for b in body[:-1] if isinstance(b, ast.Assign) and len(b.targets) == 1 and isinstance(b.targets[0], ast.Name)
                             and b.targets[0].id == var and isinstance(b.value, ast.Call) and isinstance(b.value.func, ast.Name)
                             and b.value.func.id == "_build_dispatch"]
                    ok = len(built) == 1 and body.index(built[0]) == len(body) - 2
    shape["buildThenStore"] = bool(ok)
    chk.cov["source_shape"] = {**shape, "notes": notes}
    return shape


# ---- worker objects: Dialect methods that hand out Tokenizer / Parser / Generator instances ------------------------
WORKER_METHODS = ("tokenizer", "jsonpath_tokenizer", "parser", "generator")
WORKER_TYPES = ("Tokenizer", "JSONPathTokenizer", "Parser", "Generator", "BaseParser")


def worker_factories(chk: Check) -> list:
    """[(Class.method, fresh)] for every method of a top-level class in sqlglot/dialects/*.py that returns a worker:
    fresh = every `return` is a direct `self.<x>_class(...)` / `super().<m>(...)` call and the method does not touch an
    instance attribute cache; plus (Class.method:stores-worker, False) for any method that keeps a worker on `self`"""
    out = []
    ddir = os.path.join(REPO, "sqlglot", "dialects")

    def self_attr(node):
        return isinstance(node, ast.Attribute) and isinstance(node.value, ast.Name) and node.value.id == "self"

    def is_ctor_call(v, meth):
        if not isinstance(v, ast.Call):
            return False
        f = v.func
        if self_attr(f) and f.attr.endswith("_class"):
            return True
        if isinstance(f, ast.Attribute) and f.attr == meth and isinstance(f.value, ast.Call) \
                and isinstance(f.value.func, ast.Name) and f.value.func.id == "super":
            return True
        return False

    def makes_worker(v):
        return isinstance(v, ast.Call) and ((self_attr(v.func) and (v.func.attr.endswith("_class") or v.func.attr in WORKER_METHODS)))

    for fn_ in sorted(os.listdir(ddir)):
        if not fn_.endswith(".py") or fn_ == "__init__.py":
            continue
        tree = ast.parse(open(os.path.join(ddir, fn_), encoding="utf-8").read())
        for cls in [n for n in tree.body if isinstance(n, ast.ClassDef)]:
            for m in [n for n in cls.body if isinstance(n, (ast.FunctionDef, ast.AsyncFunctionDef))]:
                ann = ast.unparse(m.returns) if m.returns is not None else ""
                is_factory = m.name in WORKER_METHODS or ann.split(".")[-1].strip("'\"") in WORKER_TYPES
                stores = [n for n in ast.walk(m) if isinstance(n, (ast.Assign, ast.AnnAssign, ast.AugAssign))
                          and any(self_attr(tg) for tg in (n.targets if isinstance(n, ast.Assign) else [n.target]))]
                if is_factory:
                    rets = [n for n in ast.walk(m) if isinstance(n, ast.Return)]
                    setattrs = [n for n in ast.walk(m) if isinstance(n, ast.Call) and isinstance(n.func, ast.Name) and n.func.id in ("setattr", "getattr")]
                    dunder = [n for n in ast.walk(m) if isinstance(n, ast.Attribute) and n.attr == "__dict__"]
                    priv_reads = [n for n in ast.walk(m) if self_attr(n) and isinstance(n.ctx, ast.Load) and n.attr.startswith("_")
                                  and not n.attr.endswith("_class")]
                    nested = [n for n in ast.walk(m) if n is not m and isinstance(n, (ast.FunctionDef, ast.Lambda))]
                    fresh = bool(rets) and all(is_ctor_call(r.value, m.name) for r in rets) and not stores and not setattrs \
                        and not dunder and not priv_reads and not nested
                    out.append((f"{cls.name}.{m.name}", fresh))
                else:
                    for st in stores:
                        if st.value is not None and makes_worker(st.value):
                            out.append((f"{cls.name}.{m.name}:stores-worker", False))
    found = {nm for nm, _ in out}
    for meth in WORKER_METHODS:
        if f"Dialect.{meth}" not in found:
            chk.broken.append({"kind": "translator", "what": f"C19 translator: structure changed: Dialect.{meth} not found"})
            out.append((f"Dialect.{meth}:missing", False))
    out = sorted(set(out))
    chk.cov["worker_factories"] = {nm: ok for nm, ok in out}
    return out


# ---- class construction: do the metaclass hooks rebind, or mutate inherited tables in place? ------------------------
MUTATORS = {"update", "add", "pop", "popitem", "setdefault", "append", "extend", "insert", "remove", "discard", "clear",
            "sort", "reverse", "__setitem__", "__delitem__", "__ior__", "__iand__", "__isub__", "difference_update",
            "intersection_update", "symmetric_difference_update"}


def metaclass_hooks(chk: Check) -> dict:
    """every `__new__` / `__init__` of a metaclass (a class deriving from `type`) and every `__init_subclass__` in sqlglot:
    count plain rebinding stores `x.ATTR = value`, list every in-place update of an attribute value"""
    hooks, mutations, rebinds = [], [], 0
    root = os.path.join(REPO, "sqlglot")
    for dp, _, files in os.walk(root):
        for fn_ in sorted(files):
            if not fn_.endswith(".py"):
                continue
            path = os.path.join(dp, fn_)
            rel = os.path.relpath(path, REPO)
            src = open(path, encoding="utf-8").read()
            if "__init_subclass__" not in src and "(type)" not in src:
                continue
            tree = ast.parse(src)
            for cls in [n for n in ast.walk(tree) if isinstance(n, ast.ClassDef)]:
                is_meta = any((isinstance(b, ast.Name) and b.id == "type") for b in cls.bases)
                for m in [n for n in cls.body if isinstance(n, (ast.FunctionDef, ast.AsyncFunctionDef))]:
                    if not (m.name == "__init_subclass__" or (is_meta and m.name in ("__new__", "__init__"))):
                        continue
                    hooks.append(f"{rel}:{cls.name}.{m.name}")
                    r, mu = _scan_hook(m)
                    rebinds += r
                    mutations += [f"{rel}:{ln}: {cls.name}.{m.name}: {w}" for ln, w in mu]
    for need in ("_Dialect.__new__", "__init_subclass__"):
        if not any(need in h for h in hooks):
            chk.broken.append({"kind": "translator", "what": f"C19 translator: structure changed: no {need} hook found"})
    res = {"hooks": sorted(hooks), "rebinds": rebinds, "mutations": sorted(mutations)}
    chk.cov["metaclass_hooks"] = res
    return res


def _scan_hook(fn: ast.AST):
    rebinds = 0
    mutations = []

    def attr_of(node):
        """(receiver name, attribute) if node is `name.ATTR`"""
        if isinstance(node, ast.Attribute) and isinstance(node.value, ast.Name):
            return (node.value.id, node.attr)
        return None

    def block(stmts, fresh, alias):
        nonlocal rebinds
        fresh = set(fresh)
        alias = dict(alias)
        for st in stmts:
            # in-place updates inside this statement (calls, aug-assignments, item stores / deletes)
            for node in ast.walk(st) if not isinstance(st, (ast.If, ast.For, ast.While, ast.With, ast.Try, ast.FunctionDef)) else _shallow(st):
                if isinstance(node, ast.Call) and isinstance(node.func, ast.Attribute) and node.func.attr in MUTATORS:
                    tgt = node.func.value
                    key = attr_of(tgt) or (alias.get(tgt.id) if isinstance(tgt, ast.Name) else None)
                    if key and key not in fresh:
                        mutations.append((node.lineno, f"{key[0]}.{key[1]}.{node.func.attr}(...)"))
                if isinstance(node, ast.AugAssign):
                    tgt = node.target
                    inner = tgt.value if isinstance(tgt, ast.Subscript) else tgt
                    key = attr_of(inner) or (alias.get(inner.id) if isinstance(inner, ast.Name) else None)
                    if key and key not in fresh:
                        mutations.append((node.lineno, f"{key[0]}.{key[1]} {type(node.op).__name__}= ..."))
                if isinstance(node, (ast.Assign, ast.Delete)):
                    for tgt in node.targets:
                        for sub in ([tgt] if not isinstance(tgt, (ast.Tuple, ast.List)) else tgt.elts):
                            if isinstance(sub, ast.Subscript):
                                key = attr_of(sub.value) or (alias.get(sub.value.id) if isinstance(sub.value, ast.Name) else None)
                                if key and key not in fresh and key[1] != "_classes":
                                    mutations.append((node.lineno, f"{key[0]}.{key[1]}[...] {'=' if isinstance(node, ast.Assign) else 'del'}"))
            # rebinding stores and aliases made by this statement
            if isinstance(st, (ast.Assign, ast.AnnAssign)):
                targets = st.targets if isinstance(st, ast.Assign) else [st.target]
                for tgt in targets:
                    for sub in ([tgt] if not isinstance(tgt, (ast.Tuple, ast.List)) else tgt.elts):
                        k = attr_of(sub)
                        if k:
                            rebinds += 1
                            # fresh only if the new value is built here (not another attribute's object)
                            if st.value is not None and not isinstance(st.value, (ast.Attribute, ast.Name)):
                                fresh.add(k)
                            else:
                                fresh.discard(k)
                        elif isinstance(sub, ast.Name):
                            v = st.value
                            if isinstance(v, ast.Attribute) and attr_of(v):
                                alias[sub.id] = attr_of(v)
                            else:
                                alias.pop(sub.id, None)
            elif isinstance(st, ast.Expr) and isinstance(st.value, ast.Call) and isinstance(st.value.func, ast.Name) and st.value.func.id == "setattr":
                rebinds += 1
            for body in _blocks(st):
                block(body, fresh, alias)

    block(fn.body, set(), {})
    return rebinds, mutations


def _blocks(st):
    out = []
    for name in ("body", "orelse", "finalbody"):
        b = getattr(st, name, None)
        if isinstance(b, list) and b and isinstance(b[0], ast.stmt) and isinstance(st, (ast.If, ast.For, ast.While, ast.With, ast.Try)):
            out.append(b)
    for h in getattr(st, "handlers", []) or []:
        out.append(h.body)
    return out


def _shallow(st):
    """the header expressions of a compound statement (its blocks are visited separately)"""
    out = []
    for name in ("test", "iter", "target"):
        v = getattr(st, name, None)
        if isinstance(v, ast.AST):
            out += list(ast.walk(v))
    for it in getattr(st, "items", []) or []:
        out += list(ast.walk(it))
    return out


# ---- per-class caches handed to instances: never written through an instance -------------------------------------------
def dispatch_cache_writes(chk: Check) -> dict:
    """writes to `self._dispatch`, to an UPPER_CASE class table reached through `self`, to a local alias of either, and
    `_DISPATCH_CACHE[...]` stores, in generator.py, generators/*.py, parser.py, parsers/*.py, tokens.py; plus the
    version/settings-dependent handlers (for the settings oracle)"""
    files = ["sqlglot/generator.py", "sqlglot/parser.py", "sqlglot/tokens.py"]
    for sub in ("generators", "parsers"):
        d = os.path.join(REPO, "sqlglot", sub)
        if os.path.isdir(d):
            files += [f"sqlglot/{sub}/{f}" for f in sorted(os.listdir(d)) if f.endswith(".py")]
    writes, cache_stores, versioned = [], [], []

    def shared_ref(node, alias):
        if isinstance(node, ast.Attribute) and isinstance(node.value, ast.Name) and node.value.id == "self" \
                and (node.attr == "_dispatch" or (node.attr.isupper() and len(node.attr) > 1)):
            return f"self.{node.attr}"
        if isinstance(node, ast.Name) and node.id in alias:
            return alias[node.id]
        return None

    for rel in files:
        path = os.path.join(REPO, rel)
        if not os.path.isfile(path):
            continue
        tree = ast.parse(open(path, encoding="utf-8").read())
        stem = os.path.basename(rel)[:-3]
        for node in ast.walk(tree):
            # self.dialect.version <op> (a, b)
            if isinstance(node, ast.Compare) and isinstance(node.left, ast.Attribute) and node.left.attr == "version" \
                    and isinstance(node.left.value, ast.Attribute) and node.left.value.attr == "dialect" \
                    and isinstance(node.comparators[0], ast.Tuple):
                try:
                    tup = tuple(int(e.value) for e in node.comparators[0].elts)
                    versioned.append((stem, tup))
                except Exception:
                    pass
        for fn in [n for n in ast.walk(tree) if isinstance(n, (ast.FunctionDef, ast.AsyncFunctionDef))]:
            alias = {}
            for st in ast.walk(fn):
                if isinstance(st, ast.Assign) and len(st.targets) == 1 and isinstance(st.targets[0], ast.Name):
                    r = shared_ref(st.value, {})
                    if r:
                        alias[st.targets[0].id] = r
            for node in ast.walk(fn):
                if isinstance(node, (ast.Assign, ast.Delete, ast.AugAssign)):
                    targets = node.targets if not isinstance(node, ast.AugAssign) else [node.target]
                    for tg in targets:
                        if isinstance(tg, ast.Subscript):
                            if isinstance(tg.value, ast.Name) and tg.value.id == "_DISPATCH_CACHE":
                                cache_stores.append(f"{rel}:{node.lineno}: {fn.name}")
                                continue
                            r = shared_ref(tg.value, alias)
                            if r:
                                writes.append(f"{rel}:{node.lineno}: {fn.name}: {r}[...] store")
                        elif isinstance(node, ast.AugAssign):
                            r = shared_ref(tg, alias)
                            if r:
                                writes.append(f"{rel}:{node.lineno}: {fn.name}: {r} augmented assignment")
                if isinstance(node, ast.Call) and isinstance(node.func, ast.Attribute) and node.func.attr in MUTATORS:
                    r = shared_ref(node.func.value, alias)
                    if r:
                        writes.append(f"{rel}:{node.lineno}: {fn.name}: {r}.{node.func.attr}(...)")
    ok_store = [c for c in cache_stores if c.startswith("sqlglot/generator.py") and c.endswith(": __init__")]
    writes += [f"{c}: _DISPATCH_CACHE store outside Generator.__init__" for c in cache_stores if c not in ok_store]
    # sites that belong to a listed known finding (entry field "static_sites": function names) are recorded separately
    known_fns = {fn for k in getattr(chk, "_known", []) if k.get("property") == "C19" and k.get("kind") == "known"
                 for fn in k.get("static_sites", [])}
    known_sites = sorted({w for w in writes if w.split(": ")[1] in known_fns})
    writes = [w for w in writes if w not in known_sites]
    chk.cov["known_per_instance_writes"] = known_sites
    res = {"writes": sorted(set(writes)), "cache_stores": len(ok_store), "versioned": sorted(set(versioned)), "known": known_sites}
    chk.cov["dispatch_cache"] = {"per_instance_writes": res["writes"], "cache_stores": res["cache_stores"],
                                 "version_dependent_handlers": [f"{d} {'.'.join(map(str, t))}" for d, t in res["versioned"]]}
    chk.cov["_versioned"] = res["versioned"]
    return res


# ---- shared containers written on the look-up hot path ------------------------------------------------------------
HOT_PATH = [("sqlglot/dialects/dialect.py", "Dialect", "get_or_raise"), ("sqlglot/dialects/dialect.py", "_Dialect", "get"),
            ("sqlglot/dialects/dialect.py", "_Dialect", "__getitem__"), ("sqlglot/dialects/dialect.py", "_Dialect", "_try_load"),
            ("sqlglot/dialects/dialect.py", "Dialect", "__init__"), ("sqlglot/tokens.py", "Tokenizer", "__init__"),
            ("sqlglot/parser.py", "Parser", "__init__"), ("sqlglot/generator.py", "Generator", "__init__")]
AUDITED_CONTAINERS = {"_classes", "_DISPATCH_CACHE"}


def hot_path_writes(chk: Check) -> dict:
    """stores / deletes / mutating calls on module-level names or class-level containers (`cls.X`, `self.UPPER`, `type(self).X`)
    inside the hot-path functions, that are not lexically under a `with <something lock-like>`"""
    found, audited, unlocked = 0, [], []
    trees = {}
    for rel, cls_name, fn_name in HOT_PATH:
        path = os.path.join(REPO, rel)
        if rel not in trees:
            trees[rel] = ast.parse(open(path, encoding="utf-8").read()) if os.path.isfile(path) else None
        tree = trees[rel]
        fn = _find_class_fn(tree, cls_name, fn_name) if tree is not None else None
        if fn is None and tree is not None and cls_name == "Tokenizer":
            fn = _find_class_fn(tree, "_TokenizerBase", fn_name)
        if fn is None:
            continue
        found += 1
        module_names = set()
        for st in tree.body:
            for tg in (st.targets if isinstance(st, ast.Assign) else [st.target] if isinstance(st, ast.AnnAssign) else []):
                if isinstance(tg, ast.Name):
                    module_names.add(tg.id)
        local = {a.arg for a in fn.args.args + fn.args.kwonlyargs} | {n.id for n in ast.walk(fn) if isinstance(n, ast.Name) and isinstance(n.ctx, ast.Store)}

        def container(node):
            if isinstance(node, ast.Name) and node.id in module_names and node.id not in local:
                return node.id
            if isinstance(node, ast.Attribute) and isinstance(node.value, ast.Name) and node.value.id in ("cls", "self") \
                    and (node.attr.isupper() or node.attr.startswith("_classes") or node.value.id == "cls"):
                return node.attr
            if isinstance(node, ast.Attribute) and isinstance(node.value, ast.Call) and isinstance(node.value.func, ast.Name) \
                    and node.value.func.id == "type":
                return node.attr
            return None

        def visit(node, locked):
            if isinstance(node, (ast.With, ast.AsyncWith)) and any("lock" in ast.unparse(it.context_expr).lower() for it in node.items):
                for b in node.body:
                    visit(b, True)
                return
            hit = None
            if isinstance(node, (ast.Assign, ast.Delete, ast.AugAssign)):
                for tg in (node.targets if not isinstance(node, ast.AugAssign) else [node.target]):
                    if isinstance(tg, ast.Subscript):
                        hit = hit or container(tg.value)
                    elif isinstance(node, ast.AugAssign):
                        hit = hit or container(tg)
            if isinstance(node, ast.Call) and isinstance(node.func, ast.Attribute) and node.func.attr in MUTATORS:
                hit = hit or container(node.func.value)
            if hit and not locked:
                site = f"{rel}:{node.lineno}: {cls_name}.{fn_name}: {hit}"
                (audited if hit in AUDITED_CONTAINERS else unlocked).append(site)
            for ch in ast.iter_child_nodes(node):
                visit(ch, locked)

        for st in fn.body:
            visit(st, False)
    res = {"functions": found, "audited": sorted(set(audited)), "unlocked": sorted(set(unlocked))}
    chk.cov["hot_path_containers"] = res
    return res


def translate(chk: Check) -> str:
    import sqlglot.dialects as D
    import sqlglot.optimizer as O

    fd = lock_facts(chk, "sqlglot/dialects/__init__.py", D)
    fo = lock_facts(chk, "sqlglot/optimizer/__init__.py", O)
    tl = try_load_facts()
    chk.cov["lock_facts"] = {"dialects": fd, "optimizer": fo, "try_load": tl}
    re = scan_reentries(chk)
    shp = source_shape(chk)
    wf = worker_factories(chk)
    mh = metaclass_hooks(chk)
    dc = dispatch_cache_writes(chk)
    hp = hot_path_writes(chk)
    chk.cov["lock_order_scan"] = {"modules_scanned": len(re["scanned"]), "reentry_sites": [f"{m}:{ln}: {w}" for m, ln, w in re["sites"]]}
    chk.cov["_reentry_modules"] = sorted({m for m, _, _ in re["sites"]})
    if len(re["scanned"]) < 60:
        chk.broken.append({"kind": "translator", "what": f"C19 translator: structure changed: only {len(re['scanned'])} modules reachable from sqlglot/dialects and sqlglot/optimizer"})

    def lf(f):
        return ("{ kind := .%s, lockDefs := %d, imports := %d, importsInside := %d, writes := %d, writesInside := %d }"
                % (f["kind"], f["defs"], f["imports"], f["imports_in"], f["writes"], f["writes_in"]))

    return (
        "-- GENERATED by vf/props/c19.py from sqlglot/dialects/__init__.py, sqlglot/optimizer/__init__.py and\n"
        "-- sqlglot/dialects/dialect.py (ast + the live `_import_lock` objects). Do not edit.\n"
        "import SqlglotModel.Model.Threads\n"
        "namespace SqlglotModel.Generated.C19\n"
        "open SqlglotModel.Threads\n"
        f"def dialectsLock : LockFacts := {lf(fd)}\n"
        f"def optimizerLock : LockFacts := {lf(fo)}\n"
        "/-- the lock kind the model is instantiated with -/\n"
        "def lockKind : LockKind := combineKinds dialectsLock.effective optimizerLock.effective\n"
        "/-- informational: `_Dialect._try_load` calls import_module this many times, this many under a package lock\n"
        "    (0: that path relies on importlib's per-module lock — an assumption of the check, not modelled) -/\n"
        f"def tryLoadImports : Nat := {tl['imports']}\n"
        f"def tryLoadImportsUnderPackageLock : Nat := {tl['imports_in']}\n"
        "/-- lock order: modules executed while a dialect / optimizer module is imported (sqlglot/dialects/*, sqlglot/optimizer/*\n"
        "    and the module-level import closure inside sqlglot); `reentryModules` = indices (in the sorted list) of those whose\n"
        "    import-time code goes through a lazy package __getattr__ again, `reentrySites` = where -/\n"
        f"def scannedModules : Nat := {len(re['scanned'])}\n"
        f"def reentryModules : List Nat := [{', '.join(str(i) for i in re['modules'])}]\n"
        "def reentrySites : List String := [" + ", ".join(lean_str(f"{m}:{ln}: {w}") for m, ln, w in re["sites"]) + "]\n"
        "/-- orderings the full model is instantiated with (ast of dialect.py, the two __init__.py, generator.py) -/\n"
        "def shape : SourceShape := { " + ", ".join(f"{k} := {lean_bool(v)}" for k, v in shp.items()) + " }\n"
        "/-- object lifetime: methods of the dialect classes that return a Tokenizer / Parser / Generator, and whether each\n"
        "    constructs it in the call (no instance-attribute cache) -/\n"
        "def workerFactories : List (String × Bool) := [" + ", ".join(f"({lean_str(nm)}, {lean_bool(ok)})" for nm, ok in wf) + "]\n"
        "def workersFreshPerCall : Bool := workerFactories.all (·.2) && decide (4 ≤ workerFactories.length)\n"
        "/-- class construction: the metaclass `__new__`/`__init__` and `__init_subclass__` hooks found in sqlglot, the number of\n"
        "    plain rebinding stores `x.ATTR = value` in them, and every in-place update of an attribute value -/\n"
        "def metaclassHooks : List String := [" + ", ".join(lean_str(h) for h in mh["hooks"]) + "]\n"
        f"def metaclassRebinds : Nat := {mh['rebinds']}\n"
        "def metaclassMutations : List String := [" + ", ".join(lean_str(h) for h in mh["mutations"]) + "]\n"
        "/-- the per-class dispatch cache: `_DISPATCH_CACHE[...]` stores in Generator.__init__, and every write through an instance\n"
        "    (self._dispatch / self.UPPER_CASE table / alias) found in generator.py, generators/*, parser.py, parsers/*, tokens.py -/\n"
        f"def dispatchCacheStores : Nat := {dc['cache_stores']}\n"
        "def perInstanceCacheWrites : List String := [" + ", ".join(lean_str(h) for h in dc["writes"]) + "]\n"
        "/-- informational: such sites that belong to a listed known finding (not part of the obligation) -/\n"
        "def knownPerInstanceWrites : List String := [" + ", ".join(lean_str(h) for h in dc["known"]) + "]\n"
        "/-- the look-up hot path (get_or_raise, _Dialect.get/__getitem__/_try_load, Dialect.__init__, the worker constructors): how many of\n"
        "    the functions were found, the audited writes (registry, dispatch fill), and any other unlocked write to a shared container -/\n"
        f"def hotPathFunctions : Nat := {hp['functions']}\n"
        "def hotPathAuditedWrites : List String := [" + ", ".join(lean_str(h) for h in hp["audited"]) + "]\n"
        "def hotPathUnlockedWrites : List String := [" + ", ".join(lean_str(h) for h in hp["unlocked"]) + "]\n"
        "end SqlglotModel.Generated.C19\n"
    )


def effective_kind(f: dict) -> str:
    covers = f["defs"] == 1 and f["imports"] > 0 and f["imports_in"] == f["imports"] and f["writes_in"] == f["writes"]
    return f["kind"] if covers else "absent"


# ------------------------------------------------------------------------------------------ running children
class Runner:
    def __init__(self, chk: Check):
        self.chk = chk
        self.dir = tempfile.mkdtemp(prefix="vf_c19_")
        self.probe_dir = os.path.join(self.dir, "probe")
        os.makedirs(self.probe_dir)
        with open(os.path.join(self.probe_dir, "vfprobe.py"), "w") as f:
            f.write(PROBE_DIALECT)
        with open(os.path.join(self.probe_dir, "vfprobe_o.py"), "w") as f:
            f.write(PROBE_OPTIMIZER)
        self.n = 0

    def run(self, spec: dict) -> dict:
        self.n += 1
        base = os.path.join(self.dir, f"c{self.n}_{os.getpid()}_{time.time_ns()}")
        spec = dict(spec, repo=REPO, probe_dir=self.probe_dir)
        with open(base + ".spec.json", "w") as f:
            json.dump(spec, f)
        env = dict(os.environ)
        env.pop("PYTHONPATH", None)
        env["PYTHONDONTWRITEBYTECODE"] = "1"
        env["PYTHONHASHSEED"] = str(spec.get("hashseed", 0))
        try:
            p = subprocess.run([PYTHON, os.path.abspath(__file__), "child", base + ".spec.json", base + ".out.json"],
                               capture_output=True, text=True, timeout=spec.get("timeout", 15) + 60, env=env)
        except subprocess.TimeoutExpired:
            return {"spec": spec, "crash": "child process did not exit", "hang": list(range(len(spec["threads"]))), "hang_info": {},
                    "events": [], "results": [[] for _ in spec["threads"]], "exec_counts": {}, "fills": {}, "op_execs": []}
        if not os.path.exists(base + ".out.json"):
            return {"spec": spec, "crash": (p.stderr or p.stdout)[-800:], "hang": [], "hang_info": {}, "events": [],
                    "results": [[] for _ in spec["threads"]], "exec_counts": {}, "fills": {}, "op_execs": []}
        out = json.load(open(base + ".out.json"))
        out["spec"] = spec
        os.remove(base + ".out.json")
        os.remove(base + ".spec.json")
        return out

    def cleanup(self):
        import shutil

        shutil.rmtree(self.dir, ignore_errors=True)


def public_spec(spec: dict) -> dict:
    return {k: v for k, v in spec.items() if k not in ("repo", "probe_dir")}


# ------------------------------------------------------------------------------------------ workloads
SQLS = [
    "SELECT a, b + 1 AS c FROM t WHERE x > 1 ORDER BY a LIMIT 5",
    "SELECT CAST(x AS INT) AS i, COUNT(*) AS n FROM t GROUP BY 1 HAVING COUNT(*) > 2",
    "SELECT t.id, u.name FROM t JOIN u ON t.id = u.id WHERE u.name LIKE 'a%' AND t.d >= '2020-01-01'",
    "SELECT COALESCE(a, 0), CASE WHEN b IS NULL THEN 'n' ELSE 'y' END FROM (SELECT a, b FROM s) AS q",
    "WITH c AS (SELECT 1 AS k UNION ALL SELECT 2) SELECT k, SUM(k) OVER (ORDER BY k) FROM c",
    "SELECT JSON_EXTRACT(j, '$.a.b'), SUBSTRING(s, 1, 3), CURRENT_TIMESTAMP FROM t",
]


def dialect_tables():
    import sqlglot.dialects as D

    names = list(getattr(D, "DIALECTS", []))
    by_attr = dict(getattr(D, "MODULE_BY_ATTRIBUTE", {}))
    return names, by_attr


def optimizer_names():
    import sqlglot.optimizer as O

    lazy = list(getattr(O, "_LAZY_ATTRS", {}))
    subs = sorted(f[:-3] for f in os.listdir(os.path.join(REPO, "sqlglot", "optimizer"))
                  if f.endswith(".py") and not f.startswith("_"))
    return lazy, subs


def gen_spec(chk: Check, kind: str, gen_unsafe: set) -> dict:
    rng = chk.rng
    names, by_attr = dialect_tables()
    n = rng.choice([2, 2, 3, 4, 4, 6, 8, 8, 12, 16])
    probe = rng.random() < 0.6
    spec: dict = {"mode": kind, "probe": probe, "switch": rng.choice([1e-6, 1e-6, 1e-6, 1e-5, 5e-5]),
                  "hashseed": rng.randrange(1000), "timeout": 15}
    threads = []
    if kind == "T-dialects":
        hot = rng.sample(names, rng.choice([1, 1, 2, 3]))
        if probe and rng.random() < 0.7:
            hot = ["VfProbe"] + hot
        for _ in range(n):
            prog = []
            # collide on the first accesses
            first = list(hot)
            if rng.random() < 0.5:
                rng.shuffle(first)
            for nm in first:
                prog.append(["attr", "dialects", nm])
                if nm not in gen_unsafe and rng.random() < 0.7:
                    prog.append(["gen", nm])
            for _ in range(rng.randint(2, 10)):
                nm = rng.choice(names + ["Dialect", "Dialects"] + (["VfProbe"] if probe else []))
                prog.append(["attr", "dialects", nm])
                if nm not in gen_unsafe and nm not in ("Dialect", "Dialects") and rng.random() < 0.5:
                    prog.append(["gen", nm])
            threads.append(prog)
    elif kind == "T-optimizer":
        lazy, subs = optimizer_names()
        pool = lazy + subs + (["vfprobe_o"] if probe else [])
        hot = rng.sample(pool, rng.choice([1, 2, 3]))
        if probe and rng.random() < 0.6:
            hot = ["vfprobe_o"] + hot
        for _ in range(n):
            first = list(hot)
            if rng.random() < 0.5:
                rng.shuffle(first)
            prog = [["attr", "optimizer", nm] for nm in first]
            for _ in range(rng.randint(2, 10)):
                prog.append(["attr", "optimizer", rng.choice(pool)])
            threads.append(prog)
    else:  # W: the public API over all dialects from cold
        low = [by_attr[nm] for nm in names]
        hot = rng.sample(low, rng.choice([1, 1, 2]))
        k_ops = rng.randint(6, 16)
        # `sqlglot.dialects.<Name>` accesses mixed with string look-ups: only in a minority of runs (that mix
        # dead-locks on today's tree — known finding — and a hung run tells nothing else)
        mix = rng.random() < 0.3
        spec["mix_attr"] = mix
        for _ in range(n):
            prog = []
            for d in (hot if rng.random() < 0.7 else rng.sample(hot, len(hot))):
                prog.append(rand_call(rng, d, low, mix))
            for _ in range(k_ops):
                prog.append(rand_call(rng, rng.choice(low), low, mix))
            if mix and probe and rng.random() < 0.5:
                prog.insert(rng.randrange(len(prog) + 1), ["attr", "dialects", "VfProbe"])
            threads.append(prog)
    spec["threads"] = threads
    return spec


def _derived(n: int, tag: int) -> str:
    # derived tables that only name their columns: the generator invents the table aliases _t0, _t1, ... from its per-run counter
    return "SELECT * FROM " + " CROSS JOIN ".join(f"(SELECT {tag * 100 + i} AS v) AS (c{tag}_{i})" for i in range(n))


STATEFUL_SQLS = [
    # unsupported-message collection (per-run list on the generator)
    "SELECT DISTINCT ON (a) a, b FROM t QUALIFY ROW_NUMBER() OVER (PARTITION BY b ORDER BY c) = 1",
    "SELECT x ILIKE ANY (ARRAY['a', 'b']) FROM t TABLESAMPLE BERNOULLI (10) WHERE JSON_EXTRACT(j, '$..k') IS NOT NULL",
    # pretty printing / comment sentinels
    "SELECT /* c1 */ a, (SELECT MAX(b) /* c2 */ FROM (SELECT b FROM u WHERE b > 1) AS q) AS m FROM t /* c3 */ WHERE a IN (SELECT a FROM v)",
    # placeholders / parameters
    "SELECT * FROM t WHERE a = ? AND b = ? AND c = :p1 AND d = @p2",
    # name sequences in the optimizer
    "SELECT a FROM t WHERE EXISTS (SELECT 1 FROM u WHERE u.a = t.a) AND b IN (SELECT b FROM v WHERE v.c = t.c)",
]


CONNECT_A = "SELECT id FROM t START WITH parent IS NULL CONNECT BY PRIOR id = parent AND PRIOR x = y AND PRIOR z = w"
CONNECT_B = "SELECT prior, a FROM t"
SQL_TAGS = {CONNECT_A: "connect-by-prior", CONNECT_B: "connect-by-prior"}


def connect_by_spec() -> dict:
    """parsers of one class at the same time: hierarchical queries (PRIOR is a prefix operator inside CONNECT BY) next to a
    plain column called `prior`"""
    threads = [[["sh", "transpile", CONNECT_A if w < 3 else CONNECT_B, "snowflake", "snowflake", "", 150]] for w in range(6)]
    return {"mode": "S", "probe": False, "switch": 1e-6, "hashseed": 0, "timeout": 40, "threads": threads}


def shared_spec(chk: Check) -> dict:
    """N threads work through SHARED Dialect instances (resolved once in the main thread, passed as read=/write=/dialect=):
    every call must own its Tokenizer / Parser / Generator"""
    rng = chk.rng
    names, by_attr = dialect_tables()
    low = [by_attr[nm] for nm in names]
    pool = ["postgres"] + rng.sample([d for d in low if d != "postgres"], 3)
    n = rng.choice([4, 6, 6, 8])
    hot = rng.choice(pool[:2])  # the instance most calls write through
    reps = rng.choice([12, 20, 30])
    threads = []
    for w in range(n):
        prog = []
        for j in range(rng.randint(3, 5)):
            r = rng.random()
            write = hot if rng.random() < 0.8 else rng.choice(pool)
            read = rng.choice([hot, "postgres", rng.choice(pool)])
            opt = "" if rng.random() < 0.65 else rng.choice(["pretty", "identify", "raise", "nocomments"])
            if r < 0.55:
                sql = _derived(5 + (w + j) % 6, w)
                what = rng.choice(["transpile", "sql", "generate"])
                prog.append(["sh", what, sql, "postgres", write, opt, reps])
            elif r < 0.85:
                prog.append(["sh", rng.choice(["transpile", "sql", "generate"]), rng.choice(STATEFUL_SQLS + SQLS), read, write, opt, reps])
            elif r < 0.93:
                prog.append(["sh", "optimize", rng.choice(STATEFUL_SQLS[-1:] + SQLS[:3]), read, write, "", max(3, reps // 4)])
            else:
                prog.append(["sh", rng.choice(["parse", "tokenize"]), rng.choice(STATEFUL_SQLS + SQLS), read, "", "", reps])
        threads.append(prog)
    return {"mode": "S", "probe": False, "switch": rng.choice([1e-6, 1e-6, 1e-5]), "hashseed": rng.randrange(1000),
            "timeout": 40, "threads": threads}


LOAD_PROBES = [
    # interval units (Dialect.VALID_INTERVAL_UNITS / DATE_PART_MAPPING)
    "SELECT price::INTERVAL ss, amount::INTERVAL tz, x::INTERVAL qq FROM t",
    "SELECT CAST(a AS INTERVAL QQ), CAST(b AS INTERVAL WW), CAST(c AS INTERVAL MCS)",
    "SELECT DATE_TRUNC('WW', d), DATEPART(QQ, d), EXTRACT(ISODOW FROM d), DATE_ADD(d, INTERVAL 5 N) FROM t",
    # time mappings and their tries
    "SELECT TO_CHAR(d, 'YYYY-MM-DD HH24:MI:SS'), TO_DATE(s, 'DD/MM/YYYY'), DATE_FORMAT(d, '%Y-%m-%d %H:%i'), STRFTIME(d, '%Y-%j') FROM t",
    # escape tables / quotes
    "SELECT 'a\\nb', 'it''s', E'x\\ty', \"q\" FROM t",
    # keyword tries
    "SELECT top, qualify, ilike, unnest, pivot, \"select\" FROM t",
    # TRANSFORMS / JSON path parts
    "SELECT JSON_EXTRACT(j, '$.a[0].b'), j -> 'a' ->> 'b', JSON_EXTRACT_SCALAR(j, '$..c') FROM t",
    # property tables
    "CREATE TABLE t (a INT, b TEXT) PARTITIONED BY (a) LOCATION 's3://x' TBLPROPERTIES ('k'='v')",
    # function tables / type mappings
    "SELECT DATE_ADD(d, 1), DATEDIFF(a, b), LEN(x), IFNULL(a, b), NVL2(a, b, c), CAST(x AS DATETIME2), CAST(y AS TINYINT), CAST(z AS VARIANT) FROM t",
    # type coercion tables (TypeAnnotator.COERCES_TO / Dialect.COERCES_TO)
    "annotate:SELECT COALESCE(CAST(s AS VARCHAR), CAST(d AS DATE)) AS y, CASE WHEN c THEN CAST(s AS VARCHAR) ELSE CAST(ts AS TIMESTAMP) END AS z, "
    "CAST(a AS DECIMAL(10, 2)) + CAST(b AS BIGINT) AS w FROM t",
]


def load_spec(order: list) -> dict:
    return {"mode": "L", "probe": False, "switch": 1e-6, "hashseed": 0, "timeout": 90, "order": order, "probes": LOAD_PROBES,
            "threads": [[], []]}


def _snap_diffs(a: dict, b: dict) -> list:
    """every differing table between two snapshots of one dialect; differing answers only if no table differs"""
    out = [("table", k, a["fp"].get(k), b["fp"].get(k)) for k in sorted(set(a["fp"]) | set(b["fp"])) if a["fp"].get(k) != b["fp"].get(k)]
    if not out:
        out = [("answer", i, x, y) for i, (x, y) in enumerate(zip(a["probes"], b["probes"])) if x != y]
    return out


def _snap_diff(a: dict, b: dict):
    d = _snap_diffs(a, b)
    return d[0] if d else None


def load_interference(chk: Check, runner: Runner, workers: int, boost: int) -> None:
    """(a) for dialects X loaded earlier: the FIRST load of Y (by another thread) must change no class-level table reachable
    from X and none of X's answers; (b) X's tables / answers after other dialects were loaded first must equal those of a
    process that loads only X"""
    names, by_attr = dialect_tables()
    low = sorted(by_attr[nm] for nm in names)
    rng = chk.rng
    n_proc = chk.pick(8, 40) * boost
    k = chk.pick(8, 9)
    orders = []
    for i in range(n_proc):
        orders.append(rng.sample(low, min(k, len(low))))
    tails = sorted({o[-1] for o in orders})
    specs = [load_spec(o) for o in orders] + [load_spec([d]) for d in tails]
    with concurrent.futures.ThreadPoolExecutor(max_workers=workers) as ex:
        outs = list(ex.map(runner.run, specs))
    alone = {}
    for d, out in zip(tails, outs[len(orders):]):
        if out.get("crash") or not out.get("snaps"):
            raise HarnessError(f"C19 load-reference process for {d} failed: {str(out.get('crash'))[:300]} {out.get('errors')}")
        alone[d] = out["snaps"][0][d]
    pairs = 0
    reported: set = set()
    for order, out in zip(orders, outs[:len(orders)]):
        chk.count("run:L")
        if out.get("crash"):
            raise HarnessError("C19 load-interference child crashed: " + str(out["crash"])[:400])
        if out.get("hang"):
            chk.report_violation("hang:load-interference", f"loading {order} one after the other never finished",
                                 {"spec": public_spec(load_spec(order))}, context={"mode": "L"})
            continue
        for e in out.get("errors", []):
            chk.report_violation("raise:load-interference:" + e.split(":")[1].strip() if ":" in e else "raise:load-interference",
                                 e, {"spec": public_spec(load_spec(order))}, context={"mode": "L"})
        snaps = out["snaps"]
        chk.case(("L", tuple(order)), nontrivial=True,
                 sample={"mode": "L", "order": order, "tables_per_dialect": len(snaps[0][order[0]]["fp"]) if snaps else 0} if pairs == 0 else None)
        for j, x in enumerate(order):
            for kk in range(j + 1, len(snaps)):
                pairs += 1
                if x not in snaps[kk] or x not in snaps[j]:
                    continue
                small = None
                for d in _snap_diffs(snaps[j][x], snaps[kk][x]):
                    if (d[0], d[1]) in reported:   # one report per table (whatever X): the key does not name X
                        continue
                    reported.add((d[0], d[1]))
                    y = order[kk]
                    # minimise: X then Y alone in a fresh process
                    if small is None:
                        small = runner.run(load_spec([x, y]))
                    dms = _snap_diffs(small["snaps"][0][x], small["snaps"][1][x]) if len(small.get("snaps", [])) == 2 else []
                    dm = next((z for z in dms if z[:2] == d[:2]), None)
                    spec = load_spec([x, y]) if dm else load_spec(order[:kk + 1])
                    d = dm or d
                    if d[0] == "table":
                        src = (small["snaps"][0][x], small["snaps"][1][x]) if dm else (snaps[j][x], snaps[kk][x])
                        ans = [{"sql": LOAD_PROBES[i], "before": a[:300], "after": b[:300]}
                               for i, (a, b) in enumerate(zip(src[0]["probes"], src[1]["probes"])) if a != b][:2]
                        chk.report_violation(f"class-table-changed:{d[1]}",
                                             f"the first use of {y} (in another thread) changed {x}'s class-level table {d[1]}: fingerprint {d[2]} -> {d[3]}"
                                             + (f"; e.g. {x} {ans[0]['sql']!r}: {ans[0]['before'][:120]!r} -> {ans[0]['after'][:120]!r}" if ans else ""),
                                             {"spec": public_spec(spec), "observed": {"x": x, "y": y, "table": d[1], "before": d[2], "after": d[3], "answers_changed": ans}},
                                             context={"mode": "L"})
                    else:
                        chk.report_violation(f"load-changes-answer:probe{d[1]}",
                                             f"{x}: {LOAD_PROBES[d[1]]!r} gave {d[2][:200]!r} before and {d[3][:200]!r} after the first use of {y} in another thread",
                                             {"spec": public_spec(spec), "observed": {"x": x, "y": y, "sql": LOAD_PROBES[d[1]], "before": d[2], "after": d[3]}},
                                             context={"mode": "L"})
        # (b) the last one against a process that loaded nothing else
        x = order[-1]
        for d in (_snap_diffs(alone[x], snaps[-1][x]) if len(snaps) == len(order) and x in alone else []):
            if True:
                what = (f"table {d[1]}" if d[0] == "table" else f"answer to {LOAD_PROBES[d[1]]!r}")
                key = f"class-table-depends-on-load-order:{d[1]}" if d[0] == "table" else f"answer-depends-on-load-order:probe{d[1]}"
                chk.report_violation(key, f"{x}'s {what} differs when {order[:-1]} were used first: alone {str(d[2])[:200]!r}, after them {str(d[3])[:200]!r}",
                                     {"spec": public_spec(load_spec(order)), "compare_with": public_spec(load_spec([x])),
                                      "observed": {"x": x, "alone": d[2], "after_others": d[3]}}, context={"mode": "L"})
    chk.cov["load_interference"] = {"processes": len(specs), "xy_pairs_checked": pairs, "probes": len(LOAD_PROBES)}


SETTING_SQLS = [
    ("redshift", "SELECT LISTAGG(x, ', ') FROM t"),
    ("mysql", "SELECT GROUP_CONCAT(x SEPARATOR ', ') FROM t"),
    ("", "SELECT ANY_VALUE(x), COUNT_IF(x > 1) FROM t"),
    ("", "SELECT DATE_TRUNC('MONTH', d), TIMESTAMP_TRUNC(ts, DAY) FROM t"),
    ("duckdb", "SELECT m['a'], arr[1], COUNT_IF(y) FROM t"),
    ("", "SELECT a, STRING_AGG(b, '-') FROM t GROUP BY a"),
]


def settings_spec(chk: Check, dialect: str, below: str) -> dict:
    """threads transpile the same statements to ONE dialect class with DIFFERENT settings at the same time
    (`"spark, version=3.0"` next to `"spark"`; a normalization_strategy variant for the optimizer)"""
    rng = chk.rng
    n = rng.choice([4, 6, 8])
    reps = rng.choice([15, 25])
    variants = [f"{dialect}, version={below}", dialect]
    threads = []
    for w in range(n):
        wr = variants[w % 2]
        prog = [["vt", "transpile", sql, rd, wr, reps] for rd, sql in SETTING_SQLS]
        rng.shuffle(prog)
        norm = f"{dialect}, normalization_strategy = case_sensitive" if w % 4 >= 2 else dialect
        prog.append(["vt", "optimize", 'SELECT Foo, "Bar", t.Baz FROM Tbl AS t', "", norm, max(3, reps // 5)])
        threads.append(prog)
    return {"mode": "V", "probe": False, "switch": rng.choice([1e-6, 1e-6, 1e-5]), "hashseed": rng.randrange(1000), "timeout": 40,
            "threads": threads}


DIALECT_SUFFIXES = ["", ", version=1.0", ", version=99.0", ", normalization_strategy = case_sensitive",
                    ", normalization_strategy = lowercase", ", version=7.5, normalization_strategy = uppercase"]


def churn_spec(chk: Check) -> dict:
    """8 threads cycle through MANY distinct dialect strings (every registered name x settings suffixes: about 200, several
    times any plausible memo capacity) at the same time"""
    rng = chk.rng
    names, by_attr = dialect_tables()
    strings = [by_attr[nm] + sfx for nm in names for sfx in DIALECT_SUFFIXES]
    sql = "SELECT a + 1 AS b, COUNT(*) FROM t WHERE c = 'x' GROUP BY 1"
    threads = []
    for w in range(8):
        order = list(strings)
        rng.shuffle(order)
        threads.append([["vt", "transpile", sql, "", d, 1] for d in order])
    return {"mode": "D", "probe": False, "switch": 1e-5, "hashseed": rng.randrange(1000), "timeout": 60, "threads": threads}


def _below(t: tuple) -> str:
    t = list(t)
    i = len(t) - 1
    while i >= 0 and t[i] == 0:
        i -= 1
    if i < 0:
        return "0"
    t[i] -= 1
    t = t[:i + 1] + [99] * (len(t) - i - 1)
    return ".".join(map(str, t)) if len(t) > 1 else f"{t[0]}.0"


def route_targets() -> list:
    """(package tag, attribute, module) for every module that has both an attribute route and a string/import route"""
    names, by_attr = dialect_tables()
    out = [("dialects", nm, f"sqlglot.dialects.{by_attr[nm]}") for nm in names if nm in by_attr]
    _, subs = optimizer_names()
    out += [("optimizer", sub, f"sqlglot.optimizer.{sub}") for sub in subs]
    return out


def route_spec(tag: str, attr: str, module: str) -> dict:
    """two threads, first use of one module, one per route; the interleaving is forced by the harness: the string-route
    thread is paused inside exec_module (module lock held) until the attribute-route thread owns the package lock"""
    second = ["dialect", module.rsplit(".", 1)[1]] if tag == "dialects" else ["import", module]
    return {"mode": "R", "probe": False, "switch": 1e-6, "hashseed": 0, "timeout": 7,
            "force": {"module": module, "tag": tag, "a_thread": 0, "s_thread": 1},
            "threads": [[["attr", tag, attr]], [second]]}


def rand_call(rng, d, low, mix=True):
    r = rng.random()
    if not mix and 0.8 <= r < 0.9:
        r = 0.5
    sql = rng.choice(SQLS)
    if r < 0.15:
        return ["tokenize", sql, d]
    if r < 0.35:
        return ["parse", sql, d]
    if r < 0.7:
        return ["transpile", sql, d, rng.choice(low)]
    if r < 0.8:
        return ["dialect", d]
    if r < 0.9:
        return ["attr", "dialects", next(k for k, v in dialect_tables()[1].items() if v == d and k not in ("Dialect", "Dialects"))]
    return ["optimize", sql, d]


# ------------------------------------------------------------------------------------------ baseline
class _Abort(Exception):
    """a sequential (one thread) process already violates the property; reported, nothing more to do"""


def lock_wait(out: dict) -> bool:
    """is the stuck thread waiting for a lock (as opposed to merely being slow)?"""
    for v in out.get("hang_info", {}).values():
        st = v.get("stack", [])
        if st and (st[-1].endswith(":acquire") or st[-1].endswith(":__enter__") or st[-1].endswith(":wait")):
            return True
    return False


def sequential_failure(chk: Check, out: dict, what: str) -> None:
    if out.get("crash"):
        raise HarnessError(f"C19 {what} process failed: {str(out.get('crash'))[:500]}")
    info = out.get("hang_info", {})
    sigs = hang_sigs(out)
    prog = out["spec"]["threads"][0]
    at = next((v.get("op") for v in info.values() if v.get("op") is not None), 0)
    chk.report_violation("hang:" + "|".join(sigs), f"a single thread hangs by itself in call #{at} {prog[at] if at < len(prog) else '?'} "
                         f"(self dead-lock), blocked at {sigs}",
                         {"spec": {"mode": "alone", "probe": out["spec"].get("probe", False), "switch": 0.005, "timeout": 10,
                                   "threads": [[prog[at]] if at < len(prog) else prog[:1]]},
                          "observed": {"blocked": [v.get("stack", [])[-8:] for v in info.values()][:2]}},
                         context={"mode": "sequential"})
    raise _Abort()


class Baseline:
    """sequential answers, computed in separate processes (one thread, nothing else running)"""

    def __init__(self, runner: Runner, chk: Check | None = None):
        self.runner = runner
        self.chk = chk
        self.cache: dict = {}

    @staticmethod
    def key(op):
        return json.dumps(op)

    def ensure(self, ops: list, probe: bool) -> None:
        todo = []
        seen = set()
        for op in ops:
            k = (self.key(op), probe if op[0] == "attr" and op[2] in ("VfProbe", "vfprobe_o") else False)
            if k not in self.cache and k not in seen:
                seen.add(k)
                todo.append(op)
        if not todo:
            return
        # one repetition is enough for the sequential answer of a repeated shared-instance call
        run_ops = [op[:6] + [1] if op[0] == "sh" else op for op in todo]
        size = 500
        chunks = [(todo[i:i + size], run_ops[i:i + size]) for i in range(0, len(todo), size)]

        def one(ch):
            return self.runner.run({"mode": "baseline", "probe": True, "threads": [ch[1]], "switch": 0.005, "timeout": 90})

        with concurrent.futures.ThreadPoolExecutor(max_workers=min(6, len(chunks))) as ex:
            outs = list(ex.map(one, chunks))
        for (orig, _), out in zip(chunks, outs):
            if out.get("hang") and self.chk is not None and lock_wait(out):
                sequential_failure(self.chk, out, "baseline")
            if out.get("crash") or out.get("hang") or len(out["results"][0]) != len(orig):
                raise HarnessError(f"C19 baseline process failed or too slow: {out.get('crash') or out.get('hang_info')}")
            for op, r in zip(orig, out["results"][0]):
                self.cache[(self.key(op), False)] = r
                self.cache[(self.key(op), True)] = r

    def get(self, op):
        return self.cache[(self.key(op), False)]

    def alone(self, op, probe: bool) -> str:
        """the call run alone in its own fresh process"""
        out = self.runner.run({"mode": "alone", "probe": probe, "threads": [[op]], "switch": 0.005, "timeout": 60})
        if out.get("hang") and self.chk is not None and lock_wait(out):
            sequential_failure(self.chk, out, "alone")
        if out.get("crash") or out.get("hang") or not out["results"][0]:
            raise HarnessError(f"C19 alone-process failed: {out.get('crash') or out.get('hang_info')}")
        return out["results"][0][0]


def gen_unsafe_names(runner: Runner, chk: Check | None = None) -> set:
    """dialects whose first generator construction imports further sqlglot modules outside any lazy access
    (function-level imports, e.g. athena -> hive, trino): their `gen` is kept out of the model-trace runs"""
    names, _ = dialect_tables()
    prog = []
    for nm in names:
        prog += [["attr", "dialects", nm], ["gen", nm]]
    out = runner.run({"mode": "baseline", "probe": False, "threads": [prog], "switch": 0.005, "timeout": 60})
    if out.get("hang") and chk is not None and lock_wait(out):
        sequential_failure(chk, out, "gen-probe")
    if out.get("crash") or out.get("hang"):
        raise HarnessError(f"C19 gen-probe process failed: {out.get('crash') or out.get('hang_info')}")
    bad = set()
    for (op, nex) in zip(prog, out["op_execs"][0]):
        if op[0] == "gen" and nex:
            bad.add(op[1])
    return bad


# ------------------------------------------------------------------------------------------ trace -> model
def model_input(out: dict, pkg: str, kind: str):
    """Project the recorded events of one package onto the model's alphabet; programs and module bodies are read off
    the trace (they are configuration of the model, the ORDER of the events is what gets validated)."""
    prefix = "sqlglot.dialects." if pkg == "dialects" else "sqlglot.optimizer."
    mods: dict = {}
    classes: dict = {}

    def mid(name):
        return mods.setdefault(name, len(mods))

    def cid(name):
        return classes.setdefault(name, 100000 + len(classes))

    nthreads = len(out["spec"]["threads"])
    progs = [[] for _ in range(nthreads)]
    bodies: dict = {}
    trace = []
    # per-thread parser state
    depth = [0] * nthreads            # open lazy calls
    exec_stack = [[] for _ in range(nthreads)]
    last_imp = [None] * nthreads
    outside = []
    for (t, k, a) in out["events"]:
        if k == "op":
            depth[t] = 0  # a new top-level call of the thread's program
            continue
        if k in ("call", "callfail", "imp"):
            if a[0] != pkg:
                continue
            name = a[1]
            if k == "callfail":
                outside.append(("callfail", name))
                continue
            if k == "call":
                if exec_stack[t]:
                    bodies.setdefault(exec_stack[t][-1], []).append(["lazy", mid(name)])
                elif depth[t] == 0:
                    progs[t].append(["access", mid(name)])
                else:
                    outside.append(("call inside call", name))
                depth[t] += 1
                trace.append([t, "call", mid(name)])
            else:
                last_imp[t] = name
                trace.append([t, "imp", mid(name)])
                continue
        elif k in ("acq", "rel"):
            if a != pkg:
                continue
            if k == "rel":
                depth[t] -= 1
            trace.append([t, k])
        elif k in ("exec", "reg", "execfail"):
            if not a.startswith(prefix):
                continue
            if k == "execfail":
                outside.append(("execfail", a))
                continue
            if k == "exec":
                if last_imp[t] == a:
                    pass  # the body started by the lazy access itself
                elif exec_stack[t]:
                    bodies.setdefault(exec_stack[t][-1], []).append(["direct", mid(a)])
                else:
                    outside.append(("module body outside any lazy access (importlib-locked direct path)", a))
                exec_stack[t].append(a)
                bodies.setdefault(a, [])
                trace.append([t, "exec", mid(a)])
            else:
                if exec_stack[t] and exec_stack[t][-1] == a:
                    exec_stack[t].pop()
                trace.append([t, "reg", mid(a)])
        elif k in ("chit", "cmiss", "cset"):
            if pkg != "dialects":
                continue
            if k in ("chit", "cmiss"):
                progs[t].append(["gen", cid(a)])
            trace.append([t, k, cid(a)])
        last_imp[t] = last_imp[t] if k == "imp" else None
    # modules that `import sqlglot` itself loaded before the threads started: a pseudo thread loads them first
    pre = [name for name in list(mods) if name in set(out.get("pre_loaded", []))]
    if pre:
        boot = nthreads
        head = []
        for name in pre:
            i = mid(name)
            head += [[boot, "call", i], [boot, "acq"], [boot, "imp", i], [boot, "exec", i], [boot, "reg", i], [boot, "rel"]]
            bodies.setdefault(name, [])
        progs = progs + [[["access", mid(name)] for name in pre]]
        trace = head + trace
    body_list = [[mid(m), items] for m, items in bodies.items()]
    for name, i in list(mods.items()):
        if name not in bodies:
            body_list.append([i, []])
    line = json.dumps({"kind": kind, "bodies": sorted(body_list), "progs": progs, "trace": trace})
    return line, mods, classes, progs, outside


# ------------------------------------------------------------------------------------------ oracles on one run
def lock_holders(out: dict) -> dict:
    """thread -> set of package locks it holds according to the recorded acq/rel events"""
    depth: dict = {}
    for (t, k, a) in out.get("events", []):
        if k == "acq":
            depth[(t, a)] = depth.get((t, a), 0) + 1
        elif k == "rel":
            depth[(t, a)] = depth.get((t, a), 0) - 1
    res: dict = {}
    for (t, a), d in depth.items():
        if d > 0:
            res.setdefault(str(t), set()).add(a)
    return res


def hang_sigs(out: dict) -> list:
    holders = lock_holders(out)
    sigs = set()
    for i, v in out.get("hang_info", {}).items():
        st = v.get("stack", [])
        sig = hang_signature(st)
        # blocked in `with _import_lock` while holding that very lock: a self dead-lock (non re-entrant lock)
        if st and st[-1].startswith("c19.py:") and st[-1].endswith(":__enter__") and holders.get(str(i)):
            sig = "self:" + sig
        sigs.add(sig)
    return sorted(sigs) or ["?"]


def hang_signature(stack: list) -> str:
    """the innermost two frames that belong to sqlglot (or to a harness probe module) of a blocked thread"""
    keep = []
    for fr in stack:
        fn, _, name = fr.split(":")
        if fn in ("c19.py", "threading.py") or fn.startswith("<frozen"):
            continue
        if fn == "__init__.py" and name == "import_module":
            continue
        keep.append(f"{fn}:{name}")
    return ">".join(keep[-2:]) or "?"


def load_intervals(out: dict) -> dict:
    """module -> (loader thread, index of its `exec` event, index of its `reg` event or None)"""
    res: dict = {}
    for i, (t, k, a) in enumerate(out["events"]):
        if k == "exec" and isinstance(a, str) and a.startswith("sqlglot.dialects.") and a not in res:
            res[a] = [t, i, None]
        elif k in ("reg", "execfail") and isinstance(a, str) and a in res and res[a][2] is None and res[a][0] == t:
            res[a][2] = i
    return res


def early_registry_read(out: dict, loading: dict, t: int, j: int, op: list):
    """Was a dialect this call names still being initialised by ANOTHER thread while the call ran?  (`_Dialect.get`
    answers from `_classes` as soon as the metaclass has registered the class — before `__new__` has configured it and
    before the rest of the module body has run.)"""
    i0 = i1 = None
    for i, (tt, k, a) in enumerate(out["events"]):
        if tt == t and a == j:
            if k == "op":
                i0 = i
            elif k == "opend":
                i1 = i
    if i0 is None:
        return None
    i1 = i1 if i1 is not None else len(out["events"])
    names = [x for x in op[1:] if isinstance(x, str) and " " not in x]
    for nm in names:
        iv = loading.get("sqlglot.dialects." + nm.lower())
        if iv and iv[0] != t and iv[1] < i1 and (iv[2] is None or iv[2] > i0):
            return nm.lower()
    return None


def lock_discipline(out: dict):
    """python-side sanity check of the recorded lock events (also done by the model replay in T runs)"""
    owner: dict = {}
    for i, (t, k, a) in enumerate(out["events"]):
        if k == "acq":
            o = owner.get(a)
            if o and o[0] != t and o[1] > 0:
                return f"event {i}: thread {t} acquired {a} lock while thread {o[0]} holds it"
            owner[a] = (t, (o[1] if o and o[0] == t else 0) + 1)
        elif k == "rel":
            o = owner.get(a)
            if not o or o[0] != t or o[1] <= 0:
                return f"event {i}: thread {t} released {a} lock it does not hold"
            owner[a] = (t, o[1] - 1)
    return None


def check_run(chk: Check, out: dict, base: Baseline, runner: Runner) -> list:
    """the property's statement on one concurrent run; returns [(key, what, detail)]"""
    spec = out["spec"]
    bad = []
    pub = public_spec(spec)
    if out.get("crash"):
        raise HarnessError("C19 child crashed: " + str(out["crash"])[:500])
    if out["hang"]:
        info = out.get("hang_info", {})
        sigs = hang_sigs(out)
        bad.append(("hang:" + "|".join(sigs), f"threads {out['hang']} never finished (dead-lock); blocked at: {sigs}",
                    {"blocked": {i: v.get("stack", [])[-8:] for i, v in list(info.items())[:4]}}))
        return bad
    loading = load_intervals(out)
    for t, (prog, res) in enumerate(zip(spec["threads"], out["results"])):
        for j, (op, r) in enumerate(zip(prog, res)):
            exp = base.get(op)
            if r == exp:
                continue
            if len(bad) >= 3:
                break
            # confirm against the call run alone in a fresh process (the baseline process ran other calls before it)
            alone = base.alone(op, spec.get("probe", False))
            if r == alone:
                chk.count("baseline-order-artefact")
                continue
            kind = "raise" if r.startswith("raise:") else "result"
            exc = r.split(":")[1] if kind == "raise" else ""
            where = r.rsplit("|", 1)[-1].split(">")[-1].split(":")[0] if kind == "raise" else ""
            early = early_registry_read(out, loading, t, j, op)
            if early:
                kind = "early-registry-read:" + kind
            key = f"{kind}:{op[0]}:{exc}:{where}"
            if op[0] == "vt" and spec.get("mode") == "D":
                key = f"dialect-strings:{kind}:{exc}"
            elif op[0] == "vt":
                key = f"settings:{'unstable' if r.startswith('unstable:') else kind}:{op[1]}:{op[4].split(',')[0]}"
            if op[0] == "sh":
                key = f"shared-instance:{'unstable' if r.startswith('unstable:') else kind}:{op[1]}:{op[5] or 'noopt'}"
                if op[2] in SQL_TAGS:
                    key += ":" + SQL_TAGS[op[2]]
            bad.append((key,
                        f"thread {t} call #{j} {op} gave {r[:300]!r}; run alone it gives {alone[:300]!r}",
                        {"thread": t, "index": j, "op": op, "got": r[:2000], "alone": alone[:2000]}))
    failed_imports = {a for (_, k, a) in out.get("events", []) if k == "execfail"}
    for m, c in out["exec_counts"].items():
        if c > 1:
            if m in failed_imports:
                # the first import raised (reported through the call that hit it); importing again afterwards is the
                # interpreter's normal retry, not a second concurrent execution
                chk.count("reimport-after-failed-import")
                continue
            grp = ".".join(m.split(".")[:2])
            bad.append((f"double-exec:{grp}", f"the body of module {m} was executed {c} times", {"module": m, "count": c}))
    for c, fps in out["fills"].items():
        if len(set(fps)) > 1:
            bad.append(("dispatch-fill-differs", f"racing fills of _DISPATCH_CACHE[{c}] stored different tables {sorted(set(fps))}",
                        {"class": c, "tables": sorted(set(fps))}))
    ld = lock_discipline(out)
    if ld:
        bad.append(("lock-discipline", ld, {}))
    return bad


# ------------------------------------------------------------------------------------------ the pipeline
def run_batch(chk: Check, runner: Runner, specs: list, workers: int) -> list:
    with concurrent.futures.ThreadPoolExecutor(max_workers=workers) as ex:
        return list(ex.map(runner.run, specs))


def all_ops(specs):
    for s in specs:
        for prog in s["threads"]:
            yield from prog


def process_outputs(chk: Check, runner: Runner, base: Baseline, outs: list, kind: str, stats: dict) -> None:
    lines, meta = [], []
    for out in outs:
        spec = out["spec"]
        mode = spec["mode"]
        chk.count("run:" + mode)
        chk.count(f"threads:{len(spec['threads'])}")
        nev = len(out.get("events", []))
        stats["events"] += nev
        ops = [op for prog in spec["threads"] for op in prog]
        for op in ops:
            chk.count("op:" + op[0])
        first_use = sum(1 for c in out.get("exec_counts", {}).values() if c >= 1)
        contended = _contention(out)
        stats["contended"] += 1 if contended else 0
        chk.case((mode, json.dumps(spec["threads"]), spec.get("hashseed")), nontrivial=first_use > 3,
                 sample={"mode": mode, "threads": len(spec["threads"]), "probe": spec.get("probe"), "events": nev,
                         "module_bodies_run": first_use, "lock_contended": contended,
                         "first_ops": [p[:2] for p in spec["threads"][:3]]} if stats["samples"] < 6 else None)
        stats["samples"] += 1
        if mode == "R":
            forced = any(k == "paused" for (_, k, _) in out.get("events", []))
            chk.count("route:forced" if forced else "route:not-forced")
        for key, what, detail in check_run(chk, out, base, runner):
            stats["violating"] += 1
            chk.report_violation(key, what, {"spec": public_spec(spec), "observed": detail,
                                             "how": "python vf/props/c19.py child <spec> <out>  (repeat: thread schedules vary)"},
                                 context={"mode": mode})
        if mode.startswith("T-") and not out["hang"]:
            pkg = mode[2:]
            line, mods, classes, progs, outside = model_input(out, pkg, kind)
            if outside:
                chk.count("trace-outside-model")
                stats["outside"].append(outside[0])
                continue
            lines.append(line)
            meta.append((out, progs, mods))
    if not lines:
        return
    got = chk.driver("C19", lines)
    chk.corr_cases += len(lines)
    for li, (g, (out, progs, mods)) in enumerate(zip(got, meta)):
        r = json.loads(g)
        spec = out["spec"]
        inv = {v: k for k, v in mods.items()}
        if not r.get("ok"):
            ev = json.loads(lines[li])["trace"][max(0, r.get("at", 0) - 6): r.get("at", 0) + 2]
            chk.correspondence_broken("recorded trace is not a run of the model: " + str(r.get("why")),
                                      {"spec": public_spec(spec), "at": r.get("at"), "events_before": ev,
                                       "modules": {str(k): v for k, v in inv.items()}})
            continue
        if not r.get("complete"):
            chk.correspondence_broken("the model has not finished after the recorded trace", {"spec": public_spec(spec), "model": r})
            continue
        stats["replayed_steps"] += r.get("steps", 0)
        # the model's results (all attribute accesses succeed, loads once) against what the threads returned
        for t, mres in enumerate(r["results"]):
            n_attr = sum(1 for x in mres if x[0] == "attr")
            if any(x[0] == "attr" and x[2] is not True for x in mres):
                chk.correspondence_broken("model returned a half-initialised module", {"spec": public_spec(spec), "thread": t})
        for m, c in r["loads"]:
            real = out["exec_counts"].get(inv.get(m, ""), 0)
            if c != real and inv.get(m, "") not in out.get("pre_loaded", []):
                chk.correspondence_broken("module body executions differ", {"spec": public_spec(spec), "module": inv.get(m), "model": c, "real": real})


def _contention(out: dict) -> bool:
    """did some thread enter __getattr__ while another one was holding the lock?"""
    holder = {}
    for (t, k, a) in out.get("events", []):
        if k == "acq":
            holder[a] = holder.get(a, []) + [t]
        elif k == "rel":
            if holder.get(a):
                holder[a].pop()
        elif k == "call":
            h = holder.get(a[0])
            if h and h[-1] != t:
                return True
    return False


def order_dependence(chk: Check, runner: Runner, base: Baseline, specs: list, workers: int) -> None:
    """The baseline process ran thousands of calls one after the other; a few of them are re-run ALONE in fresh
    processes: "what it returns when run alone" must not depend on what the process did before (stale cache keys)."""
    ops = [op for op in {json.dumps(o): o for o in all_ops(specs)}.values() if op[0] in ("transpile", "gen", "optimize", "parse")]
    k = min(len(ops), chk.pick(5, 40))
    sample = chk.rng.sample(ops, k) if ops else []
    with concurrent.futures.ThreadPoolExecutor(max_workers=workers) as ex:
        alone = list(ex.map(lambda o: base.alone(o, True), sample))
    for op, a in zip(sample, alone):
        chk.count("alone-vs-sequential")
        if a != base.get(op):
            chk.report_violation(f"order-dependent:{op[0]}", f"{op} gives {base.get(op)[:300]!r} after other calls in the same process "
                                 f"but {a[:300]!r} when run alone", {"spec": {"mode": "alone-vs-sequential", "op": op}, "sequential": base.get(op)[:2000], "alone": a[:2000]},
                                 context={"mode": "sequential"})


def run(chk: Check) -> None:
    chk.trusted.append("C19: hand-written interleaving models in Model/Threads.lean — (A) the package-lock model (lazy __getattr__s, import_module as "
                       "test + load + body + registration without importlib's lock, _DISPATCH_CACHE get/build/store; the recorded traces are replayed "
                       "against this one), (B) `Routes` (lock order of package lock vs module locks), (C) `Full` (package lock AND importlib's module "
                       "locks, attribute + string route, multi-step class configuration, registry order, lock-free fast path, multi-step dispatch fill); "
                       "the harness-side wrappers that record the event trace (lock proxy, __getattr__ / import_module wrappers, import hook)")
    chk.assumptions += [
        "PARTIAL: CPython's GIL makes each recorded step (dict get/set, list append, lock acquire/release) atomic; the models' steps are those",
        "importlib's per-module lock is modelled (Full/Routes) as a re-entrant mutex held from before the sys.modules test until the module body has finished; "
        "its dead-lock DETECTION between module locks is not modelled (only 'a thread never blocks on a module lock it holds'), progress is proved for the "
        "package-lock model and for the two-routes lock-order model, not for Full",
        "the Full model's safety theorems (load once, sequential results for mixed routes, no half-configured class, no partial module, no partial dispatch table) "
        "are tied to the source by ast-extracted orderings (Generated.shape, decided) and by the real-code search; recorded traces are replayed against model (A) only",
        "module bodies and thread programs are configuration of the model: for trace validation they are read off the recorded trace, the order of events is what is validated",
        "a concurrent run explores the schedules the OS produces with switch interval 1e-6 and a start barrier (plus the forced two-route schedule per module), not all interleavings (that is what the Lean theorems cover, for the models)",
    ]
    chk.write_generated(translate(chk))
    proved = chk.prove(MODULES, "Properties.C19", THEOREMS)
    facts = chk.cov["lock_facts"]
    kinds = {effective_kind(facts["dialects"]), effective_kind(facts["optimizer"])}
    kind = "rlock" if kinds == {"rlock"} else ("absent" if "absent" in kinds else "plain")
    chk.cov["model_lock_kind"] = kind

    runner = Runner(chk)
    try:
        base = Baseline(runner, chk)
        gen_unsafe = gen_unsafe_names(runner, chk)
        chk.cov["gen_outside_model"] = sorted(gen_unsafe)
        workers = min(8, max(2, (os.cpu_count() or 4) // 2))
        boost = 2 if chk.broken else 1
        plan = [("T-dialects", chk.pick(12, 120) * boost), ("T-optimizer", chk.pick(6, 60) * boost), ("W", chk.pick(18, 220) * boost)]
        stats = {"events": 0, "contended": 0, "violating": 0, "replayed_steps": 0, "outside": [], "samples": 0}
        specs = []
        for mode, cnt in plan:
            for _ in range(cnt):
                specs.append(gen_spec(chk, mode, gen_unsafe))
        corpus_dir = os.path.join(os.path.dirname(os.path.dirname(os.path.dirname(os.path.abspath(__file__)))), "corpus", "C19")
        corpus = []
        if os.path.isdir(corpus_dir):
            for fn in sorted(os.listdir(corpus_dir)):
                if fn.endswith(".json"):
                    c = json.load(open(os.path.join(corpus_dir, fn)))
                    c.pop("note", None)
                    corpus.append(c)
        # the forced two-route schedule: every module in thorough; in quick every dialect module plus a
        # rotating subset of the optimizer modules (everything, flagged modules first, when a tie is broken)
        targets = route_targets()
        flagged = set(chk.cov.pop("_reentry_modules", []))
        pre = {"sqlglot.optimizer.scope"}
        targets = [tg for tg in targets if tg[2] not in pre]
        if chk.quick and not chk.broken:
            dl = [tg for tg in targets if tg[0] == "dialects"]
            op = [tg for tg in targets if tg[0] == "optimizer"]
            pick = dl + chk.rng.sample(op, min(4, len(op)))  # every dialect (≈1 s each, in parallel), rotating optimizer subset
        else:
            pick = sorted(targets, key=lambda tg: tg[2] not in flagged)
        routes = [route_spec(*tg) for tg in pick]
        chk.cov["route_runs"] = {"targets": len(targets), "run": len(routes)}
        shared = [connect_by_spec()] + [shared_spec(chk) for _ in range(chk.pick(6, 40) * boost)]
        # one dialect class, different settings at the same time: the dialects (and version thresholds) whose handlers read
        # `self.dialect.version` are found by ast; children of a dialect class share its generator (databricks -> spark)
        versioned = sorted({(d, _below(t)) for d, t in chk.cov.pop("_versioned", [])})
        extra = [("databricks", b) for d, b in versioned if d == "spark"]
        settings = [settings_spec(chk, d, b) for _ in range(chk.pick(1, 6) * boost) for d, b in versioned + extra]
        chk.cov["settings_runs"] = {"dialect_versions": [f"{d} < {b}" for d, b in versioned + extra], "run": len(settings)}
        churn = [churn_spec(chk) for _ in range(chk.pick(2, 10) * boost)]
        specs = corpus + routes + shared + settings + churn + specs
        base.ensure(list(all_ops(specs)), True)
        t0 = time.time()
        load_interference(chk, runner, workers, boost)
        order_dependence(chk, runner, base, specs, workers)
        chunk = workers * 3
        done = 0
        for i in range(0, len(specs), chunk):
            outs = run_batch(chk, runner, specs[i:i + chunk], workers)
            try:
                process_outputs(chk, runner, base, outs, kind, stats)
            except HarnessError as e:
                if proved and "model driver" in str(e):
                    raise
                if "model driver" not in str(e):
                    raise
                chk.note(f"model driver unavailable ({e}); continuing with the oracles on the real code")
            done += len(outs)
            if len(chk.violations) >= 3:
                break
        chk.search_info = {"ran": True, "processes": done, "violating": stats["violating"], "wall_s": round(time.time() - t0, 1),
                           "events_recorded": stats["events"], "runs_with_lock_contention": stats["contended"],
                           "model_steps_replayed": stats["replayed_steps"], "traces_outside_model": len(stats["outside"]),
                           "outside_examples": stats["outside"][:3],
                           "oracle": "no thread raises or hangs; every result equals the sequential baseline (confirmed alone in a fresh process); "
                                     "every module body runs at most once; racing dispatch fills are equal; lock events are well-nested"}
        if stats["outside"] and len(stats["outside"]) > max(2, chk.corr_cases):
            chk.broken.append({"kind": "correspondence", "what": "most recorded traces fall outside the model", "example": stats["outside"][:3]})
        if chk.corr_cases == 0 and not chk.violations:
            chk.broken.append({"kind": "correspondence", "what": "no trace could be validated against the model", "example": stats["outside"][:3]})
    except _Abort:
        chk.search_info = {"ran": True, "aborted": "a sequential process already violates the property (see the violation)"}
    finally:
        runner.cleanup()


def replay(path: str) -> int:
    rec = json.load(open(path))
    r = rec.get("replay")
    if not r or "spec" not in r:
        print(json.dumps(rec, indent=1)[:4000])
        return 1
    class _Stub:  # (a real Check would wipe the replay files of this seed)
        def count(self, *a, **k):
            pass

    chk = _Stub()
    runner = Runner(chk)
    try:
        base = Baseline(runner)
        spec = r["spec"]
        if spec.get("mode") == "L":
            out = runner.run(spec)
            snaps = out.get("snaps", [])
            order = spec["order"]
            for j, x in enumerate(order):
                for kk in range(j + 1, len(snaps)):
                    d = _snap_diff(snaps[j][x], snaps[kk][x])
                    if d:
                        print(f"replay: VIOLATES: the first use of {order[kk]} changed {x}'s {d[0]} {d[1]}: {str(d[2])[:200]} -> {str(d[3])[:200]}")
                        return 1
            if "compare_with" in r:
                ref = runner.run(r["compare_with"])
                x = order[-1]
                d = _snap_diff(ref["snaps"][0][x], snaps[-1][x])
                if d:
                    print(f"replay: VIOLATES: {x}'s {d[0]} {d[1]} depends on what was loaded before: {str(d[2])[:200]} vs {str(d[3])[:200]}")
                    return 1
            print("replay: holds")
            return 0
        if spec.get("mode") == "alone-vs-sequential":
            print("replay: compare the call alone in a fresh process with the same call after the other calls:", json.dumps(r)[:1500])
            return 1
        if spec.get("mode") == "alone":
            out = runner.run(spec)
            if out.get("hang"):
                print("replay: VIOLATES: the single thread hangs:", json.dumps(out.get("hang_info"))[:800])
                return 1
            print("replay: holds (the call returned", out["results"][0][:1], ")")
            return 0
        base.ensure(list(all_ops([spec])), True)
        tries = 12
        for i in range(tries):
            out = runner.run(dict(spec, hashseed=spec.get("hashseed", 0)))
            bad = check_run(chk, out, base, runner)
            if bad:
                print(f"replay: VIOLATES (attempt {i + 1}/{tries}): {bad[0][1][:600]}")
                return 1
        print(f"replay: holds on {tries} attempts (thread schedules vary)")
        return 0
    finally:
        runner.cleanup()
