"""C07 — Formatting and generator options never change the meaning of the SQL (DESIGN.md §4 C07).

translate : nothing is data here except SENTINEL_LINE_BREAK and the helper signatures (checked structurally, no Generated file)
prove     : Properties/C07.lean (indent / sep / seg / wrap only add or remove whitespace, for every pad / indent / width;
            sentinel round trip under a sufficient hypothesis; witnesses for the in-band sentinel)
correspond: exact outputs of Generator.{sep, seg, indent, wrap, expressions, sanitize_comment, maybe_comment} and of a string
            literal through generate() vs Model/Pretty.lean on generated strings and options
search    : the property's own oracle on the real code: trees of the core grammar x all dialects x the option product
"""

from __future__ import annotations

import inspect
import itertools
import json
import re
import time

from vf.core import Check, HarnessError
from vf.props import c01

MODULES = ["Model.Pretty", "Proofs.Pretty", "Properties.C07"]
P = "SqlglotModel.Properties.C07."
THEOREMS = [P + n for n in ["indent_ws_only", "sep_seg_ws_only", "wrap_ws_only", "sentinel_roundtrip",
                            "sentinel_in_literal_changes_value", "sentinel_overlap_changes_value", "sanitize_comment_examples"]]
SENT = "__SQLGLOT__LB__"


def sg():
    import sqlglot
    from sqlglot import exp
    from sqlglot.generator import Generator

    return sqlglot, exp, Generator


def structure_check(chk: Check) -> None:
    _, _, Generator = sg()
    if getattr(Generator, "SENTINEL_LINE_BREAK", None) != SENT:
        chk.broken.append({"kind": "translator", "what": f"C07: SENTINEL_LINE_BREAK changed to {getattr(Generator, 'SENTINEL_LINE_BREAK', None)!r}"})
    want = {"sep": ["self", "sep"], "seg": ["self", "sql", "sep"], "indent": ["self", "sql", "level", "pad", "skip_first", "skip_last"],
            "wrap": ["self", "expression"],
            "expressions": ["self", "expression", "key", "sqls", "flat", "indent", "skip_first", "skip_last", "sep", "prefix", "dynamic", "new_line"]}
    for name, params in want.items():
        fn = getattr(Generator, name, None)
        got = list(inspect.signature(fn).parameters) if fn else None
        if got != params:
            chk.broken.append({"kind": "translator", "what": f"C07: structure changed: Generator.{name}{got}"})


# ------------------------------------------------------------------------------------------ correspondence
PIECES = ["a", "b + 1", "SELECT", "x,", "  y", "f(a, b)", "", " ", "\n", "a\nb", "  a\n  b\n", "c  ", "(", ")", "/* c */", "'s t'", "a\n\nb"]
SEPS = [" ", "", ", ", " AND ", ",", "\n", " ,  "]


def rand_text(rng, n=3):
    return "".join(rng.choice(PIECES) for _ in range(rng.randint(0, n)))


def correspond(chk: Check) -> None:
    _, exp, Generator = sg()
    rng = chk.rng
    lines, expect, descr = [], [], []
    N = chk.pick(2500, 40000)
    for i in range(N):
        o = {"pretty": rng.random() < 0.75, "pad": rng.choice([0, 1, 2, 3, 4, 7]), "indent": rng.choice([0, 1, 2, 3, 4, 5]),
             "mtw": rng.choice([0, 1, 5, 20, 80]), "lc": rng.random() < 0.4}
        g = Generator(pretty=o["pretty"], pad=o["pad"], indent=o["indent"], max_text_width=o["mtw"], leading_comma=o["lc"])
        k = rng.choice(["sep", "seg", "indent", "indent", "wrap", "expressions", "expressions", "expressions", "literal", "sanitize", "comment"])
        req = dict(o, op=k)
        try:
            if k == "sep":
                req["s"] = rng.choice(SEPS)
                r = g.sep(req["s"])
            elif k == "seg":
                req["sql"], req["s"] = rand_text(rng), rng.choice(SEPS)
                r = g.seg(req["sql"], req["s"])
            elif k == "indent":
                req.update(sql=rand_text(rng, 4), level=rng.choice([0, 0, 1, 2, 3]), sf=rng.random() < 0.4, sl=rng.random() < 0.4)
                pad = rng.choice([None, None, 0, 1, 3])
                if pad is not None:
                    req["padarg"] = pad
                r = g.indent(req["sql"], level=req["level"], pad=pad, skip_first=req["sf"], skip_last=req["sl"])
            elif k == "wrap":
                req["sql"] = rand_text(rng, 3)
                r = g.wrap(exp.Paren(this=exp.Var(this=req["sql"]))) if False else g.wrap(_Raw(exp, req["sql"]))
            elif k == "expressions":
                items = [rng.choice(["a", "b + 1", "", "x AS y", "f(a,\n  b)", "long_name_" * rng.randint(1, 3), "c  "]) for _ in range(rng.randint(0, 5))]
                req.update(items=items, flat=rng.random() < 0.2, ind=rng.random() < 0.8, sf=rng.random() < 0.3, sl=rng.random() < 0.3,
                           s=rng.choice([", ", ", ", " ", ",", " AND "]), prefix=rng.choice(["", "", "- "]), dynamic=rng.random() < 0.4,
                           nl=rng.random() < 0.4)
                r = g.expressions(sqls=items, flat=req["flat"], indent=req["ind"], skip_first=req["sf"], skip_last=req["sl"], sep=req["s"],
                                  prefix=req["prefix"], dynamic=req["dynamic"], new_line=req["nl"])
            elif k == "literal":
                v = "".join(rng.choice(["a", " ", "\n", "_", "__SQLGLOT__LB_", SENT, "LB__", "x\n"]) for _ in range(rng.randint(0, 4)))
                req["v"] = v
                r = exp.Literal.string(v).sql(pretty=o["pretty"], pad=o["pad"], indent=o["indent"], max_text_width=o["mtw"], leading_comma=o["lc"])
            elif k == "sanitize":
                c = "".join(rng.choice(["a", " ", "*/", "/*", "*", "/", "\n", "x y"]) for _ in range(rng.randint(1, 5)))
                req["c"] = c
                r = g.sanitize_comment(c)
            else:
                cs = ["".join(rng.choice(["a", " ", "*/", "/*", "\n", "c1"]) for _ in range(rng.randint(0, 3))) for _ in range(rng.randint(0, 3))]
                on = rng.random() < 0.7
                g.comments = on
                req.update(comments=on, sql=rand_text(rng, 2), cs=cs)
                r = g.maybe_comment(req["sql"], comments=cs)
        except Exception as ex:  # noqa
            r = "!exc " + type(ex).__name__
        lines.append(json.dumps(req))
        expect.append(r)
        chk.count("corr:" + k)
        chk.case(req, nontrivial=True, sample=req if i % 500 == 0 else None)
    got = chk.driver("C07", lines)
    chk.corr_cases += len(lines)
    for l, e, gl in zip(lines, expect, got):
        m = json.loads(gl)
        if m != e:
            chk.correspondence_broken("generator helper", {"request": json.loads(l), "model": m, "impl": e})


class _RawBase:
    pass


def _Raw(exp, text):
    """an expression whose `this` generates exactly `text` (Generator.sql passes str through)"""
    return exp.Paren(this=text) if text else exp.Paren()


# ------------------------------------------------------------------------------------------ search (property oracle)
OPTION_PRODUCT = {
    "pad": [0, 1, 2, 3, 4], "indent": [0, 1, 2, 3, 4], "max_text_width": [1, 20, 80], "leading_comma": [False, True],
}


def canon(e, d, **kw):
    return e.sql(dialect=d or None, unsupported_level=_IGNORE(), **kw)


def _IGNORE():
    from sqlglot.errors import ErrorLevel

    return ErrorLevel.IGNORE


def strip_comments(e):
    e = e.copy()
    for n in e.walk():
        n.comments = None
    return e


def verdict(s: str, d: str, opts: dict):
    """None if the property holds for source s in dialect d under opts, else (kind, detail)"""
    sqlglot, exp, _ = sg()
    from sqlglot.errors import SqlglotError

    dd = d or None
    try:
        e = sqlglot.parse_one(s, dialect=dd)
        default = canon(e, d)
    except SqlglotError:
        return None
    except Exception:  # noqa
        return None
    try:
        base_tree = sqlglot.parse_one(default, dialect=dd)
    except Exception as ex:  # noqa
        return "noparse-default", f"default output does not parse: {default!r}: {type(ex).__name__}"
    try:
        out = canon(e, d, **opts)
    except Exception as ex:  # noqa
        return "exception", f"sql(**{opts}) raised {type(ex).__name__}: {str(ex)[:80]}"
    if opts.get("pretty") and SENT in out and SENT not in s:
        return "sentinel-in-output", f"pretty output contains the sentinel: {out!r}"
    if opts.get("comments") is False and any(n.comments for n in e.walk()):
        for n in e.walk():
            for c in n.comments or []:
                if c.strip() and c.strip() in out and c.strip() not in canon(strip_comments(e), d, **{k: v for k, v in opts.items() if k != "comments"}):
                    return "comment-text", f"comments=False output contains comment text {c.strip()!r}: {out!r}"
    try:
        t2 = sqlglot.parse_one(out, dialect=dd)
    except Exception as ex:  # noqa
        return "noparse", f"output under {opts} does not parse: {out!r}: {type(ex).__name__}"
    # equal up to comments / quoting flags / function-name case: compare canonical re-renderings
    norm = {"comments": False, "identify": True, "normalize_functions": "upper"}
    a, b = canon(t2, d, **norm), canon(base_tree, d, **norm)
    if a != b:
        return "tree", f"parse(output under {opts}) differs from parse(default output): {a!r} vs {b!r}"
    return None


def skeleton(s, d):
    return c01.skeleton(s, d)


def opt_key(opts):
    keys = []
    if opts.get("pretty"):
        keys.append("pretty")
    if opts.get("comments") is False:
        keys.append("nocomments")
    if opts.get("identify"):
        keys.append("identify")
    if "normalize_functions" in opts:
        keys.append("normfunc")
    return "+".join(keys) or "default"


def search(chk: Check, budget_s: float) -> None:
    t0 = time.time()
    rng = chk.rng
    tabs = c01.dialect_tables(Check.__new__(Check)) if False else None
    dummy = _Quiet()
    tabs = c01.dialect_tables(dummy)
    dialects = sorted(tabs)
    qg = c01.QGen(rng, tabs[""])
    tried = found = 0

    def rand_opts():
        o = {}
        if rng.random() < 0.8:
            o["pretty"] = True
            for k, vs in OPTION_PRODUCT.items():
                o[k] = rng.choice(vs)
        if rng.random() < 0.3:
            o["comments"] = False
        if rng.random() < 0.3:
            o["identify"] = rng.choice([True, "safe"])
        if rng.random() < 0.3:
            o["normalize_functions"] = rng.choice(["upper", "lower", False])
        return o

    def consider(m, d, opts):
        nonlocal tried, found
        tried += 1
        s = c01.unmark(m)
        v = verdict(s, d, opts)
        chk.count("search:" + ("holds" if v is None else v[0]))
        if v is None:
            return
        found += 1
        small = shrink(m, d, opts, v[0], time.time() + 8.0)
        # minimise the options too
        for k in list(opts):
            o2 = {kk: vv for kk, vv in opts.items() if kk != k}
            v3 = verdict(small, d, o2)
            if v3 and v3[0] == v[0]:
                opts = o2
        v2 = verdict(small, d, opts) or v
        key = v2[0] + ":" + opt_key(opts) + ":" + skeleton(small, d).replace("__SQLGLOT__LB__", "SENTINEL")
        if SENT in small or "__SQLGLOT__LB_" in small:
            key = v2[0] + ":text-contains-sentinel-prefix"
        chk.report_violation(key, f"[{d or 'base'}] {v2[1]}", {"dialect": d, "sql": small, "options": opts, "original": s}, {"dialect": d})

    templates = ["SELECT '__SQLGLOT__LB__'", "SELECT '__SQLGLOT__LB_\n_'", "SELECT a /* c1 */, b -- c2\nFROM t", "SELECT a -- x */ y\n, b",
                 "SELECT \"Q w\", f(a) FROM t WHERE a IN (1, 2, 3) AND b BETWEEN 1 AND 2", "SELECT CASE WHEN a THEN 1 ELSE 2 END FROM (SELECT 1) AS s"]
    for s in templates:
        for d in dialects:
            consider(s, d, {"pretty": True, "pad": 2, "indent": 2, "max_text_width": 20})
            consider(s, d, {"comments": False})
    while time.time() - t0 < budget_s and len(chk.violations) < 5:
        depth = rng.choice([0, 1, 1, 2])
        m = qg.query(depth)
        if rng.random() < 0.3:
            m = m.replace(" FROM ", " /* c0m */ FROM ", 1) if " FROM " in m else m + " -- c0m"
        chk.case(("search", c01.unmark(m)), nontrivial=True)
        for d in [""] + rng.sample(dialects, 4):
            consider(m, d, rand_opts())
            if time.time() - t0 > budget_s:
                break
    chk.search_info = {"ran": True, "budget_s": budget_s, "statement_dialect_option_triples": tried, "violating": found,
                       "oracle": "parse(sql(**opts)) equals parse(sql()) up to comments / quoting / function case (canonical re-rendering); "
                                 "pretty output has no sentinel; comments=False output has no comment text"}


class _Quiet:
    """stand-in Check for c01.dialect_tables (collects translator notes we do not need here)"""

    def __init__(self):
        self.broken = []
        self.cov = {}


def shrink(m, d, opts, kind, deadline):
    def ok(c):
        v = verdict(c01.unmark(c), d, opts)
        return v is not None and v[0] == kind

    cur = m
    progress = True
    while progress and time.time() < deadline:
        progress = False
        sp = c01.spans(cur)
        cands = []
        for k, a, b in sp:
            if k == "C":
                cands.append(cur[:a] + cur[b + 1:])
                continue
            cands.append((c01.M_Q0 + "SELECT " + cur[a:b + 1] + c01.M_Q1) if k == "E" else cur[a:b + 1])
            for k2, a2, b2 in sp:
                if k2 == k and a < a2 and b2 < b:
                    cands.append(cur[:a] + cur[a2:b2 + 1] + cur[b + 1:])
            if k == "E" and c01.unmark(cur[a:b + 1]) not in ("a", "1"):
                cands.append(cur[:a] + c01.M_E0 + "a" + c01.M_E1 + cur[b + 1:])
        n0 = len(c01.unmark(cur))
        for c in sorted(set(c for c in cands if len(c01.unmark(c)) < n0), key=lambda c: len(c01.unmark(c))):
            if time.time() > deadline:
                break
            if ok(c):
                cur, progress = c, True
                break
    return c01.unmark(cur)


def run(chk: Check) -> None:
    chk.trusted.append("C07: hand-written model Model/Pretty.lean of Generator.{sep,seg,indent,wrap,expressions,sanitize_comment,"
                       "maybe_comment,_replace_line_breaks} and the sentinel replacement in generate()")
    chk.assumptions += [
        "the theorems are about the formatting helpers; that each of the ~1500 *_sql methods composes them without dropping "
        "a token is checked by the search oracle only (parametric premise, monitored)",
        "str.strip/rstrip whitespace is modelled as {space, newline, tab, CR}",
    ]
    import logging

    logging.getLogger("sqlglot").setLevel(logging.ERROR)
    structure_check(chk)
    proved = chk.prove(MODULES, "Properties.C07", THEOREMS)
    try:
        correspond(chk)
    except HarnessError as e:
        if proved:
            raise
        chk.note(f"model driver unavailable ({e}); continuing with the search on the real code")
    budget = chk.pick(25, 300)
    if chk.broken:
        budget *= 2
    search(chk, budget)


def replay(path: str) -> int:
    import sys
    from vf.core import REPO

    sys.path.insert(0, REPO)
    rec = json.load(open(path))
    r = rec.get("replay")
    if not r:
        print(json.dumps(rec, indent=1))
        return 1
    v = verdict(r["sql"], r["dialect"], r["options"])
    print("replay:", ("VIOLATES: " + v[1]) if v else "holds")
    return 1 if v else 0
